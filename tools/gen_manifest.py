#!/venv/bin/python
"""Regenerate MANIFEST.json from the per-property table below (keeps it valid at all times)."""
import json
import os
import subprocess

ROOT = os.path.dirname(os.path.dirname(os.path.abspath(__file__)))

TECH = {
    "C08": ("contracts on HDPrivateKey/HDPublicKey from_seed/child/traverse/xprv/xpub/parse and blind_xpub vs reference BIP32; private/public agreement, traverse-equals-fold and round-trip monitors; memo invariant", "2 C08"),
    "C12": ("contracts on TapLeaf/TapBranch hashing and control blocks, ControlBlock codec and the public/private taproot tweak vs reference BIP341; all tree shapes; sibling-swap invariance; differential control-block/leaf tamper catalogue", "2 C12"),
    "C13": ("contracts on MuSigTapScript key aggregation / signing (final signature judged by the reference BIP340 verifier under the reference aggregate key) and on the k-of-n tree generators (subset<->leaf bijection); leaf spends through Tx.verify_input; negative classes", "2 C13"),
    "C09": ("contracts on Base58(Check), Bech32/Bech32m, WIF and address<->scriptPubKey functions vs reference encoders; exhaustive single and sampled/exhaustive double substitutions of segwit addresses", "2 C09"),
    "C16": ("contracts on calc_core_checksum, parse_full_key_record and P2WSHSortedMulti.__init__/parse/get_address vs reference descriptor checksum + BIP32 + sortedmulti; record permutations; single-character substitution sweeps", "2 C16"),
    "C20": ("contracts on bc32, CBOR and BCUR single/multi encode/parse vs a strict reference receiver; permutations/omissions/foreign parts; every-position character substitutions", "2 C20"),
    "C14": ("contracts on bytes_to_mnemonic / mnemonic_to_bytes / hmac_sha512_kdf / PBKDF2.read / from_mnemonic vs reference BIP39 + hashlib PBKDF2; exhaustive last-word and 4-letter-prefix acceptance sets; word-list invariants", "2 C14"),
    "C15": ("contracts on the SLIP39 pipeline (rs1024, Share.parse/mnemonic, split/recover/interpolate, encrypt/decrypt) with a two-way differential against a reference SLIP39; exhaustive GF(256) tables; subset, mixed-split and 1..3-word corruption workloads", "2 C15"),
    "C17": ("contracts on merkle_root, MerkleBlock.is_valid/proved_txs, Block.hash/target/check_pow, bits/target conversion, retarget, HeadersMessage.is_valid vs reference chain model; exhaustive trees <= 10 leaves x all match sets; proof tampering; stubbed hash at the target boundary", "2 C17"),
    "C18": ("contracts on SipHash, murmur3, Golomb/GCS codec, CompactFilter, CFHeaders chaining and BloomFilter vs reference filters; every message tail length; committed hash-collision witnesses", "2 C18"),
    "C19": ("contracts on the primitive wire helpers, NetworkEnvelope and every message serialize/parse vs struct-based reference layouts; every-byte corruption of sampled envelopes; truncation", "2 C19"),
    "C10": ("history monitor over signer subsets / orders / combine shapes on parse(serialize()) copies (one combined PSBT and one final tx per signer set, success iff >= m); contracts on PSBT.serialize (independent TLV reader), combine, finalize, final_tx; corrupted partial signatures must not load; PSBTs from the library's builder, from plain-signed transactions and with both UTXO forms", "2 C10"),
    "C11": ("boundary monitor on PSBT.parse + describe_basic_multisig: sums vs ground truth, independent change oracle re-deriving every labelled change output from the wallet seeds with reference BIP32, BIP174-level tamper catalogue", "2 C11"),
    "C07": ("contracts on every non-signature OP_CODE_FUNCTIONS entry and on encode_num/decode_num vs a port of EvalScript; whole-program differential on Script.evaluate (nested conditionals with several ELSEs, wide time-lock operands); timelock grid", "2 C07"),
    "C06": ("boundary monitor on Tx.verify_input: library-signed positives for 12 spend types, mutation catalogue classified by a reference authorisation analyser (negatives carry an unauthorised-by-construction proof); keyless-attacker fuzz (structure-aware scriptSigs / witnesses built without any key of the output must all be refused); in-place edit histories; contracts on the signature opcodes", "2 C06"),
    "C05": ("contracts on Tx.sig_hash_legacy/_bip143/_bip341/sig_hash that snapshot the object at call time and recompute the digest with a memo-free reference; query/edit history workload; fresh-object comparison", "2 C05"),
    "C04": ("contracts on Tx/Script/Witness/varint codecs vs reference wire codec; byte and field round trips; txid edit monitors; fetcher history monitor against a stubbed hostile server with cache invariant", "2 C04"),
    "C02": ("contracts on sign_schnorr / bip340_k / verify_schnorr / tagged_hash vs reference BIP340; 64-byte candidate catalogue through parse+verify; tag-cache invariant", "2 C02"),
    "C03": ("contracts on Point.__add__/__rmul__, S256Point ops and SEC/x-only codecs vs integer reference; exhaustive small fields and curves", "2 C03"),
    "C01": ("contracts on PrivateKey.sign / S256Point.verify / Signature.der+parse vs reference RFC6979-ECDSA-DER; nonce injection; tamper catalogue", "2 C01"),
}

NOT_YET = "check not built yet in this session (work in progress; nothing is claimed for it)"

LEVEL_TEXT = (
    "Runtime monitoring: the property held on every execution observed by contract monitors attached to the real "
    "functions and by boundary/history monitors comparing each observed result with an independent reference "
    "model. Exploration, not proof: the quantifier is infinite and the oracle only sees the executions the "
    "workload drives; evidence lists evaluations, distinct cases, class counters and gates."
)
LEVEL_NOTE = (
    "Trusted base: CPython, hashlib/hmac, the reference models in /verif/ref (self-checked against published "
    "vectors at start-up). Pure-Python back end only (cffi/libsecp256k1 cannot be imported here). Known findings "
    "are keyed by mechanism in /verif/known_findings.json."
)


def main():
    props = [json.loads(l) for l in open(os.path.join(ROOT, "properties.jsonl"))]
    commits = subprocess.run(
        ["git", "-C", "/repo", "log", "--format=%H %s"], capture_output=True, text=True
    ).stdout.splitlines()
    hook_commits = [c.split()[0] for c in commits if " hook:" in c or c.split(" ", 1)[1].startswith("hook")]
    checks, na = [], []
    for p in props:
        pid = p["id"]
        if pid in TECH and os.path.exists(os.path.join(ROOT, "props", pid.lower() + ".py")):
            tech, ref = TECH[pid]
            checks.append(
                {
                    "property_id": pid,
                    "quick_cmd": f"./vcheck {pid} --tier quick",
                    "thorough_cmd": f"./vcheck {pid} --tier thorough",
                    "evidence_file": f"/verif/evidence/{pid}.json",
                    "replay_cmd_template": f"./vcheck {pid} --replay {{path}}",
                    "engine": "vmon",
                    "level_claimed": {"category": "exploration", "text": LEVEL_TEXT, "design_ref": "DESIGN.md section " + ref},
                    "level_note": LEVEL_NOTE,
                    "technique": "runtime monitoring: " + tech,
                }
            )
        else:
            na.append({"property_id": pid, "reason": NOT_YET})
    man = {
        "version": 1,
        "setup_cmd": "/venv/bin/python -m vmon.selfcheck",
        "hooks": {
            "guard": "BUIDL_VERIF",
            "enable": "every check exports BUIDL_VERIF=1; all monitors are attached from outside the repository (class/module attribute replacement), so there are no in-repo hook commits",
            "baseline_off_cmd": "cd /repo && env -u BUIDL_VERIF /venv/bin/python -m pytest -ra -q -p no:cacheprovider --timeout=900 --continue-on-collection-errors",
            "source_commits": hook_commits,
            "add_only": True,
        },
        "engines": [
            {
                "name": "vmon",
                "path": "/verif/vmon",
                "serves_properties": [c["property_id"] for c in checks],
                "kind_free_text": "runtime monitoring harness: contract wrappers on the real functions, reference-model oracles, history checkers, sharded subprocess workloads, three-valued verdicts",
            }
        ],
        "checks": checks,
        "not_applicable": na,
        "notes": "See DESIGN.md. Exit codes: 0 held / 1 VIOLATION / 2 INCONCLUSIVE (monitor could not observe; never a VIOLATION line).",
    }
    with open(os.path.join(ROOT, "MANIFEST.json"), "w") as f:
        json.dump(man, f, indent=1)
    print("checks:", len(checks), "not_applicable:", len(na))


if __name__ == "__main__":
    main()
