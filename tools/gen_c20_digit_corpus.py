#!/venv/bin/python
"""One-off search (reference bc32 encoder only): 3-byte payloads whose bc32 text contains no letters.
Writes corpus/c20_digit_only_bc32.json; the C20 check replays them deterministically."""
import json
import os
import sys

ROOT = os.path.dirname(os.path.dirname(os.path.abspath(__file__)))
sys.path.insert(0, ROOT)
from ref import textenc as te  # noqa: E402

found = []
for v in range(1 << 24):
    b = v.to_bytes(3, "big")
    s = te.bc32_encode(b)
    if not any(c.isalpha() for c in s):
        found.append({"payload": b.hex(), "bc32": s})
        if len(found) >= 8:
            break
json.dump(found, open(os.path.join(ROOT, "corpus", "c20_digit_only_bc32.json"), "w"), indent=1)
print(len(found), found[:3])
