#!/bin/sh
# Final pass against /repo itself (run when nothing else is observing /repo):
#   1. every seeded change applied to /repo, checked, restored  -> selftest/results.json
#   2. every check's quick tier on the unchanged tree            -> evidence/*.json
#   3. DESIGN.md seed table regenerated
# usage: tools/final_pass.sh [seeds|evidence|all]
cd "$(dirname "$0")/.." || exit 2
what=${1:-all}
if [ "$what" = seeds ] || [ "$what" = all ]; then
    rm -f selftest/results.json
    selftest/run_seeded.py 2>&1 | tee .work/final_seeds.log
    git -C /repo status --porcelain --untracked-files=no
fi
if [ "$what" = evidence ] || [ "$what" = all ]; then
    for p in C01 C02 C03 C04 C05 C06 C07 C08 C09 C10 C11 C12 C13 C14 C15 C16 C17 C18 C19 C20; do
        VERIF_SEED=0 ./vcheck $p --tier quick 2>&1 | grep -v "^  mechanism" | tail -3
    done 2>&1 | tee .work/final_evidence.log
fi
/venv/bin/python tools/gen_seed_table.py
