"""Search (with the reference SipHash only) for BIP158 element sets in which two distinct elements map to
the same range value, and write them to corpus/c18_collisions.json so that the quick tier of C18 replays
them deterministically.   usage: /venv/bin/python tools/gen_c18_collisions.py
"""
import json
import os
import random
import sys

ROOT = os.path.dirname(os.path.dirname(os.path.abspath(__file__)))
sys.path.insert(0, ROOT)
from ref import filters as fl  # noqa: E402


def rand_script(rng):
    kind = rng.randrange(6)
    if kind == 0:
        return bytes.fromhex("76a914") + rng.getrandbits(160).to_bytes(20, "big") + bytes.fromhex("88ac")
    if kind == 1:
        return bytes.fromhex("0014") + rng.getrandbits(160).to_bytes(20, "big")
    if kind == 2:
        return bytes.fromhex("a914") + rng.getrandbits(160).to_bytes(20, "big") + b"\x87"
    if kind == 3:
        return bytes.fromhex("0020") + rng.getrandbits(256).to_bytes(32, "big")
    if kind == 4:
        return bytes.fromhex("5120") + rng.getrandbits(256).to_bytes(32, "big")
    n = rng.randrange(1, 80)
    return rng.getrandbits(8 * n).to_bytes(n, "big")


def find(rng, key, n, candidates):
    """-> list of n distinct elements, two of which share a range value under F = n*M (or None)."""
    f = n * fl.GCS_M
    pool = {}
    while len(pool) < candidates:
        s = rand_script(rng)
        pool[s] = fl.siphash24(key, s)
    order = sorted(pool, key=lambda s: pool[s])
    for a, b in zip(order, order[1:]):
        if (pool[a] * f) >> 64 == (pool[b] * f) >> 64:
            others = [s for s in order if s not in (a, b)]
            rng.shuffle(others)
            els = [a, b] + others[: n - 2]
            rng.shuffle(els)
            return els, a, b
    return None


def main():
    rng = random.Random(158)
    out = []
    for n, cand in ((2, 4000), (2, 4000), (3, 5000), (5, 6000), (10, 9000), (16, 12000), (100, 30000), (253, 50000)):
        while True:
            key = rng.getrandbits(128).to_bytes(16, "big")
            r = find(rng, key, n, cand)
            if r:
                break
        els, a, b = r
        f = n * fl.GCS_M
        v = fl.hash_to_range(key, a, f)
        assert v == fl.hash_to_range(key, b, f) and a != b and len(set(els)) == n
        raw = fl.gcs_encode(key, els)
        nn, values, _ = fl.gcs_decode(raw)
        assert nn == n and len(set(values)) == n - 1 or len(set(values)) < n
        out.append({"n": n, "key": key.hex(), "elements": [e.hex() for e in els], "colliding": [a.hex(), b.hex()], "range_value": v, "filter": raw.hex()})
        print("N=%d key=%s value=%d filter=%d bytes" % (n, key.hex(), v, len(raw)))
    with open(os.path.join(ROOT, "corpus", "c18_collisions.json"), "w") as fh:
        json.dump({"comment": "BIP158 element sets with two elements of equal range value (found with ref/filters.py; see tools/gen_c18_collisions.py)", "witnesses": out}, fh, indent=1)


if __name__ == "__main__":
    main()
