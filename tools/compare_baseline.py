#!/venv/bin/python
"""Compare a junit xml of the repository suite (guard off) with /root/.vp/BASELINE.json: every test of
stable_pass must still pass.   usage: tools/compare_baseline.py <junit.xml>"""
import json
import sys
import xml.etree.ElementTree as ET

base = json.load(open("/root/.vp/BASELINE.json"))
want = set(base["stable_pass"])
tree = ET.parse(sys.argv[1])
passed, failed = set(), set()
for tc in tree.iter("testcase"):
    name = f"{tc.get('classname')}::{tc.get('name')}"
    bad = any(ch.tag in ("failure", "error") for ch in tc)
    skipped = any(ch.tag == "skipped" for ch in tc)
    if bad:
        failed.add(name)
    elif not skipped:
        passed.add(name)
missing = sorted(want - passed)
print(f"stable_pass in baseline: {len(want)}; passing now: {len(want & passed)}; not passing: {len(missing)}")
for m in missing[:40]:
    print("  NOT PASSING:", m)
print("failures outside the baseline's always_fail list:", sorted(failed - set(base.get("always_fail", [])))[:20])
sys.exit(1 if missing else 0)
