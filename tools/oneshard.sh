#!/bin/sh
# debug helper: run ONE shard of a property in the foreground:  tools/oneshard.sh C11 describe 0 [quick|thorough]
cd "$(dirname "$0")/.." || exit 2
P=$1; NAME=$2; IDX=$3; TIER=${4:-quick}
mkdir -p .work
export PYTHONHASHSEED=0 PYTHONDONTWRITEBYTECODE=1 BUIDL_VERIF=1 PYTHONPATH=/verif
/venv/bin/python - "$P" "$NAME" "$IDX" "$TIER" <<'PY'
import importlib, json, sys, os
p, name, idx, tier = sys.argv[1], sys.argv[2], int(sys.argv[3]), sys.argv[4]
mod = importlib.import_module("props." + p.lower())
seed = int(os.environ.get("VERIF_SEED", "0"))
d = [x for x in mod.shards(tier, seed) if x["name"] == name and x.get("idx", 0) == idx][0]
json.dump({"desc": d, "seed": seed, "tier": tier}, open(".work/one.json", "w"))
PY
/venv/bin/python -m vmon.shard "$P" .work/one.json .work/one.out
/venv/bin/python - <<'PY'
import json
r = json.load(open(".work/one.out"))
if r.get("harness_error"): print(r["harness_error"])
else:
    print("evaluations", r["evaluations"], "wall", r["wall_s"], "timed_out", r["timed_out"])
    print("classes", json.dumps(r["classes"], indent=0)[:3000])
    for v in r["violations"][:12]: print("VIOL", v["mechanism"], "|", v["what"][:300])
    print("notes", str(r["notes"])[:2000])
PY
