#!/venv/bin/python
"""Regenerate the seeded-change table of DESIGN.md (between the SEEDTABLE markers) from
seeded/*/meta.json and selftest/results.json (falling back to results-scratch.json)."""
import json
import os
import re

ROOT = os.path.dirname(os.path.dirname(os.path.abspath(__file__)))


def main():
    res = {}
    for name in ("results-scratch.json", "results.json"):
        p = os.path.join(ROOT, "selftest", name)
        if os.path.exists(p):
            res.update(json.load(open(p)))
    rows = ["| id | change (file) | needs, to manifest | caught by (quick tier) |", "|----|---------------|--------------------|------------------------|"]
    sdir = os.path.join(ROOT, "seeded")
    for sid in sorted(os.listdir(sdir)):
        mp = os.path.join(sdir, sid, "meta.json")
        if not os.path.exists(mp):
            continue
        m = json.load(open(mp))
        r = res.get(sid, {})
        others = {k.split("@")[1]: v for k, v in res.items() if k.startswith(sid + "@") and v.get("caught")}
        if not r.get("caught") and others:
            k0 = sorted(others)[0]
            caught = f"by **{k0}** (where the removed check lives): `" + "`, `".join(others[k0].get("mechanisms", [])[:2]) + "`"
        elif r.get("caught"):
            caught = "`" + "`, `".join(r.get("mechanisms", [])[:3]) + "`"
        elif r:
            caught = "**missed** (exit %s)" % r.get("exit")
        else:
            caught = "not run yet"
        title = m.get("title", "").replace("|", "/")
        needs = str(m.get("needs_to_manifest", "")).replace("|", "/").replace("\n", " ")
        if len(needs) > 230:
            needs = needs[:227] + "..."
        files = ", ".join(os.path.basename(f) for f in m.get("files", []))
        rows.append(f"| {sid} | {title} ({files}) | {needs} | {caught} |")
    table = "\n".join(rows)
    dp = os.path.join(ROOT, "DESIGN.md")
    s = open(dp).read()
    block = "<!-- SEEDTABLE-BEGIN -->\n" + table + "\n<!-- SEEDTABLE-END -->"
    if "%%SEEDTABLE%%" in s:
        s = s.replace("%%SEEDTABLE%%", block)
    else:
        s = re.sub(r"<!-- SEEDTABLE-BEGIN -->.*?<!-- SEEDTABLE-END -->", lambda _: block, s, flags=re.S)
    open(dp, "w").write(s)
    print(len(rows) - 2, "rows")


if __name__ == "__main__":
    main()
