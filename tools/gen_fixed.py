#!/venv/bin/python
"""Rewrite the "fixed" list of known_findings.json from the `fix:` commits in /repo.

Each entry has the form  "fixed: property=<id> <commit> <what failed>".  The mapping from a fix commit to the
property whose monitor established the defect is kept here (keyed by a substring of the commit subject).
Run by hand after adding a fix commit; never at check time.
"""
import json
import os
import subprocess

ROOT = os.path.dirname(os.path.dirname(os.path.abspath(__file__)))

MAP = [
    ("a partial signature on an input described by a witness UTXO is always checked against the segwit digest", "C10", "follow-up to 594bbc4: a P2SH output given as witness UTXO without its RedeemScript fell between the two digest branches and a junk partial signature loaded"),
    ("PSBTIn.validate refuses a WitnessScript on a non-witness output only when the output is known", "C10", "follow-up to the unused-slot fix: an input carrying a WitnessScript but no UTXO record yet was refused (unknown output treated as non-witness)"),
    ("PSBTIn.parse requires the sighash type to be four bytes", "C10", "a PSBT_IN_SIGHASH_TYPE value of 5+ bytes >= 2^32 was accepted by parse and serialize() of the parsed object raised OverflowError"),
    ("P2WSHSortedMulti.parse also reads a descriptor that is a quoted value of a JSON account map", "C16", "follow-up to 85b22cb: the end anchor refused a Specter-Desktop account map (descriptor as a quoted JSON value followed by \"} or by further keys); a second pattern reads exactly that form and still refuses a tail glued to the descriptor"),
    ("Tx.parse falls back to the legacy reading only when it accounts for the whole rest of the stream", "C04", "follow-up to 9404a5b: a truncated segwit transaction was returned as an invented legacy transaction without inputs (the segwit error was swallowed)"),
    ("GetHeadersMessage refuses a hash count other than the one locator hash", "C19", "GetHeadersMessage(num_hashes=k) wrote the count k but always one locator hash: for k != 1 the payload is not a getheaders message"),
    ("the p2wpkh signing helpers put the compressed public key into the witness", "C06", "sign_p2wpkh / sign_p2sh_p2wpkh with a key object carrying compressed=False (parsed from an uncompressed WIF) put the 65-byte key into the witness of an output committing to the compressed key: the library's own spend did not verify"),
    ("PSBTIn.validate refuses a RedeemScript or WitnessScript in a slot the spent output does not use", "C11", "the wallet's script attached as RedeemScript to a foreign P2WSH UTXO, or as WitnessScript to a foreign P2SH / P2TR / bare output: never compared with the spent output, the input was summarised as a wallet input"),
    ("the multisig summary requires a key's path to lie below the path stated for its xpub", "C11", "global xpubs at m/48'/1'/0'/2' while every derivation record said m/99'/7'/7'/7'/b/i: summarised, change labelled, root paths reported where the keys are not"),
    ("PrivateKey.wif uses the key's own compression flag", "C09", "PrivateKey.parse(uncompressed WIF).wif() returned the compressed WIF (the default argument shadowed the key's flag)"),
    ("p2sh finalize counts the signatures without the leading OP_0", "C10", "p2sh input with m-1 cosigner signatures plus a valid signature by a key outside the redeem script finalised (the OP_0 dummy was counted as a signature); the result did not parse"),
    ("PSBT validation treats a witness input by its script type whichever UTXO form describes it", "C10", "a segwit input carrying both UTXO forms (as Bitcoin Core writes them) was parsed, re-serialised with the previous transaction only, and that serialisation was refused on the next parse; signatures of such inputs were checked against the legacy digest"),
    ("P2WSHSortedMulti.parse accepts nothing but an optional checksum after the descriptor body", "C16", "the '#' replaced by any other character: the nine trailing characters were ignored and the descriptor accepted without any checksum comparison"),
    ("PSBTIn.validate refuses a non-witness UTXO for a native witness input", "C11", "p2wsh input described by a full previous transaction instead of a witness UTXO: nothing tied the attached (foreign, 1-of-n) witness script to the UTXO and the PSBT was summarised; partial signatures of such inputs were checked against the legacy digest"),
    ("PSBTOut.validate accepts a WitnessScript only for a p2wsh or p2sh-p2wsh output", "C11", "change metadata kept while the output became OP_1 <sha256(witness script)> (P2TR shaped, unspendable): still labelled change"),
    ("PSBTIn.validate requires the two UTXO forms of an input to agree", "C11", "input carrying both a previous transaction and a contradicting witness UTXO amount: the last record won and the fee of the summary was wrong"),
    ("RedeemScript.get_quorum requires OP_n to state the number of pubkeys", "C11", "p2sh change script OP_m <cosigner keys> OP_RETURN CHECKMULTISIG (anything in the OP_n slot) was labelled change"),
    ("a named extended key parsed from a PSBT keeps the network of its version bytes", "C10", "testnet PSBT with tpubs at a path without coin type (m/45'/0): parse without a network argument guessed mainnet from the path and re-serialised the global xpubs as xpub: serialize -> parse -> serialize changed the bytes"),
    ("create_multisig_psbt keys the global xpubs like the parser does", "C10", "combining the builder's PSBT object with a parsed (signed) copy wrote every PSBT_GLOBAL_XPUB twice (duplicate keys; re-serialisation of the result differed)"),
    ("decode_bech32 requires the separator after the regtest prefix", "C09", "bcrt!q..., bcrtxq... decoded like bcrt1q...: a second string for the same script"),
    ("decode_bech32 rejects non-zero or over-long padding", "C09", "segwit addresses with non-zero padding bits or an extra zero group (valid checksum) decoded to the program of the canonical address (BIP173 MUST reject)"),
    ("base58 addresses are accepted only with a standard version byte", "C09", "address_to_script_pubkey / TxOut.to_address chose the script from the first character: Base58Check strings with version 0x06, 0x6e.. or a 19/21-byte payload were returned as P2PKH/P2SH scripts"),
    ("parse_sec checks the length that goes with the SEC prefix", "C03", "65-byte strings 02/03 || 00*32 || x parsed as the compressed key of x (the 64 payload bytes were read as one integer); 33 bytes with prefix 04 likewise unchecked"),
    ("NetworkEnvelope.parse strips only the trailing zero padding", "C19", "a command with a leading NUL byte did not round-trip (strip() removed NULs on both sides; six NULs + 'verack' parsed as verack)"),
    ("default version nonce is drawn from [0, 2^64 - 1]", "C19", "VersionMessage() drew its nonce with randint(0, 2**64): the inclusive upper bound does not fit the 8-byte field (OverflowError; found by stubbing randint to return its bounds)"),
    ("SLIP39 split with threshold 1 returns one share per member", "C15", "1-of-n split (n >= 2) returned a single share although its header says 1 of n; SLIP-0039 SplitSecret gives every member the secret"),
    ("check_pow rejects a compact target that overflows 256 bits", "C17", "headers whose bits overflow 256 bits (exponent >= 33 with a mantissa that does not fit, e.g. 0x23000001) passed check_pow with any hash (CheckProofOfWork: fOverflow)"),
    ("BIP158 filter is built from the set of elements", "C18", "encode_gcs over an element list with a repeated script used N = len(list): wrong N, F, range values and filter bytes (BIP158 vector 'Duplicate pushdata')"),
    ("every OP_ELSE of an IF block toggles the executed branch", "C07", "IF a ELSE b ELSE c ENDIF: the second ELSE did not switch back (0 IF 0 ELSE 0 ELSE 1 ENDIF accepted, 1 IF 0 ELSE 0 ELSE 1 ENDIF rejected)"),
    ("CLTV and CSV read operands of at most 5 bytes", "C07", "timelock operands longer than 5 bytes were decoded (a 6-byte encoding of 1 satisfied CLTV; a hash output with bit 31 set made CSV a NOP); 5-byte CSV operands above 2^32-1 raised instead of comparing the low bits"),
    ("Tx.parse takes the segwit path only for marker and flag 00 01", "C04", "a legacy transaction without inputs (0, 2, 3.. outputs) could not parse its own serialisation: byte 5 = 00 alone selected the segwit parser"),
    ("ECDSA verify rejects r or s outside", "C01", "verify accepted (r, s+N); s = 0 raised AttributeError"),
    ("RFC 6979 nonce reduces a digest equal to N", "C01", "digest z == N was not reduced, nonce differed from RFC 6979"),
    ("low-S normalisation compares with integer", "C01", "s in (N//2, 2**255] returned unflipped (float N / 2)"),
    ("ECDSA verify compares x(R) reduced mod N", "C01", "valid signature with x(R) in [N, p) (r = x(R) - N) was rejected: x(R) compared unreduced"),
    ("doubling a point with y = 0", "C03", "2-torsion doubling raised / returned an off-curve point on small curves"),
    ("parse_sec rejects compressed keys whose prefix", "C03", "33-byte keys with prefix other than 02/03 parsed as 03"),
    ("Script.raw_serialize handles 75-byte pushes", "C04", "a 75-byte push raised 'too long a command'"),
    ("TxFetcher.fetch checks that the parsed transaction hashes", "C04", "legacy response with a non-minimal push returned/cached a Tx with another id"),
    ("ScriptPubKey.parse keeps the raw bytes", "C04", "scriptPubKey with a truncated push was converted to a P2WPKH template and re-serialised differently"),
    ("legacy sighash serialises the right input/output counts", "C05", "legacy digests for NONE/SINGLE/ANYONECANPAY used wrong input/output counts"),
    ("BIP143 sighash for NONE, SINGLE and ANYONECANPAY", "C05", "BIP143 zero hashes omitted, SINGLE output not hashed, IndexError without matching output"),
    ("BIP341 sighash commits to the annex before", "C05", "BIP341 put sha_single_output before sha_annex"),
    ("sighash midstates are recomputed", "C05", "memoised hashPrevouts/hashOutputs/sha_* never invalidated after edits"),
    ("Witness.has_annex requires at least two", "C05", "a single 0x50-prefixed witness element was treated as annex; empty last element raised IndexError"),
    ("Tx.sig_hash treats [signature, annex]", "C05", "key path spend with annex was hashed as a script path spend"),
    ("OP_CHECKMULTISIG fails when a signature matches none", "C06", "last signature matching no key fell through to success (m-1 good + junk accepted)"),
    ("verify_input rejects a non-empty ScriptSig on native witness", "C06", "scriptSig [OP_1] spent any P2WPKH/P2WSH/P2TR output"),
    ("P2SH-wrapped witness programs must be the only ScriptSig element", "C06", "scriptSig [junk, redeemScript] spent P2SH-P2WPKH/P2SH-P2WSH outputs without a signature"),
    ("verify_input requires a push-only ScriptSig for p2sh inputs", "C06", "scriptSig <redeemScript> OP_NOP spent any P2SH output without signatures"),
    ("Script.evaluate applies the witness program rules only when the program is the whole remaining script", "C06", "scriptSig [OP_0 <hash160(attacker key)> <redeemScript>] + witness [attacker sig, key] (or [OP_0 <sha256(OP_TRUE)> <redeemScript>] + witness [OP_TRUE]) spent any P2SH output: the witness-program rules fired on stack shape inside the scriptSig"),
    ("OP_PICK and OP_ROLL fail on a negative operand", "C07", "negative PICK/ROLL operand succeeded"),
    ("OP_CHECKSEQUENCEVERIFY is a NOP when the operand has the disable flag", "C07", "CSV operand with bit 31 set was rejected"),
    ("script evaluation ends with CastToBool", "C07", "final stack top 00 / 80 / 0000 counted as true"),
    ("NetworkEnvelope.parse rejects a payload shorter", "C19", "envelope with fewer payload bytes than declared was accepted"),
    ("PongMessage.parse is a classmethod", "C19", "PongMessage.parse raised TypeError"),
    ("CompactFilter keeps duplicate range values", "C18", "filter with two equal range values: wrong N/F, inserted elements absent, lossy re-serialise"),
    ("check_pow accepts hash == target", "C17", "check_pow rejected hash == target and accepted sign-bit / zero targets"),
    ("bits_to_target uses integer arithmetic", "C17", "bits_to_target returned floats for exponent < 3 and read the sign bit as magnitude"),
    ("target_to_bits always emits four bytes", "C17", "target_to_bits gave 2-3 bytes for targets below 2**16; IndexError for 0"),
    ("HDPublicKey.traverse accepts the upper-case M prefix", "C08", "public traverse / blind_xpub refused paths with the upper-case M prefix"),
    ("the tapleaf hash commits to the witness script bytes", "C12", "witness script with a re-encoded push still matched the leaf commitment"),
    ("MuSig nonce coefficient handles a nonce sum at infinity", "C13", "honest MuSig session whose nonce components cancel raised AttributeError"),
    ("PSBTIn.validate compares a p2sh-p2wpkh key", "C10", "p2sh-p2wpkh input with derivation could not be validated / re-parsed"),
    ("PSBTOut.validate accepts the key derivation of a p2sh-p2wpkh output", "C10", "p2sh-p2wpkh output with derivation could not be validated / re-parsed"),
    ("PSBT.serialize embeds the unsigned transaction in non-witness format", "C10", "Tx(segwit=True) was embedded in witness format; re-parse failed"),
    ("PSBT validation verifies a partial signature for the hash type", "C10", "partial signature with altered hash-type byte loaded"),
    ("PSBT.final_tx uses an empty ScriptSig for inputs finalised with a witness only", "C10", "PSBT.create(plain-signed p2wpkh tx) -> serialize -> parse -> final_tx raised AttributeError (script_sig None when only a final scriptwitness is present)"),
    ("PSBTOut.validate checks that an attached RedeemScript hashes", "C11", "foreign P2SH output with the wallet's change redeem script + derivations was labelled change"),
    ("a change output must carry exactly one key from each cosigner", "C11", "m-of-n script of one cosigner's keys was labelled change"),
    ("PSBTIn.validate ties a p2sh RedeemScript to a witness UTXO", "C11", "legacy P2SH input given as a bare witness UTXO: any stated amount / a foreign redeem script was summarised"),
    ("WitnessScript.get_quorum requires as many pubkeys as the script", "C11", "p2wsh change output whose witness script is OP_m <cosigner keys> <surplus foreign key> OP_n CHECKMULTISIG (honest derivations kept) was labelled change: n was read from the opcode, the keys were not counted"),
]


def main():
    log = subprocess.run(["git", "-C", "/repo", "log", "--reverse", "--format=%h %s"], capture_output=True, text=True).stdout.splitlines()
    fixed, unmapped = [], []
    for line in log:
        h, subj = line.split(" ", 1)
        if not subj.startswith("fix:"):
            continue
        for needle, prop, what in MAP:
            if needle in subj:
                fixed.append(f"fixed: property={prop} {h} {what}")
                break
        else:
            unmapped.append(line)
    path = os.path.join(ROOT, "known_findings.json")
    data = json.load(open(path))
    data["fixed"] = fixed
    json.dump(data, open(path, "w"), indent=1)
    print(len(fixed), "fixed entries;", "UNMAPPED:" if unmapped else "all fix commits mapped", *unmapped, sep="\n" if unmapped else " ")


if __name__ == "__main__":
    main()
