"""Reference block-chain primitives: Merkle root, BIP37 partial Merkle tree, 80-byte header,
compact target encoding, proof-of-work test, difficulty retarget, header-chain linkage.

Written from the Bitcoin protocol rules (ComputeMerkleRoot, CPartialMerkleTree,
arith_uint256::SetCompact/GetCompact, CheckProofOfWork, CalculateNextWorkRequired).
Hashes are handled in *internal* byte order (the raw double-SHA256 output) unless a name ends
in `_be` (the reversed, displayed order).  Never imports buidl.
"""
import hashlib
import struct

TARGET_TIMESPAN = 14 * 24 * 60 * 60  # two weeks
POW_LIMIT_MAINNET = (1 << 224) - 1  # 00000000ffff...ff
MAX_BLOCK_WEIGHT = 4000000
MIN_TRANSACTION_WEIGHT = 4 * 60
MAX_TXS_IN_PROOF = MAX_BLOCK_WEIGHT // MIN_TRANSACTION_WEIGHT


def hash256(b):
    return hashlib.sha256(hashlib.sha256(b).digest()).digest()


# ---- Merkle root ----------------------------------------------------------------------
def merkle_root(leaves):
    """ComputeMerkleRoot over a non-empty list of 32-byte hashes (internal order)."""
    if not leaves:
        raise ValueError("empty leaf list")
    level = list(leaves)
    while len(level) > 1:
        if len(level) & 1:
            level.append(level[-1])
        level = [hash256(level[i] + level[i + 1]) for i in range(0, len(level), 2)]
    return level[0]


# ---- BIP37 partial Merkle tree (port of CPartialMerkleTree) -----------------------------
def tree_width(total, height):
    return (total + (1 << height) - 1) >> height


def tree_height(total):
    h = 0
    while tree_width(total, h) > 1:
        h += 1
    return h


def _calc_hash(total, height, pos, txids):
    if height == 0:
        return txids[pos]
    left = _calc_hash(total, height - 1, pos * 2, txids)
    if pos * 2 + 1 < tree_width(total, height - 1):
        right = _calc_hash(total, height - 1, pos * 2 + 1, txids)
    else:
        right = left
    return hash256(left + right)


def pmt_build(txids, matches):
    """-> (total, hashes, bits) for the transaction ids `txids` (internal order) and the
    parallel list of booleans `matches` (TraverseAndBuild)."""
    total = len(txids)
    if total == 0:
        raise ValueError("no transactions")
    # level cache so that building is O(n) instead of recomputing sub-trees
    levels = [list(txids)]
    h = 0
    while tree_width(total, h) > 1:
        cur = levels[-1]
        nxt = []
        for i in range(0, len(cur), 2):
            left = cur[i]
            right = cur[i + 1] if i + 1 < len(cur) else left
            nxt.append(hash256(left + right))
        levels.append(nxt)
        h += 1
    height = h
    # prefix sums of matches to answer "any match in [a, b)" quickly
    pre = [0]
    for m in matches:
        pre.append(pre[-1] + (1 if m else 0))
    bits, hashes = [], []

    def build(height_, pos):
        a = pos << height_
        b = min((pos + 1) << height_, total)
        parent_of_match = pre[b] - pre[a] > 0
        bits.append(1 if parent_of_match else 0)
        if height_ == 0 or not parent_of_match:
            hashes.append(levels[height_][pos])
        else:
            build(height_ - 1, pos * 2)
            if pos * 2 + 1 < tree_width(total, height_ - 1):
                build(height_ - 1, pos * 2 + 1)

    build(height, 0)
    return total, hashes, bits


def bits_to_flag_bytes(bits):
    out = bytearray((len(bits) + 7) // 8)
    for p, b in enumerate(bits):
        if b:
            out[p // 8] |= 1 << (p % 8)
    return bytes(out)


def flag_bytes_to_bits(flags):
    return [(flags[p // 8] >> (p % 8)) & 1 for p in range(len(flags) * 8)]


class Extract:
    """Result of pmt_extract."""

    def __init__(self):
        self.root = None  # traversal root (internal order) or None when the traversal broke
        self.matches = []  # matched txids in traversal order
        self.indexes = []
        self.bad = False  # fBad (ran out of bits/hashes, or identical left/right = CVE-2012-2459)
        self.dup = False  # specifically the left == right condition
        self.ran_out = False  # the traversal needed more bits / hashes than the proof has
        self.bits_used = 0
        self.hashes_used = 0
        self.reason = None  # why Core's ExtractMatches would return null (None = accepted)


def pmt_extract(total, hashes, bits, prechecks=True):
    """Port of CPartialMerkleTree::ExtractMatches.  `bits` is the list of flag bits (as
    deserialised: 8 per byte).  Returns an Extract; `reason is None` <=> Core accepts and
    `root` is then the Merkle root the proof commits to.  With prechecks=False the size
    sanity tests that precede the traversal are only recorded (in `precheck`), and the BIP37
    traversal itself is still carried out (root / matches as the specification defines them)."""
    r = Extract()
    r.precheck = None
    if total == 0:
        r.reason = r.precheck = "no-transactions"
        return r
    if total > MAX_TXS_IN_PROOF:
        r.precheck = "too-many-transactions"
    elif len(hashes) > total:
        r.precheck = "more-hashes-than-transactions"
    elif len(bits) < len(hashes):
        r.precheck = "fewer-bits-than-hashes"
    if r.precheck is not None and prechecks:
        r.reason = r.precheck
        return r
    height = tree_height(total)
    state = {"bits": 0, "hashes": 0}

    def walk(height_, pos):
        if state["bits"] >= len(bits):
            r.bad = r.ran_out = True
            return b"\x00" * 32
        parent_of_match = bits[state["bits"]]
        state["bits"] += 1
        if height_ == 0 or not parent_of_match:
            if state["hashes"] >= len(hashes):
                r.bad = r.ran_out = True
                return b"\x00" * 32
            h = hashes[state["hashes"]]
            state["hashes"] += 1
            if height_ == 0 and parent_of_match:
                r.matches.append(h)
                r.indexes.append(pos)
            return h
        left = walk(height_ - 1, pos * 2)
        if pos * 2 + 1 < tree_width(total, height_ - 1):
            right = walk(height_ - 1, pos * 2 + 1)
            if right == left and not r.ran_out:
                r.bad = True
                r.dup = True
        else:
            right = left
        return hash256(left + right)

    root = walk(height, 0)
    r.bits_used, r.hashes_used = state["bits"], state["hashes"]
    if r.bad:
        r.reason = "ran-out-of-bits-or-hashes" if r.ran_out else "identical-siblings"
        r.root = None if r.ran_out else root
        return r
    r.root = root
    if r.precheck is not None:
        r.reason = r.precheck
    elif (r.bits_used + 7) // 8 != (len(bits) + 7) // 8:
        r.reason = "unused-flag-bytes"
    elif r.hashes_used != len(hashes):
        r.reason = "unused-hashes"
    return r


# ---- 80-byte header ---------------------------------------------------------------------
_HDR = struct.Struct("<I32s32sI4s4s")


def header_serialize(version, prev_be, root_be, timestamp, bits4, nonce4):
    return _HDR.pack(version, prev_be[::-1], root_be[::-1], timestamp, bits4, nonce4)


def header_parse(raw):
    """-> dict(version, prev_be, root_be, timestamp, bits4, nonce4) from exactly 80 bytes."""
    if len(raw) != 80:
        raise ValueError("header is 80 bytes")
    v, p, m, t, b, n = _HDR.unpack(raw)
    return {"version": v, "prev_be": p[::-1], "root_be": m[::-1], "timestamp": t, "bits4": b, "nonce4": n}


def header_hash_be(raw):
    """Block id bytes (displayed order) of an 80-byte header."""
    return hash256(raw)[::-1]


# ---- compact target encoding (arith_uint256) ---------------------------------------------
def set_compact(ncompact):
    """-> (value, negative, overflow) for a 32-bit compact."""
    size = ncompact >> 24
    word = ncompact & 0x007FFFFF
    if size <= 3:
        word >>= 8 * (3 - size)
        value = word
    else:
        value = word << (8 * (size - 3))
    negative = word != 0 and (ncompact & 0x00800000) != 0
    overflow = word != 0 and (size > 34 or (word > 0xFF and size > 33) or (word > 0xFFFF and size > 32))
    return value, negative, overflow


def get_compact(value, negative=False):
    """Compact encoding of a 256-bit unsigned value."""
    size = (value.bit_length() + 7) // 8
    if size <= 3:
        compact = (value & 0xFFFFFFFFFFFFFFFF) << (8 * (3 - size))
    else:
        compact = (value >> (8 * (size - 3))) & 0xFFFFFFFFFFFFFFFF
    if compact & 0x00800000:
        compact >>= 8
        size += 1
    assert compact & ~0x007FFFFF == 0
    assert size < 256
    compact |= size << 24
    if negative and (compact & 0x007FFFFF):
        compact |= 0x00800000
    return compact


def compact_from_bits4(bits4):
    """The header stores nBits little-endian."""
    return int.from_bytes(bits4, "little")


def bits4_from_compact(ncompact):
    return ncompact.to_bytes(4, "little")


def check_pow(digest, ncompact, pow_limit=None):
    """CheckProofOfWork: `digest` is the raw double-SHA256 of the header (read as a
    little-endian number).  With pow_limit=None the range test against the network's limit is
    skipped (only sign/zero/overflow and hash <= target)."""
    target, negative, overflow = set_compact(ncompact)
    if negative or target == 0 or overflow:
        return False
    if pow_limit is not None and target > pow_limit:
        return False
    return int.from_bytes(digest, "little") <= target


def next_work_required(prev_compact, actual_timespan, pow_limit=POW_LIMIT_MAINNET, target_timespan=TARGET_TIMESPAN):
    """CalculateNextWorkRequired (256-bit wrap-around arithmetic like arith_uint256)."""
    if actual_timespan < target_timespan // 4:
        actual_timespan = target_timespan // 4
    if actual_timespan > target_timespan * 4:
        actual_timespan = target_timespan * 4
    new, _neg, _ovf = set_compact(prev_compact)
    new = (new * actual_timespan) & ((1 << 256) - 1)
    new //= target_timespan
    if new > pow_limit:
        new = pow_limit
    return get_compact(new)


def chain_valid(raw_headers, pow_limit=None):
    """Every header satisfies its own proof of work and names its predecessor's hash."""
    last = None
    for raw in raw_headers:
        h = header_parse(raw)
        if not check_pow(hash256(raw), compact_from_bits4(h["bits4"]), pow_limit):
            return False
        if last is not None and h["prev_be"] != last:
            return False
        last = header_hash_be(raw)
    return True


# ---- merkleblock wire layout ------------------------------------------------------------
def _compact_size(n):
    if n < 0xFD:
        return bytes([n])
    if n <= 0xFFFF:
        return b"\xfd" + struct.pack("<H", n)
    if n <= 0xFFFFFFFF:
        return b"\xfe" + struct.pack("<I", n)
    return b"\xff" + struct.pack("<Q", n)


def merkleblock_serialize(raw_header, total, hashes, flag_bytes):
    out = raw_header + struct.pack("<I", total) + _compact_size(len(hashes))
    out += b"".join(hashes)
    out += _compact_size(len(flag_bytes)) + flag_bytes
    return out


# ---- self check against published data --------------------------------------------------
GENESIS_HEADER = bytes.fromhex(
    "0100000000000000000000000000000000000000000000000000000000000000000000003ba3edfd7a7b12b27ac72c3e67768f61"
    "7fc81bc3888a51323a9fb8aa4b1e5e4a29ab5f49ffff001d1dac2b7c"
)
GENESIS_COINBASE = bytes.fromhex(
    "01000000010000000000000000000000000000000000000000000000000000000000000000ffffffff4d04ffff001d0104455468"
    "652054696d65732030332f4a616e2f32303039204368616e63656c6c6f72206f6e206272696e6b206f66207365636f6e64206261"
    "696c6f757420666f722062616e6b73ffffffff0100f2052a01000000434104678afdb0fe5548271967f1a67130b7105cd6a828e0"
    "3909a67962e0ea1f61deb649f6bc3f4cef38c4f35504e51ec112de5c384df7ba0b8d578a4c702b6bf11d5fac00000000"
)
# testnet block with 12 transactions quoted in the repository's test_block/test_helper
_TWELVE = [
    "c117ea8ec828342f4dfb0ad6bd140e03a50720ece40169ee38bdc15d9eb64cf5",
    "c131474164b412e3406696da1ee20ab0fc9bf41c8f05fa8ceea7a08d672d7cc5",
    "f391da6ecfeed1814efae39e7fcb3838ae0b02c02ae7d0a5848a66947c0727b0",
    "3d238a92a94532b946c90e19c49351c763696cff3db400485b813aecb8a13181",
    "10092f2633be5f3ce349bf9ddbde36caa3dd10dfa0ec8106bce23acbff637dae",
    "7d37b3d54fa6a64869084bfd2e831309118b9e833610e6228adacdbd1b4ba161",
    "8118a77e542892fe15ae3fc771a4abfd2f5d5d5997544c3487ac36b5c85170fc",
    "dff6879848c2c9b62fe652720b8df5272093acfaa45a43cdb3696fe2466a3877",
    "b825c0745f46ac58f7d3759e6dc535a1fec7820377f24d4c2c6ad2cc55c0cb59",
    "95513952a04bd8992721e9b7e2937f1c04ba31e0469fbe615a78197f68f52b7c",
    "2e6d722e5e4dbdf2447ddecc9f7dabb8e299bae921c99ad5b0184cd9eb8e5908",
    "b13a750047bc0bdceb2473e5fe488c2596d7a7124b4e716fdd29b046ef99bbf0",
]
_TWELVE_ROOT = "acbcab8bcc1af95d8d563b77d24c3d19b18f1486383d75a5085c4e86c86beed6"
_TWELVE_HEADER = (
    "00000020fcb19f7895db08cadc9573e7915e3919fb76d59868a51d995201000000000000acbcab8bcc1af95d8d563b77d24c3d19"
    "b18f1486383d75a5085c4e86c86beed691cfa85916ca061a00000000"
)
# real mainnet merkleblock (3519 transactions, 10 hashes, flags b55635) quoted in test_merkleblock
_MERKLEBLOCK = (
    "00000020df3b053dc46f162a9b00c7f0d5124e2676d47bbe7c5d0793a500000000000000ef445fef2ed495c275892206ca533e74"
    "11907971013ab83e3b47bd0d692d14d4dc7c835b67d8001ac157e670bf0d00000aba412a0d1480e370173072c9562becffe87aa6"
    "61c1e4a6dbc305d38ec5dc088a7cf92e6458aca7b32edae818f9c2c98c37e06bf72ae0ce80649a38655ee1e27d34d9421d940b16"
    "732f24b94023e9d572a7f9ab8023434a4feb532d2adfc8c2c2158785d1bd04eb99df2e86c54bc13e139862897217400def5d72c2"
    "80222c4cbaee7261831e1550dbb8fa82853e9fe506fc5fda3f7b919d8fe74b6282f92763cef8e625f977af7c8619c32a369b832b"
    "c2d051ecd9c73c51e76370ceabd4f25097c256597fa898d404ed53425de608ac6bfe426f6e2bb457f1c554866eb69dcb8d6bf6f8"
    "80e9a59b3cd053e6c7060eeacaacf4dac6697dac20e4bd3f38a2ea2543d1ab7953e3430790a9f81e1c67f5b58c825acf46bd0284"
    "8384eebe9af917274cdfbb1a28a5d58a23a17977def0de10d644258d9c54f886d47d293a411cb6226103b55635"
)
# header of mainnet block 471744 and its id; header that satisfies / fails proof of work (test_block)
_HDR_A = (
    "020000208ec39428b17323fa0ddec8e887b4a7c53b8c0a0a220cfd0000000000000000005b0750fce0a889502d40508d39576821"
    "155e9c9e3f5c3157f961db38fd8b25be1e77a759e93c0118a4ffd71d"
)
_HDR_A_ID = "0000000000000000007e9e4c586439b0cdbe13b1370bdd9435d76a644d047523"
_HDR_POW_OK = (
    "04000000fbedbbf0cfdaf278c094f187f2eb987c86a199da22bbb20400000000000000007b7697b29129648fa08b4bcd13c9d5e6"
    "0abb973a1efac9c8d573c71c807c56c3d6213557faa80518c3737ec1"
)
# two consecutive mainnet headers from the `headers` message quoted in test_network
_HDR_CHAIN = [
    "00000020df3b053dc46f162a9b00c7f0d5124e2676d47bbe7c5d0793a500000000000000ef445fef2ed495c275892206ca533e74"
    "11907971013ab83e3b47bd0d692d14d4dc7c835b67d8001ac157e670",
    "0000002030eb2540c41025690160a1014c577061596e32e426b712c7ca00000000000000768b89f07044e6130ead292a3f51951a"
    "dbd2202df447d98789339937fd006bd44880835b67d8001ade092046",
]


def selfcheck():
    # block 0
    assert header_hash_be(GENESIS_HEADER).hex() == "000000000019d6689c085ae165831e934ff763ae46a2a6c172b3f1b60a8ce26f"
    g = header_parse(GENESIS_HEADER)
    assert g["root_be"].hex() == "4a5e1e4baab89f3a32518a88c31bc87f618f76673e2cc77ab2127b7afdeda33b"
    assert merkle_root([hash256(GENESIS_COINBASE)])[::-1] == g["root_be"]
    assert g["version"] == 1 and g["timestamp"] == 1231006505 and g["bits4"].hex() == "ffff001d"
    assert header_serialize(**{k: g[k] for k in ("version", "prev_be", "root_be", "timestamp", "bits4", "nonce4")}) == GENESIS_HEADER
    assert check_pow(hash256(GENESIS_HEADER), compact_from_bits4(g["bits4"]), POW_LIMIT_MAINNET)
    # 12-leaf root
    leaves = [bytes.fromhex(x) for x in _TWELVE]
    assert merkle_root(leaves).hex() == _TWELVE_ROOT
    # the header stores that root in internal order (root_be is its reversal)
    hdr12 = header_parse(bytes.fromhex(_TWELVE_HEADER))
    assert merkle_root(leaves) == hdr12["root_be"][::-1]
    # header A
    a = bytes.fromhex(_HDR_A)
    assert header_hash_be(a).hex() == _HDR_A_ID
    ha = header_parse(a)
    assert ha["version"] == 0x20000002 and ha["timestamp"] == 0x59A7771E
    assert set_compact(compact_from_bits4(ha["bits4"]))[0] == 0x13CE9000000000000000000000000000000000000000000
    ok = bytes.fromhex(_HDR_POW_OK)
    assert check_pow(hash256(ok), compact_from_bits4(header_parse(ok)["bits4"]), POW_LIMIT_MAINNET)
    bad = ok[:-1] + b"\xc0"
    assert not check_pow(hash256(bad), compact_from_bits4(header_parse(bad)["bits4"]), POW_LIMIT_MAINNET)
    assert chain_valid([bytes.fromhex(x) for x in _HDR_CHAIN], POW_LIMIT_MAINNET)
    assert not chain_valid([bytes.fromhex(x) for x in reversed(_HDR_CHAIN)], POW_LIMIT_MAINNET)
    # arith_uint256 compact vectors (Bitcoin Core arith_uint256_tests bignum_SetCompact)
    for c in (0, 0x00123456, 0x01003456, 0x02000056, 0x03000000, 0x04000000, 0x00923456, 0x01803456, 0x02800056, 0x03800000, 0x04800000):
        v, neg, ovf = set_compact(c)
        assert (v, neg, ovf) == (0, False, False), hex(c)
        assert get_compact(v) == 0
    for c, val, neg, back in (
        (0x01123456, 0x12, False, 0x01120000),
        (0x01FEDCBA, 0x7E, True, 0x01FE0000),
        (0x02123456, 0x1234, False, 0x02123400),
        (0x03123456, 0x123456, False, 0x03123456),
        (0x04123456, 0x12345600, False, 0x04123456),
        (0x04923456, 0x12345600, True, 0x04923456),
        (0x05009234, 0x92340000, False, 0x05009234),
        (0x20123456, 0x1234560000000000000000000000000000000000000000000000000000000000, False, 0x20123456),
    ):
        v, n, o = set_compact(c)
        assert (v, n, o) == (val, neg, False), hex(c)
        assert get_compact(v, n) == back, hex(c)
    assert get_compact(0x80) == 0x02008000
    assert set_compact(0xFF123456)[2] is True
    assert get_compact(POW_LIMIT_MAINNET) == 0x1D00FFFF
    # retarget vectors (Bitcoin Core pow_tests: get_next_work, pow_limit, lower/upper limit)
    assert next_work_required(0x1D00FFFF, 1262152739 - 1261130161) == 0x1D00D86A
    assert next_work_required(0x1D00FFFF, 1233061996 - 1231006505) == 0x1D00FFFF
    assert next_work_required(0x1C05A3F4, 1279297671 - 1279008237) == 0x1C0168FD
    assert next_work_required(0x1C387F6F, 1269211443 - 1263163443) == 0x1D00E1FD
    # Programming Bitcoin ch.9 example: 54d80118 over 302400 s -> 00157617
    assert bits4_from_compact(next_work_required(compact_from_bits4(bytes.fromhex("54d80118")), 302400)).hex() == "00157617"
    # real merkleblock: parse by hand, extract, compare with the header's root
    raw = bytes.fromhex(_MERKLEBLOCK)
    hdr = header_parse(raw[:80])
    total = struct.unpack("<I", raw[80:84])[0]
    n = raw[84]
    hashes = [raw[85 + 32 * i : 85 + 32 * (i + 1)] for i in range(n)]
    off = 85 + 32 * n
    flags = raw[off + 1 : off + 1 + raw[off]]
    assert (total, n, flags.hex()) == (3519, 10, "b55635")
    ex = pmt_extract(total, hashes, flag_bytes_to_bits(flags))
    assert ex.reason is None and ex.root[::-1] == hdr["root_be"]
    assert [m[::-1].hex() for m in ex.matches] == ["6122b61c413a297dd486f8549c8d2544d610def0de7779a1238ad5a5281abbdf"]
    assert merkleblock_serialize(raw[:80], total, hashes, flags) == raw
    # build/extract are inverse on small trees, CVE-2012-2459 shape is refused
    for nleaves in range(1, 12):
        ids = [hash256(bytes([nleaves, i])) for i in range(nleaves)]
        root = merkle_root(ids)
        for mask in (0, 1, (1 << nleaves) - 1, 0b1010101010 & ((1 << nleaves) - 1), 1 << (nleaves - 1)):
            matches = [(mask >> i) & 1 == 1 for i in range(nleaves)]
            t, hs, bits = pmt_build(ids, matches)
            ex = pmt_extract(t, hs, flag_bytes_to_bits(bits_to_flag_bytes(bits)))
            assert ex.reason is None and ex.root == root, (nleaves, mask)
            assert ex.matches == [i for i, m in zip(ids, matches) if m]
    ids = [hash256(bytes([i])) for i in range(3)]
    t, hs, bits = pmt_build(ids + [ids[2]], [True] * 4)
    ex = pmt_extract(t, hs, bits + [0])
    assert ex.reason == "identical-siblings" and merkle_root(ids) == merkle_root(ids + [ids[2]])
    return True
