"""Reference arithmetic for prime fields and short-Weierstrass curves y^2 = x^3 + a*x + b over F_p,
with plain integers (affine formulas, inverse by pow(x, -1, p)).  Never imports buidl."""

INF = None


def is_prime(n):
    if n < 2:
        return False
    i = 2
    while i * i <= n:
        if n % i == 0:
            return False
        i += 1
    return True


def points(p, a, b):
    """All affine points by brute force."""
    out = []
    for x in range(p):
        rhs = (x * x * x + a * x + b) % p
        for y in range(p):
            if y * y % p == rhs:
                out.append((x, y))
    return out


def add(P, Q, a, p):
    if P is INF:
        return Q
    if Q is INF:
        return P
    x1, y1 = P
    x2, y2 = Q
    if x1 == x2 and (y1 + y2) % p == 0:
        return INF  # opposite points, including doubling of a 2-torsion point (y = 0)
    if P == Q:
        lam = (3 * x1 * x1 + a) * pow(2 * y1, -1, p) % p
    else:
        lam = (y2 - y1) * pow(x2 - x1, -1, p) % p
    x3 = (lam * lam - x1 - x2) % p
    y3 = (lam * (x1 - x3) - y1) % p
    return (x3, y3)


def mul_naive(k, P, a, p):
    """k*P by repeated addition (k >= 0)."""
    acc = INF
    for _ in range(k):
        acc = add(acc, P, a, p)
    return acc


def order(P, a, p):
    n, acc = 1, P
    while acc is not INF:
        acc = add(acc, P, a, p)
        n += 1
    return n


def selfcheck():
    # the textbook curve y^2 = x^3 + 7 over F_223
    pts = points(223, 0, 7)
    assert (192, 105) in pts and (17, 56) in pts and (1, 193) in pts and (200, 119) not in pts
    assert add((170, 142), (60, 139), 0, 223) == (220, 181)
    assert add((47, 71), (17, 56), 0, 223) == (215, 68)
    assert add((143, 98), (76, 66), 0, 223) == (47, 71)
    assert mul_naive(2, (192, 105), 0, 223) == (49, 71)
    assert mul_naive(21, (47, 71), 0, 223) is INF and order((15, 86), 0, 223) == 7
    # 2-torsion: (5, 0) on y^2 = x^3 + 7 over F_11 doubles to infinity
    assert (5, 0) in points(11, 0, 7) and add((5, 0), (5, 0), 0, 11) is INF
    return True
