"""Reference model for C15: SLIP-0039 Shamir backup, written from the specification text
(satoshilabs/slips slip-0039.md).  Never imports the library under test.

Independent of the library by construction where the two could otherwise share a typo:
  * GF(256) arithmetic is shift-and-xor multiplication modulo x^8+x^4+x^3+x+1 (no exp/log
    tables); inverses are found by exhaustive search and checked;
  * the RS1024 generator constants are *derived* from the definition (Reed-Solomon code over
    GF(1024) = GF(2)[x]/(x^10+x^3+1), generator polynomial (x-a)(x-a^2)(x-a^3), a = x), and
    checksum verification is additionally implemented as syndrome evaluation (no constants);
  * PBKDF2 is hashlib.pbkdf2_hmac.
Both levels of the scheme (groups and members) are implemented so that the official test
vectors can be replayed; the library under test only *produces* one level (k-of-n expressed
as n groups of a single 1-of-1 member, group threshold k), see `generate_flat`.

The 1024 words are data read from <repo>/buidl/slip39_words.txt with a pinned fingerprint and
the structural invariants the specification states (1024 words, sorted, 4..8 letters, unique
four-letter prefixes).
"""
import hashlib
import hmac
import os

SLIP39_WORDLIST_SHA256 = "bcc4555340332d169718aed8bf31dd9d5248cb7da6e5d355140ef4f1e601eec3"

RADIX_BITS = 10
ID_BITS = 15
CHECKSUM_WORDS = 3
METADATA_WORDS = 4 + CHECKSUM_WORDS
MIN_WORDS = 20  # 128-bit value: ceil(128/10) = 13 value words + 7
DIGEST_LEN = 4
DIGEST_INDEX = 254
SECRET_INDEX = 255
BASE_ITERATIONS = 10000
ROUNDS = 4
CS_PLAIN = b"shamir"
CS_EXTENDABLE = b"shamir_extendable"


class Slip39Error(Exception):
    """reason is a stable class name: unknown-word, too-short, bad-length, checksum,
    group-threshold>count, padding, empty, mixed-id, mixed-exponent, mixed-group-params,
    mixed-length, mixed-member-threshold, duplicate-index, too-few, digest"""

    def __init__(self, reason, detail=""):
        Exception.__init__(self, reason + (": " + detail if detail else ""))
        self.reason = reason


class WordlistMismatch(Exception):
    pass


# ---- word list --------------------------------------------------------------------------------
def repo_root():
    return os.environ.get("VERIF_REPO_ROOT") or "/repo"


def wordlist_path():
    return os.path.join(repo_root(), "buidl", "slip39_words.txt")


def load_words(path=None):
    path = path or wordlist_path()
    with open(path, "rb") as f:
        raw = f.read()
    got = hashlib.sha256(raw).hexdigest()
    if got != SLIP39_WORDLIST_SHA256:
        raise WordlistMismatch("sha256(%s) = %s, pinned %s" % (path, got, SLIP39_WORDLIST_SHA256))
    words = raw.decode("ascii").split("\n")
    if words[-1] == "":
        words.pop()
    if len(words) != 1024 or len(set(words)) != 1024:
        raise WordlistMismatch("expected 1024 distinct words")
    if words != sorted(words):
        raise WordlistMismatch("not sorted")
    if not all(w.isascii() and w.isalpha() and w == w.lower() and 4 <= len(w) <= 8 for w in words):
        raise WordlistMismatch("words must be 4..8 lower-case letters")
    if len({w[:4] for w in words}) != 1024:
        raise WordlistMismatch("four-letter prefixes are not unique")
    return words


_CACHE = {}


def words():
    if "w" not in _CACHE:
        w = load_words()
        _CACHE["w"] = w
        _CACHE["index"] = {x: i for i, x in enumerate(w)}
        _CACHE["prefix"] = {x[:4]: i for i, x in enumerate(w)}
    return _CACHE["w"]


def resolve(token):
    """full word, or the (unique) first four letters of a word"""
    words()
    i = _CACHE["index"].get(token)
    if i is None and isinstance(token, str) and len(token) == 4:
        i = _CACHE["prefix"].get(token)
    return i


# ---- GF(256), Rijndael polynomial, shift-and-xor ---------------------------------------------
def gf_mul(a, b):
    r = 0
    while b:
        if b & 1:
            r ^= a
        a <<= 1
        if a & 0x100:
            a ^= 0x11B
        b >>= 1
    return r


def gf_inv(a):
    if a == 0:
        raise ZeroDivisionError("0 has no inverse in GF(256)")
    t = _tables()
    return t["inv"][a]


def _tables():
    """Full multiplication table built with gf_mul (so that vector*scalar is a table look-up);
    inverses found by search in that table."""
    if "mul" not in _CACHE:
        mul = [bytes(gf_mul(a, b) for b in range(256)) for a in range(256)]
        inv = [0] * 256
        for a in range(1, 256):
            cand = [b for b in range(1, 256) if mul[a][b] == 1]
            assert len(cand) == 1
            inv[a] = cand[0]
        _CACHE["mul"] = mul
        _CACHE["inv"] = inv
    return {"mul": _CACHE["mul"], "inv": _CACHE["inv"]}


def interpolate(x, points):
    """Value at x of the unique polynomial of degree < len(points) through `points`
    ([(x_i, bytes)], x_i pairwise distinct), byte-wise over GF(256) - Lagrange's formula."""
    xs = [p[0] for p in points]
    if len(set(xs)) != len(xs):
        raise Slip39Error("duplicate-index", "interpolation nodes must be distinct")
    lens = {len(p[1]) for p in points}
    if len(lens) != 1:
        raise Slip39Error("mixed-length")
    for xi, yi in points:
        if xi == x:
            return bytes(yi)
    t = _tables()
    mul, inv = t["mul"], t["inv"]
    n = lens.pop()
    acc = 0
    for xi, yi in points:
        num, den = 1, 1
        for xj in xs:
            if xj != xi:
                num = mul[num][x ^ xj]
                den = mul[den][xi ^ xj]
        c = mul[num][inv[den]]
        acc ^= int.from_bytes(bytes(yi).translate(mul[c]), "big")
    return acc.to_bytes(n, "big")


# ---- RS1024 ------------------------------------------------------------------------------------
def gf1024_mul(a, b):
    r = 0
    while b:
        if b & 1:
            r ^= a
        a <<= 1
        if a & 0x400:
            a ^= 0x409  # x^10 + x^3 + 1
        b >>= 1
    return r


def _rs1024_gen():
    if "gen" not in _CACHE:
        a1, a2, a3 = 2, gf1024_mul(2, 2), gf1024_mul(gf1024_mul(2, 2), 2)
        # (x+a1)(x+a2)(x+a3) = x^3 + g2 x^2 + g1 x + g0
        g2 = a1 ^ a2 ^ a3
        g1 = gf1024_mul(a1, a2) ^ gf1024_mul(a1, a3) ^ gf1024_mul(a2, a3)
        g0 = gf1024_mul(gf1024_mul(a1, a2), a3)
        gen = []
        for i in range(10):
            m = 1 << i
            gen.append((gf1024_mul(g2, m) << 20) | (gf1024_mul(g1, m) << 10) | gf1024_mul(g0, m))
        _CACHE["gen"] = gen
    return _CACHE["gen"]


def rs1024_polymod(values):
    gen = _rs1024_gen()
    chk = 1
    for v in values:
        b = chk >> 20
        chk = ((chk & 0xFFFFF) << 10) ^ v
        for i in range(10):
            if (b >> i) & 1:
                chk ^= gen[i]
    return chk


def rs1024_create_checksum(cs, data):
    values = list(cs) + list(data) + [0] * CHECKSUM_WORDS
    polymod = rs1024_polymod(values) ^ 1
    return [(polymod >> (10 * i)) & 1023 for i in reversed(range(CHECKSUM_WORDS))]


def rs1024_verify_checksum(cs, data):
    return rs1024_polymod(list(cs) + list(data)) == 1


def rs1024_verify_syndromes(cs, data):
    """Same predicate without the generator constants: the word x^L + sum v_i x^(L-1-i) + 1
    must vanish at a, a^2, a^3 (a = x in GF(1024))."""
    values = [1] + list(cs) + list(data)
    for k in (1, 2, 3):
        root = 1
        for _ in range(k):
            root = gf1024_mul(root, 2)
        acc = 0
        for v in values:  # Horner
            acc = gf1024_mul(acc, root) ^ v
        if acc ^ 1:
            return False
    return True


# ---- share text <-> fields -----------------------------------------------------------------------
FIELDS = ("id", "ext", "exponent", "group_index", "group_threshold", "group_count", "member_index", "member_threshold", "value")


def customization(ext):
    return CS_EXTENDABLE if ext else CS_PLAIN


def encode_share(id, ext, exponent, group_index, group_threshold, group_count, member_index, member_threshold, value):
    """-> list of word indices.  Thresholds/counts are the real values (1..16)."""
    assert 0 <= id < (1 << ID_BITS) and ext in (0, 1) and 0 <= exponent < 16
    for v in (group_index, member_index, group_threshold - 1, group_count - 1, member_threshold - 1):
        assert 0 <= v < 16
    value = bytes(value)
    nwords = (8 * len(value) + RADIX_BITS - 1) // RADIX_BITS
    header = id
    header = (header << 1) | ext
    header = (header << 4) | exponent
    header = (header << 4) | group_index
    header = (header << 4) | (group_threshold - 1)
    header = (header << 4) | (group_count - 1)
    header = (header << 4) | member_index
    header = (header << 4) | (member_threshold - 1)
    data = [(header >> (10 * i)) & 1023 for i in reversed(range(4))]
    v = int.from_bytes(value, "big")
    data += [(v >> (10 * i)) & 1023 for i in reversed(range(nwords))]
    return data + rs1024_create_checksum(customization(ext), data)


def share_text(*a, **kw):
    w = words()
    return " ".join(w[i] for i in encode_share(*a, **kw))


def decode_indices(idx):
    if len(idx) < MIN_WORDS:
        raise Slip39Error("too-short", "%d words" % len(idx))
    padding = (RADIX_BITS * (len(idx) - METADATA_WORDS)) % 16
    if padding > 8:
        raise Slip39Error("bad-length", "%d words" % len(idx))
    header = 0
    for i in idx[:4]:
        header = (header << 10) | i
    member_threshold = (header & 15) + 1
    member_index = (header >> 4) & 15
    group_count = ((header >> 8) & 15) + 1
    group_threshold = ((header >> 12) & 15) + 1
    group_index = (header >> 16) & 15
    exponent = (header >> 20) & 15
    ext = (header >> 24) & 1
    ident = header >> 25
    if not rs1024_verify_checksum(customization(ext), idx):
        raise Slip39Error("checksum")
    if group_threshold > group_count:
        raise Slip39Error("group-threshold>count")
    v = 0
    for i in idx[4:-CHECKSUM_WORDS]:
        v = (v << 10) | i
    nbytes = (RADIX_BITS * (len(idx) - METADATA_WORDS) - padding) // 8
    if v >> (8 * nbytes):
        raise Slip39Error("padding")
    return {
        "id": ident,
        "ext": ext,
        "exponent": exponent,
        "group_index": group_index,
        "group_threshold": group_threshold,
        "group_count": group_count,
        "member_index": member_index,
        "member_threshold": member_threshold,
        "value": v.to_bytes(nbytes, "big"),
    }


def decode_share(text):
    tokens = text.split() if isinstance(text, str) else list(text)
    idx = [resolve(t) for t in tokens]
    if any(i is None for i in idx):
        raise Slip39Error("unknown-word")
    return decode_indices(idx)


def ext_bit_of(text):
    """ext bit of a share text (None when the second word is unknown/absent)."""
    tokens = text.split()
    if len(tokens) < 2:
        return None
    i = resolve(tokens[1])
    return None if i is None else (i >> 4) & 1


# ---- passphrase encryption (4-round Feistel) ---------------------------------------------------
def _salt(ident, ext):
    return b"" if ext else CS_PLAIN + ident.to_bytes(2, "big")


def _round(i, passphrase, exponent, salt, r):
    return hashlib.pbkdf2_hmac("sha256", bytes([i]) + passphrase, salt + r, (BASE_ITERATIONS << exponent) // ROUNDS, dklen=len(r))


def _xor(a, b):
    return bytes(x ^ y for x, y in zip(a, b))


def encrypt(master_secret, passphrase, exponent, ident, ext=0):
    if len(master_secret) % 2:
        raise ValueError("master secret must have an even number of bytes")
    h = len(master_secret) // 2
    l, r = master_secret[:h], master_secret[h:]
    salt = _salt(ident, ext)
    for i in range(ROUNDS):
        l, r = r, _xor(l, _round(i, passphrase, exponent, salt, r))
    return r + l


def decrypt(ems, passphrase, exponent, ident, ext=0):
    if len(ems) % 2:
        raise ValueError("encrypted master secret must have an even number of bytes")
    h = len(ems) // 2
    l, r = ems[:h], ems[h:]
    salt = _salt(ident, ext)
    for i in reversed(range(ROUNDS)):
        l, r = r, _xor(l, _round(i, passphrase, exponent, salt, r))
    return r + l


# ---- secret sharing ---------------------------------------------------------------------------------
def digest(random_part, secret):
    return hmac.new(random_part, secret, hashlib.sha256).digest()[:DIGEST_LEN]


def _rand_bytes(rng, n):
    return bytes(rng.getrandbits(8) for _ in range(n))


def split_secret(threshold, count, secret, rng):
    if not (1 <= threshold <= count <= 16):
        raise ValueError("need 1 <= threshold <= count <= 16")
    secret = bytes(secret)
    if threshold == 1:
        return [(i, secret) for i in range(count)]
    shares = [(i, _rand_bytes(rng, len(secret))) for i in range(threshold - 2)]
    random_part = _rand_bytes(rng, len(secret) - DIGEST_LEN)
    base = shares + [(DIGEST_INDEX, digest(random_part, secret) + random_part), (SECRET_INDEX, secret)]
    for i in range(threshold - 2, count):
        shares.append((i, interpolate(i, base)))
    return shares


def recover_secret(threshold, shares):
    """shares: [(x, bytes)] with distinct x, at least `threshold` of them (all are used)."""
    if len(shares) < threshold or not shares:
        raise Slip39Error("too-few", "%d < %d" % (len(shares), threshold))
    if threshold == 1:
        return bytes(shares[0][1])
    secret = interpolate(SECRET_INDEX, shares)
    ds = interpolate(DIGEST_INDEX, shares)
    if ds[:DIGEST_LEN] != digest(ds[DIGEST_LEN:], secret):
        raise Slip39Error("digest")
    return secret


def generate_flat(master_secret, k, n, passphrase, exponent, ident, rng):
    """The layout the library produces for 'k of n': n groups, group threshold k, each group a
    single 1-of-1 member.  Returns the n share texts (also for k = 1: the specification gives
    every group the encrypted secret itself)."""
    ems = encrypt(master_secret, passphrase, exponent, ident)
    return [share_text(ident, 0, exponent, x, k, n, 0, 1, y) for x, y in split_secret(k, n, ems, rng)]


def generate(master_secret, group_threshold, groups, passphrase, exponent, ident, rng, ext=0):
    """General two-level scheme: groups = [(member_threshold, member_count), ...]."""
    ems = encrypt(master_secret, passphrase, exponent, ident, ext)
    out = []
    for gi, gy in split_secret(group_threshold, len(groups), ems, rng):
        t, c = groups[gi]
        out.append([share_text(ident, ext, exponent, gi, group_threshold, len(groups), mi, t, my) for mi, my in split_secret(t, c, gy, rng)])
    return out


def recover_ems(texts):
    """-> (encrypted master secret, parameters of the set).  Raises Slip39Error(reason)."""
    if not texts:
        raise Slip39Error("empty")
    shares = [decode_share(t) for t in texts]
    first = shares[0]
    if len({(s["id"], s["ext"]) for s in shares}) != 1:
        raise Slip39Error("mixed-id")
    if len({s["exponent"] for s in shares}) != 1:
        raise Slip39Error("mixed-exponent")
    if len({(s["group_threshold"], s["group_count"]) for s in shares}) != 1:
        raise Slip39Error("mixed-group-params")
    if len({len(s["value"]) for s in shares}) != 1:
        raise Slip39Error("mixed-length")
    if len({(s["group_index"], s["member_index"]) for s in shares}) != len(shares):
        raise Slip39Error("duplicate-index")
    groups = {}
    for s in shares:
        groups.setdefault(s["group_index"], []).append(s)
    group_shares = []
    for gi in sorted(groups):
        g = groups[gi]
        if len({s["member_threshold"] for s in g}) != 1:
            raise Slip39Error("mixed-member-threshold")
        group_shares.append((gi, recover_secret(g[0]["member_threshold"], [(s["member_index"], s["value"]) for s in g])))
    ems = recover_secret(first["group_threshold"], group_shares)
    return ems, first


def recover(texts, passphrase=b""):
    ems, p = recover_ems(texts)
    return decrypt(ems, passphrase, p["exponent"], p["id"], p["ext"])


# ---- published vectors (satoshilabs/slips slip-0039/vectors.json, passphrase "TREZOR") ---------------
# (description, mnemonics, master secret hex or '' when the set must be rejected)
OFFICIAL_VECTORS = [
    (
        '1. Valid mnemonic without sharing (128 bits)',
        [
            'duckling enlarge academic academic agency result length solution fridge kidney coal piece deal husband erode duke ajar critical decision keyboard',
        ],
        'bb54aac4b89dc868ba37d9cc21b2cece',
    ),
    (
        '2. Mnemonic with invalid checksum (128 bits)',
        [
            'duckling enlarge academic academic agency result length solution fridge kidney coal piece deal husband erode duke ajar critical decision kidney',
        ],
        '',
    ),
    (
        '3. Mnemonic with invalid padding (128 bits)',
        [
            'duckling enlarge academic academic email result length solution fridge kidney coal piece deal husband erode duke ajar music cargo fitness',
        ],
        '',
    ),
    (
        '4. Basic sharing 2-of-3 (128 bits)',
        [
            'shadow pistol academic always adequate wildlife fancy gross oasis cylinder mustang wrist rescue view short owner flip making coding armed',
            'shadow pistol academic acid actress prayer class unknown daughter sweater depict flip twice unkind craft early superior advocate guest smoking',
        ],
        'b43ceb7e57a0ea8766221624d01b0864',
    ),
    (
        '5. Basic sharing 2-of-3 (128 bits)',
        [
            'shadow pistol academic always adequate wildlife fancy gross oasis cylinder mustang wrist rescue view short owner flip making coding armed',
        ],
        '',
    ),
    (
        '6. Mnemonics with different identifiers (128 bits)',
        [
            'adequate smoking academic acid debut wine petition glen cluster slow rhyme slow simple epidemic rumor junk tracks treat olympic tolerate',
            'adequate stay academic agency agency formal party ting frequent learn upstairs remember smear leaf damage anatomy ladle market hush corner',
        ],
        '',
    ),
    (
        '7. Mnemonics with different iteration exponents (128 bits)',
        [
            'peasant leaves academic acid desert exact olympic math alive axle trial tackle drug deny decent smear dominant desert bucket remind',
            'peasant leader academic agency cultural blessing percent network envelope medal junk primary human pumps jacket fragment payroll ticket evoke voice',
        ],
        '',
    ),
    (
        '8. Mnemonics with mismatching group thresholds (128 bits)',
        [
            'liberty category beard echo animal fawn temple briefing math username various wolf aviation fancy visual holy thunder yelp helpful payment',
            'liberty category beard email beyond should fancy romp founder easel pink holy hairy romp loyalty material victim owner toxic custody',
            'liberty category academic easy being hazard crush diminish oral lizard reaction cluster force dilemma deploy force club veteran expect photo',
        ],
        '',
    ),
    (
        '9. Mnemonics with mismatching group counts (128 bits)',
        [
            'average senior academic leaf broken teacher expect surface hour capture obesity desire negative dynamic dominant pistol mineral mailman iris aide',
            'average senior academic agency curious pants blimp spew clothes slice script dress wrap firm shaft regular slavery negative theater roster',
        ],
        '',
    ),
    (
        '10. Mnemonics with greater group threshold than group counts (128 bits)',
        [
            'music husband acrobat acid artist finance center either graduate swimming object bike medical clothes station aspect spider maiden bulb welcome',
            'music husband acrobat agency advance hunting bike corner density careful material civil evil tactics remind hawk discuss hobo voice rainbow',
            'music husband beard academic black tricycle clock mayor estimate level photo episode exclude ecology papa source amazing salt verify divorce',
        ],
        '',
    ),
    (
        '11. Mnemonics with duplicate member indices (128 bits)',
        [
            'device stay academic always dive coal antenna adult black exceed stadium herald advance soldier busy dryer daughter evaluate minister laser',
            'device stay academic always dwarf afraid robin gravity crunch adjust soul branch walnut coastal dream costume scholar mortgage mountain pumps',
        ],
        '',
    ),
    (
        '12. Mnemonics with mismatching member thresholds (128 bits)',
        [
            'hour painting academic academic device formal evoke guitar random modern justice filter withdraw trouble identify mailman insect general cover oven',
            'hour painting academic agency artist again daisy capital beaver fiber much enjoy suitable symbolic identify photo editor romp float echo',
        ],
        '',
    ),
    (
        '13. Mnemonics giving an invalid digest (128 bits)',
        [
            'guilt walnut academic acid deliver remove equip listen vampire tactics nylon rhythm failure husband fatigue alive blind enemy teaspoon rebound',
            'guilt walnut academic agency brave hamster hobo declare herd taste alpha slim criminal mild arcade formal romp branch pink ambition',
        ],
        '',
    ),
    (
        '14. Insufficient number of groups (128 bits, case 1)',
        [
            'eraser senior beard romp adorn nuclear spill corner cradle style ancient family general leader ambition exchange unusual garlic promise voice',
        ],
        '',
    ),
    (
        '15. Insufficient number of groups (128 bits, case 2)',
        [
            'eraser senior decision scared cargo theory device idea deliver modify curly include pancake both news skin realize vitamins away join',
            'eraser senior decision roster beard treat identify grumpy salt index fake aviation theater cubic bike cause research dragon emphasis counter',
        ],
        '',
    ),
    (
        '16. Threshold number of groups, but insufficient number of members in one group (128 bits)',
        [
            'eraser senior decision shadow artist work morning estate greatest pipeline plan ting petition forget hormone flexible general goat admit surface',
            'eraser senior beard romp adorn nuclear spill corner cradle style ancient family general leader ambition exchange unusual garlic promise voice',
        ],
        '',
    ),
    (
        '17. Threshold number of groups and members in each group (128 bits, case 1)',
        [
            'eraser senior decision roster beard treat identify grumpy salt index fake aviation theater cubic bike cause research dragon emphasis counter',
            'eraser senior ceramic snake clay various huge numb argue hesitate auction category timber browser greatest hanger petition script leaf pickup',
            'eraser senior ceramic shaft dynamic become junior wrist silver peasant force math alto coal amazing segment yelp velvet image paces',
            'eraser senior ceramic round column hawk trust auction smug shame alive greatest sheriff living perfect corner chest sled fumes adequate',
            'eraser senior decision smug corner ruin rescue cubic angel tackle skin skunk program roster trash rumor slush angel flea amazing',
        ],
        '7c3397a292a5941682d7a4ae2d898d11',
    ),
    (
        '18. Threshold number of groups and members in each group (128 bits, case 2)',
        [
            'eraser senior decision smug corner ruin rescue cubic angel tackle skin skunk program roster trash rumor slush angel flea amazing',
            'eraser senior beard romp adorn nuclear spill corner cradle style ancient family general leader ambition exchange unusual garlic promise voice',
            'eraser senior decision scared cargo theory device idea deliver modify curly include pancake both news skin realize vitamins away join',
        ],
        '7c3397a292a5941682d7a4ae2d898d11',
    ),
    (
        '19. Threshold number of groups and members in each group (128 bits, case 3)',
        [
            'eraser senior beard romp adorn nuclear spill corner cradle style ancient family general leader ambition exchange unusual garlic promise voice',
            'eraser senior acrobat romp bishop medical gesture pumps secret alive ultimate quarter priest subject class dictate spew material endless market',
        ],
        '7c3397a292a5941682d7a4ae2d898d11',
    ),
    (
        '20. Valid mnemonic without sharing (256 bits)',
        [
            'theory painting academic academic armed sweater year military elder discuss acne wildlife boring employer fused large satoshi bundle carbon diagnose anatomy hamster leaves tracks paces beyond phantom capital marvel lips brave detect luck',
        ],
        '989baf9dcaad5b10ca33dfd8cc75e42477025dce88ae83e75a230086a0e00e92',
    ),
    (
        '21. Mnemonic with invalid checksum (256 bits)',
        [
            'theory painting academic academic armed sweater year military elder discuss acne wildlife boring employer fused large satoshi bundle carbon diagnose anatomy hamster leaves tracks paces beyond phantom capital marvel lips brave detect lunar',
        ],
        '',
    ),
    (
        '22. Mnemonic with invalid padding (256 bits)',
        [
            'theory painting academic academic campus sweater year military elder discuss acne wildlife boring employer fused large satoshi bundle carbon diagnose anatomy hamster leaves tracks paces beyond phantom capital marvel lips facility obtain sister',
        ],
        '',
    ),
    (
        '23. Basic sharing 2-of-3 (256 bits)',
        [
            'humidity disease academic always aluminum jewelry energy woman receiver strategy amuse duckling lying evidence network walnut tactics forget hairy rebound impulse brother survive clothes stadium mailman rival ocean reward venture always armed unwrap',
            'humidity disease academic agency actress jacket gross physics cylinder solution fake mortgage benefit public busy prepare sharp friar change work slow purchase ruler again tricycle involve viral wireless mixture anatomy desert cargo upgrade',
        ],
        'c938b319067687e990e05e0da0ecce1278f75ff58d9853f19dcaeed5de104aae',
    ),
    (
        '24. Basic sharing 2-of-3 (256 bits)',
        [
            'humidity disease academic always aluminum jewelry energy woman receiver strategy amuse duckling lying evidence network walnut tactics forget hairy rebound impulse brother survive clothes stadium mailman rival ocean reward venture always armed unwrap',
        ],
        '',
    ),
    (
        '25. Mnemonics with different identifiers (256 bits)',
        [
            'smear husband academic acid deadline scene venture distance dive overall parking bracelet elevator justice echo burning oven chest duke nylon',
            'smear isolate academic agency alpha mandate decorate burden recover guard exercise fatal force syndrome fumes thank guest drift dramatic mule',
        ],
        '',
    ),
    (
        '26. Mnemonics with different iteration exponents (256 bits)',
        [
            'finger trash academic acid average priority dish revenue academic hospital spirit western ocean fact calcium syndrome greatest plan losing dictate',
            'finger traffic academic agency building lilac deny paces subject threaten diploma eclipse window unknown health slim piece dragon focus smirk',
        ],
        '',
    ),
    (
        '27. Mnemonics with mismatching group thresholds (256 bits)',
        [
            'flavor pink beard echo depart forbid retreat become frost helpful juice unwrap reunion credit math burning spine black capital lair',
            'flavor pink beard email diet teaspoon freshman identify document rebound cricket prune headset loyalty smell emission skin often square rebound',
            'flavor pink academic easy credit cage raisin crazy closet lobe mobile become drink human tactics valuable hand capture sympathy finger',
        ],
        '',
    ),
    (
        '28. Mnemonics with mismatching group counts (256 bits)',
        [
            'column flea academic leaf debut extra surface slow timber husky lawsuit game behavior husky swimming already paper episode tricycle scroll',
            'column flea academic agency blessing garbage party software stadium verify silent umbrella therapy decorate chemical erode dramatic eclipse replace apart',
        ],
        '',
    ),
    (
        '29. Mnemonics with greater group threshold than group counts (256 bits)',
        [
            'smirk pink acrobat acid auction wireless impulse spine sprinkle fortune clogs elbow guest hush loyalty crush dictate tracks airport talent',
            'smirk pink acrobat agency dwarf emperor ajar organize legs slice harvest plastic dynamic style mobile float bulb health coding credit',
            'smirk pink beard academic alto strategy carve shame language rapids ruin smart location spray training acquire eraser endorse submit peaceful',
        ],
        '',
    ),
    (
        '30. Mnemonics with duplicate member indices (256 bits)',
        [
            'fishing recover academic always device craft trend snapshot gums skin downtown watch device sniff hour clock public maximum garlic born',
            'fishing recover academic always aircraft view software cradle fangs amazing package plastic evaluate intend penalty epidemic anatomy quarter cage apart',
        ],
        '',
    ),
    (
        '31. Mnemonics with mismatching member thresholds (256 bits)',
        [
            'evoke garden academic academic answer wolf scandal modern warmth station devote emerald market physics surface formal amazing aquatic gesture medical',
            'evoke garden academic agency deal revenue knit reunion decrease magazine flexible company goat repair alarm military facility clogs aide mandate',
        ],
        '',
    ),
    (
        '32. Mnemonics giving an invalid digest (256 bits)',
        [
            'river deal academic acid average forbid pistol peanut custody bike class aunt hairy merit valid flexible learn ajar very easel',
            'river deal academic agency camera amuse lungs numb isolate display smear piece traffic worthy year patrol crush fact fancy emission',
        ],
        '',
    ),
    (
        '33. Insufficient number of groups (256 bits, case 1)',
        [
            'wildlife deal beard romp alcohol space mild usual clothes union nuclear testify course research heat listen task location thank hospital slice smell failure fawn helpful priest ambition average recover lecture process dough stadium',
        ],
        '',
    ),
    (
        '34. Insufficient number of groups (256 bits, case 2)',
        [
            'wildlife deal decision scared acne fatal snake paces obtain election dryer dominant romp tactics railroad marvel trust helpful flip peanut theory theater photo luck install entrance taxi step oven network dictate intimate listen',
            'wildlife deal decision smug ancestor genuine move huge cubic strategy smell game costume extend swimming false desire fake traffic vegan senior twice timber submit leader payroll fraction apart exact forward pulse tidy install',
        ],
        '',
    ),
    (
        '35. Threshold number of groups, but insufficient number of members in one group (256 bits)',
        [
            'wildlife deal decision shadow analysis adjust bulb skunk muscle mandate obesity total guitar coal gravity carve slim jacket ruin rebuild ancestor numerous hour mortgage require herd maiden public ceiling pecan pickup shadow club',
            'wildlife deal beard romp alcohol space mild usual clothes union nuclear testify course research heat listen task location thank hospital slice smell failure fawn helpful priest ambition average recover lecture process dough stadium',
        ],
        '',
    ),
    (
        '36. Threshold number of groups and members in each group (256 bits, case 1)',
        [
            'wildlife deal ceramic round aluminum pitch goat racism employer miracle percent math decision episode dramatic editor lily prospect program scene rebuild display sympathy have single mustang junction relate often chemical society wits estate',
            'wildlife deal decision scared acne fatal snake paces obtain election dryer dominant romp tactics railroad marvel trust helpful flip peanut theory theater photo luck install entrance taxi step oven network dictate intimate listen',
            'wildlife deal ceramic scatter argue equip vampire together ruin reject literary rival distance aquatic agency teammate rebound false argue miracle stay again blessing peaceful unknown cover beard acid island language debris industry idle',
            'wildlife deal ceramic snake agree voter main lecture axis kitchen physics arcade velvet spine idea scroll promise platform firm sharp patrol divorce ancestor fantasy forbid goat ajar believe swimming cowboy symbolic plastic spelling',
            'wildlife deal decision shadow analysis adjust bulb skunk muscle mandate obesity total guitar coal gravity carve slim jacket ruin rebuild ancestor numerous hour mortgage require herd maiden public ceiling pecan pickup shadow club',
        ],
        '5385577c8cfc6c1a8aa0f7f10ecde0a3318493262591e78b8c14c6686167123b',
    ),
    (
        '37. Threshold number of groups and members in each group (256 bits, case 2)',
        [
            'wildlife deal decision scared acne fatal snake paces obtain election dryer dominant romp tactics railroad marvel trust helpful flip peanut theory theater photo luck install entrance taxi step oven network dictate intimate listen',
            'wildlife deal beard romp alcohol space mild usual clothes union nuclear testify course research heat listen task location thank hospital slice smell failure fawn helpful priest ambition average recover lecture process dough stadium',
            'wildlife deal decision smug ancestor genuine move huge cubic strategy smell game costume extend swimming false desire fake traffic vegan senior twice timber submit leader payroll fraction apart exact forward pulse tidy install',
        ],
        '5385577c8cfc6c1a8aa0f7f10ecde0a3318493262591e78b8c14c6686167123b',
    ),
    (
        '38. Threshold number of groups and members in each group (256 bits, case 3)',
        [
            'wildlife deal beard romp alcohol space mild usual clothes union nuclear testify course research heat listen task location thank hospital slice smell failure fawn helpful priest ambition average recover lecture process dough stadium',
            'wildlife deal acrobat romp anxiety axis starting require metric flexible geology game drove editor edge screw helpful have huge holy making pitch unknown carve holiday numb glasses survive already tenant adapt goat fangs',
        ],
        '5385577c8cfc6c1a8aa0f7f10ecde0a3318493262591e78b8c14c6686167123b',
    ),
    (
        '39. Mnemonic with insufficient length',
        [
            'junk necklace academic academic acne isolate join hesitate lunar roster dough calcium chemical ladybug amount mobile glasses verify cylinder',
        ],
        '',
    ),
    (
        '40. Mnemonic with invalid master secret length',
        [
            'fraction necklace academic academic award teammate mouse regular testify coding building member verdict purchase blind camera duration email prepare spirit quarter',
        ],
        '',
    ),
]


_CHECKED = []


def selfcheck():
    """Asserts the official vectors and the internal cross-checks; cached per process."""
    if _CHECKED:
        return True
    import random

    w = words()
    assert w[0] == "academic" and w[1023] == "zero" and resolve("acad") == 0 and resolve("aca") is None
    # field sanity: shift-and-xor product is commutative, distributive, has the AES example
    assert gf_mul(0x57, 0x83) == 0xC1 and gf_mul(0x57, 0x13) == 0xFE  # FIPS-197 section 4.2
    t = _tables()
    for a in range(1, 256):
        assert t["mul"][a][t["inv"][a]] == 1 and t["mul"][a][1] == a and t["mul"][a][0] == 0
    # RS1024 constants derived from the definition equal the ones printed in the specification
    assert _rs1024_gen() == [0xE0E040, 0x1C1C080, 0x3838100, 0x7070200, 0xE0E0009, 0x1C0C2412, 0x38086C24, 0x3090FC48, 0x21B1F890, 0x3F3F120]
    rng = random.Random(39)
    for _ in range(200):
        data = [rng.randrange(1024) for _ in range(rng.choice((17, 30)))]
        full = data + rs1024_create_checksum(CS_PLAIN, data)
        assert rs1024_verify_checksum(CS_PLAIN, full) and rs1024_verify_syndromes(CS_PLAIN, full)
        bad = list(full)
        for p in rng.sample(range(len(bad)), rng.choice((1, 2, 3))):
            bad[p] ^= rng.randrange(1, 1024)
        assert not rs1024_verify_checksum(CS_PLAIN, bad) and not rs1024_verify_syndromes(CS_PLAIN, bad)
    ok = bad_sets = 0
    for desc, mnemonics, ms_hex in OFFICIAL_VECTORS:
        if ms_hex:
            assert recover(mnemonics, b"TREZOR").hex() == ms_hex, desc
            for m in mnemonics:
                f = decode_share(m)
                assert share_text(**f) == m, desc  # encoding is the inverse of decoding
                assert rs1024_verify_syndromes(CS_PLAIN, [resolve(x) for x in m.split()])
            ok += 1
        else:
            try:
                recover(mnemonics, b"TREZOR")
            except Slip39Error:
                bad_sets += 1
            else:
                raise AssertionError("accepted: " + desc)
    assert (ok, bad_sets) == (10, 30)
    # sharing identities
    for k, n, size in ((1, 1, 16), (1, 3, 16), (2, 3, 16), (3, 5, 32), (5, 5, 16), (16, 16, 32), (2, 16, 32), (9, 13, 16)):
        secret = _rand_bytes(rng, size)
        sh = split_secret(k, n, secret, rng)
        assert len(sh) == n
        for _ in range(4):
            sub = rng.sample(sh, rng.randrange(k, n + 1))
            assert recover_secret(k, sub) == secret
        if k > 1:
            sub = rng.sample(sh, k - 1)
            try:
                recover_secret(k, sub)
                raise AssertionError("k-1 shares accepted")
            except Slip39Error as e:
                assert e.reason == "too-few"
            if k > 2:  # k-1 shares interpolated as if complete fail the digest
                try:
                    recover_secret(k - 1, sub)
                    raise AssertionError("digest passed on k-1 shares")
                except Slip39Error as e:
                    assert e.reason == "digest"
        for x, y in sh:
            assert interpolate(x, sh[:k] if (x, y) in sh[:k] else sh[: k - 1] + [(x, y)]) == y
    for e in (0, 1, 2):
        for size in (16, 32):
            ms = _rand_bytes(rng, size)
            ems = encrypt(ms, b"pw", e, 12345)
            assert ems != ms and decrypt(ems, b"pw", e, 12345) == ms and decrypt(ems, b"pW", e, 12345) != ms
            texts = generate_flat(ms, 3, 5, b"pw", e, 777, rng)
            assert recover(texts[1:4], b"pw") == ms and len(texts[0].split()) == {16: 20, 32: 33}[size]
    grp = generate(b"\x11" * 16, 2, [(1, 1), (2, 3), (3, 5)], b"", 0, 5, rng, ext=1)
    assert recover([grp[1][0], grp[1][2]] + grp[2][1:4], b"") == b"\x11" * 16
    _CHECKED.append(True)
    return True
