"""Reference BIP32 (hierarchical deterministic keys) written from the BIP32 text, on top of
ref.ec.  Also: Base58Check (implemented locally), the SLIP-132 version table, path parsing.

Never imports buidl.  Keys: private keys are ints in [1, N-1], public keys are affine points
(x, y) as in ref.ec, chain codes / fingerprints are bytes.

API
    master(seed) -> (k, c)
    ckd_priv(k, c, i) -> (k_i, c_i)
    ckd_pub(K, c, i) -> (K_i, c_i)            raises ValueError for hardened i
    fingerprint(K) -> 4 bytes                 identifier(K) -> 20 bytes
    serialize_xprv(version4, depth, parent_fp, child_num, c, k) -> str
    serialize_xpub(version4, depth, parent_fp, child_num, c, K) -> str
    raw_xprv / raw_xpub (same arguments) -> 78 bytes
    parse_xkey(str) -> dict      parse_raw(78 bytes) -> dict
    parse_path(str) -> [index, ...]           path_str(indexes, marker="'", prefix="m") -> str
    derive_path_priv(k, c, path) -> (k, c)    derive_path_pub(K, c, path) -> (K, c)
    node_priv(k, c, path, depth=0, parent_fp=ZERO_FP, child_num=0) -> dict (full metadata)
    node_pub(K, c, path, depth=0, parent_fp=ZERO_FP, child_num=0) -> dict
"""
import hashlib
import hmac

from ref import ec

N = ec.N
HARDENED = 0x80000000
ZERO_FP = b"\x00\x00\x00\x00"

# SLIP-0132 registered HD version bytes (https://github.com/satoshilabs/slips/blob/master/slip-0132.md)
#   version hex: (kind, network, 4-character prefix of the Base58Check string)
VERSIONS = {
    "0488b21e": ("pub", "mainnet", "xpub"), "0488ade4": ("prv", "mainnet", "xprv"),
    "049d7cb2": ("pub", "mainnet", "ypub"), "049d7878": ("prv", "mainnet", "yprv"),
    "0295b43f": ("pub", "mainnet", "Ypub"), "0295b005": ("prv", "mainnet", "Yprv"),
    "04b24746": ("pub", "mainnet", "zpub"), "04b2430c": ("prv", "mainnet", "zprv"),
    "02aa7ed3": ("pub", "mainnet", "Zpub"), "02aa7a99": ("prv", "mainnet", "Zprv"),
    "043587cf": ("pub", "testnet", "tpub"), "04358394": ("prv", "testnet", "tprv"),
    "044a5262": ("pub", "testnet", "upub"), "044a4e28": ("prv", "testnet", "uprv"),
    "024289ef": ("pub", "testnet", "Upub"), "024285b5": ("prv", "testnet", "Uprv"),
    "045f1cf6": ("pub", "testnet", "vpub"), "045f18bc": ("prv", "testnet", "vprv"),
    "02575483": ("pub", "testnet", "Vpub"), "02575048": ("prv", "testnet", "Vprv"),
}
# BIP32 default versions per network name used by wallets (signet/regtest share testnet's)
DEFAULT_PRV = {"mainnet": "0488ade4", "testnet": "04358394", "signet": "04358394", "regtest": "04358394"}
DEFAULT_PUB = {"mainnet": "0488b21e", "testnet": "043587cf", "signet": "043587cf", "regtest": "043587cf"}


# ---- hashes ---------------------------------------------------------------------------------
def hash160(b):
    return hashlib.new("ripemd160", hashlib.sha256(b).digest()).digest()


def hash256(b):
    return hashlib.sha256(hashlib.sha256(b).digest()).digest()


# ---- Base58Check ----------------------------------------------------------------------------
B58 = "123456789ABCDEFGHJKLMNPQRSTUVWXYZabcdefghijkmnopqrstuvwxyz"
_B58_INDEX = {ch: i for i, ch in enumerate(B58)}


def b58encode(b):
    zeros = len(b) - len(b.lstrip(b"\x00"))
    num = int.from_bytes(b, "big")
    out = ""
    while num:
        num, r = divmod(num, 58)
        out = B58[r] + out
    return "1" * zeros + out


def b58decode(s):
    num = 0
    for ch in s:
        if ch not in _B58_INDEX:
            raise ValueError("not a base58 character: %r" % ch)
        num = num * 58 + _B58_INDEX[ch]
    zeros = len(s) - len(s.lstrip("1"))
    body = num.to_bytes((num.bit_length() + 7) // 8, "big")
    return b"\x00" * zeros + body


def b58check_encode(payload):
    return b58encode(payload + hash256(payload)[:4])


def b58check_decode(s):
    raw = b58decode(s)
    if len(raw) < 4 or hash256(raw[:-4])[:4] != raw[-4:]:
        raise ValueError("bad Base58Check checksum")
    return raw[:-4]


# ---- key derivation (BIP32 "Child key derivation (CKD) functions") --------------------------
def ser32(i):
    return i.to_bytes(4, "big")


def ser256(k):
    return k.to_bytes(32, "big")


def _hmac512(key, data):
    return hmac.new(key, data, hashlib.sha512).digest()


def master(seed):
    """Master key generation: I = HMAC-SHA512("Bitcoin seed", S)."""
    i = _hmac512(b"Bitcoin seed", bytes(seed))
    k = int.from_bytes(i[:32], "big")
    if k == 0 or k >= N:
        raise ValueError("invalid master key (IL = 0 or >= n)")
    return k, i[32:]


def ckd_priv(k, c, i):
    """CKDpriv((k_par, c_par), i) -> (k_i, c_i)"""
    if not 0 <= i < 2**32:
        raise ValueError("index out of range")
    if not 1 <= k < N:
        raise ValueError("parent key out of range")
    if i >= HARDENED:
        data = b"\x00" + ser256(k) + ser32(i)
    else:
        data = ec.sec(ec.mul(k)) + ser32(i)
    big_i = _hmac512(c, data)
    il = int.from_bytes(big_i[:32], "big")
    ki = (il + k) % N
    if il >= N or ki == 0:
        raise ValueError("invalid child (IL >= n or k_i = 0): proceed with the next index")
    return ki, big_i[32:]


def ckd_pub(point, c, i):
    """CKDpub((K_par, c_par), i) -> (K_i, c_i); only defined for non-hardened i."""
    if not 0 <= i < 2**32:
        raise ValueError("index out of range")
    if i >= HARDENED:
        raise ValueError("hardened child cannot be derived from a public key")
    if point is ec.INF or not ec.on_curve(point):
        raise ValueError("parent is not a public key")
    big_i = _hmac512(c, ec.sec(point) + ser32(i))
    il = int.from_bytes(big_i[:32], "big")
    ki = ec.add(ec.mul(il), point)
    if il >= N or ki is ec.INF:
        raise ValueError("invalid child (IL >= n or K_i = infinity): proceed with the next index")
    return ki, big_i[32:]


def identifier(point):
    return hash160(ec.sec(point))


def fingerprint(point):
    return identifier(point)[:4]


# ---- serialisation format -----------------------------------------------------------------
def _ver(version):
    v = bytes.fromhex(version) if isinstance(version, str) else bytes(version)
    if len(v) != 4:
        raise ValueError("version must be 4 bytes")
    return v


def _header(version, depth, parent_fp, child_num, c):
    if not 0 <= depth <= 255:
        raise ValueError("depth out of range")
    if len(parent_fp) != 4 or len(c) != 32:
        raise ValueError("bad fingerprint / chain code length")
    if not 0 <= child_num < 2**32:
        raise ValueError("child number out of range")
    return _ver(version) + bytes([depth]) + bytes(parent_fp) + ser32(child_num) + bytes(c)


def raw_xprv(version, depth, parent_fp, child_num, c, k):
    if not 1 <= k < N:
        raise ValueError("private key out of range")
    return _header(version, depth, parent_fp, child_num, c) + b"\x00" + ser256(k)


def raw_xpub(version, depth, parent_fp, child_num, c, point):
    if point is ec.INF or not ec.on_curve(point):
        raise ValueError("not a public key")
    return _header(version, depth, parent_fp, child_num, c) + ec.sec(point)


def serialize_xprv(version, depth, parent_fp, child_num, c, k):
    return b58check_encode(raw_xprv(version, depth, parent_fp, child_num, c, k))


def serialize_xpub(version, depth, parent_fp, child_num, c, point):
    return b58check_encode(raw_xpub(version, depth, parent_fp, child_num, c, point))


def parse_raw(raw):
    """78-byte structure -> dict.  Raises ValueError when the key data is not a valid key
    (BIP32: 'check whether the X coordinate in the public key data corresponds to a point on
    the curve'; private keys must be 0x00 || ser256(k) with 1 <= k < n)."""
    raw = bytes(raw)
    if len(raw) != 78:
        raise ValueError("extended key payload must be 78 bytes")
    version = raw[:4]
    out = {
        "version": version,
        "depth": raw[4],
        "parent_fp": raw[5:9],
        "child_num": int.from_bytes(raw[9:13], "big"),
        "chain_code": raw[13:45],
        "raw": raw,
    }
    kind, network, prefix = VERSIONS.get(version.hex(), (None, None, None))
    out["known_version"] = kind is not None
    out["network"] = network
    out["prefix"] = prefix
    kd = raw[45:78]
    if kd[0] == 0:
        k = int.from_bytes(kd[1:], "big")
        if not 1 <= k < N:
            raise ValueError("private key out of range")
        out["is_private"] = True
        out["key"] = k
        out["point"] = ec.mul(k)
    elif kd[0] in (2, 3):
        pt = ec.parse_sec(kd)
        if pt is None:
            raise ValueError("public key is not on the curve")
        out["is_private"] = False
        out["key"] = pt
        out["point"] = pt
    else:
        raise ValueError("bad key data prefix")
    if kind is not None and (kind == "prv") != out["is_private"]:
        raise ValueError("version bytes do not match the key type")
    if out["depth"] == 0 and (out["parent_fp"] != ZERO_FP or out["child_num"] != 0):
        out["inconsistent_root"] = True
    return out


def parse_xkey(s):
    return parse_raw(b58check_decode(s))


# ---- paths ------------------------------------------------------------------------------------
def parse_path(path):
    """'m', 'M', "m/0'/1h/2H/3" -> [indexes]; hardened markers ' h H add 2^31.
    Raises ValueError for anything else (empty components, signs, spaces, index >= 2^31)."""
    if isinstance(path, (list, tuple)):
        out = [int(i) for i in path]
        for i in out:
            if not 0 <= i < 2**32:
                raise ValueError("index out of range")
        return out
    if not isinstance(path, str) or not path:
        raise ValueError("empty path")
    parts = path.split("/")
    if parts[0] not in ("m", "M"):
        raise ValueError("path must start with m")
    out = []
    for comp in parts[1:]:
        hardened = comp[-1:] in ("'", "h", "H")
        digits = comp[:-1] if hardened else comp
        if not digits or not digits.isascii() or not digits.isdigit():
            raise ValueError("bad path component %r" % comp)
        v = int(digits)
        if v >= HARDENED:
            raise ValueError("path component out of range")
        out.append(v + HARDENED if hardened else v)
    return out


def path_str(indexes, marker="'", prefix="m"):
    return "/".join([prefix] + [(str(i - HARDENED) + marker) if i >= HARDENED else str(i) for i in indexes])


def node_priv(k, c, path, depth=0, parent_fp=ZERO_FP, child_num=0):
    for i in parse_path(path):
        parent_fp = fingerprint(ec.mul(k))
        k, c = ckd_priv(k, c, i)
        depth += 1
        child_num = i
    return {"key": k, "point": ec.mul(k), "chain_code": c, "depth": depth, "parent_fp": parent_fp, "child_num": child_num}


def node_pub(point, c, path, depth=0, parent_fp=ZERO_FP, child_num=0):
    for i in parse_path(path):
        parent_fp = fingerprint(point)
        point, c = ckd_pub(point, c, i)
        depth += 1
        child_num = i
    return {"key": point, "point": point, "chain_code": c, "depth": depth, "parent_fp": parent_fp, "child_num": child_num}


def derive_path_priv(k, c, path):
    n = node_priv(k, c, path)
    return n["key"], n["chain_code"]


def derive_path_pub(point, c, path):
    n = node_pub(point, c, path)
    return n["key"], n["chain_code"]


# ---- published vectors ------------------------------------------------------------------------
# BIP32 test vectors 1, 2 and 3 (seed hex, [(path, ext pub, ext prv)]) as published in the BIP
# (literals as quoted by the repository's buidl/test/test_hd.py).
BIP32_VECTORS = [
    (
        "000102030405060708090a0b0c0d0e0f",
        [
            ("m",
             "xpub661MyMwAqRbcFtXgS5sYJABqqG9YLmC4Q1Rdap9gSE8NqtwybGhePY2gZ29ESFjqJoCu1Rupje8YtGqsefD265TMg7usUDFdp6W1EGMcet8",
             "xprv9s21ZrQH143K3QTDL4LXw2F7HEK3wJUD2nW2nRk4stbPy6cq3jPPqjiChkVvvNKmPGJxWUtg6LnF5kejMRNNU3TGtRBeJgk33yuGBxrMPHi"),
            ("m/0'",
             "xpub68Gmy5EdvgibQVfPdqkBBCHxA5htiqg55crXYuXoQRKfDBFA1WEjWgP6LHhwBZeNK1VTsfTFUHCdrfp1bgwQ9xv5ski8PX9rL2dZXvgGDnw",
             "xprv9uHRZZhk6KAJC1avXpDAp4MDc3sQKNxDiPvvkX8Br5ngLNv1TxvUxt4cV1rGL5hj6KCesnDYUhd7oWgT11eZG7XnxHrnYeSvkzY7d2bhkJ7"),
            ("m/0'/1",
             "xpub6ASuArnXKPbfEwhqN6e3mwBcDTgzisQN1wXN9BJcM47sSikHjJf3UFHKkNAWbWMiGj7Wf5uMash7SyYq527Hqck2AxYysAA7xmALppuCkwQ",
             "xprv9wTYmMFdV23N2TdNG573QoEsfRrWKQgWeibmLntzniatZvR9BmLnvSxqu53Kw1UmYPxLgboyZQaXwTCg8MSY3H2EU4pWcQDnRnrVA1xe8fs"),
            ("m/0'/1/2'",
             "xpub6D4BDPcP2GT577Vvch3R8wDkScZWzQzMMUm3PWbmWvVJrZwQY4VUNgqFJPMM3No2dFDFGTsxxpG5uJh7n7epu4trkrX7x7DogT5Uv6fcLW5",
             "xprv9z4pot5VBttmtdRTWfWQmoH1taj2axGVzFqSb8C9xaxKymcFzXBDptWmT7FwuEzG3ryjH4ktypQSAewRiNMjANTtpgP4mLTj34bhnZX7UiM"),
            ("m/0'/1/2'/2",
             "xpub6FHa3pjLCk84BayeJxFW2SP4XRrFd1JYnxeLeU8EqN3vDfZmbqBqaGJAyiLjTAwm6ZLRQUMv1ZACTj37sR62cfN7fe5JnJ7dh8zL4fiyLHV",
             "xprvA2JDeKCSNNZky6uBCviVfJSKyQ1mDYahRjijr5idH2WwLsEd4Hsb2Tyh8RfQMuPh7f7RtyzTtdrbdqqsunu5Mm3wDvUAKRHSC34sJ7in334"),
            ("m/0'/1/2'/2/1000000000",
             "xpub6H1LXWLaKsWFhvm6RVpEL9P4KfRZSW7abD2ttkWP3SSQvnyA8FSVqNTEcYFgJS2UaFcxupHiYkro49S8yGasTvXEYBVPamhGW6cFJodrTHy",
             "xprvA41z7zogVVwxVSgdKUHDy1SKmdb533PjDz7J6N6mV6uS3ze1ai8FHa8kmHScGpWmj4WggLyQjgPie1rFSruoUihUZREPSL39UNdE3BBDu76"),
        ],
    ),
    (
        "fffcf9f6f3f0edeae7e4e1dedbd8d5d2cfccc9c6c3c0bdbab7b4b1aeaba8a5a29f9c999693908d8a8784817e7b7875726f6c696663605d5a5754514e4b484542",
        [
            ("m",
             "xpub661MyMwAqRbcFW31YEwpkMuc5THy2PSt5bDMsktWQcFF8syAmRUapSCGu8ED9W6oDMSgv6Zz8idoc4a6mr8BDzTJY47LJhkJ8UB7WEGuduB",
             "xprv9s21ZrQH143K31xYSDQpPDxsXRTUcvj2iNHm5NUtrGiGG5e2DtALGdso3pGz6ssrdK4PFmM8NSpSBHNqPqm55Qn3LqFtT2emdEXVYsCzC2U"),
            ("m/0",
             "xpub69H7F5d8KSRgmmdJg2KhpAK8SR3DjMwAdkxj3ZuxV27CprR9LgpeyGmXUbC6wb7ERfvrnKZjXoUmmDznezpbZb7ap6r1D3tgFxHmwMkQTPH",
             "xprv9vHkqa6EV4sPZHYqZznhT2NPtPCjKuDKGY38FBWLvgaDx45zo9WQRUT3dKYnjwih2yJD9mkrocEZXo1ex8G81dwSM1fwqWpWkeS3v86pgKt"),
            ("m/0/2147483647'",
             "xpub6ASAVgeehLbnwdqV6UKMHVzgqAG8Gr6riv3Fxxpj8ksbH9ebxaEyBLZ85ySDhKiLDBrQSARLq1uNRts8RuJiHjaDMBU4Zn9h8LZNnBC5y4a",
             "xprv9wSp6B7kry3Vj9m1zSnLvN3xH8RdsPP1Mh7fAaR7aRLcQMKTR2vidYEeEg2mUCTAwCd6vnxVrcjfy2kRgVsFawNzmjuHc2YmYRmagcEPdU9"),
            ("m/0/2147483647'/1",
             "xpub6DF8uhdarytz3FWdA8TvFSvvAh8dP3283MY7p2V4SeE2wyWmG5mg5EwVvmdMVCQcoNJxGoWaU9DCWh89LojfZ537wTfunKau47EL2dhHKon",
             "xprv9zFnWC6h2cLgpmSA46vutJzBcfJ8yaJGg8cX1e5StJh45BBciYTRXSd25UEPVuesF9yog62tGAQtHjXajPPdbRCHuWS6T8XA2ECKADdw4Ef"),
            ("m/0/2147483647'/1/2147483646'",
             "xpub6ERApfZwUNrhLCkDtcHTcxd75RbzS1ed54G1LkBUHQVHQKqhMkhgbmJbZRkrgZw4koxb5JaHWkY4ALHY2grBGRjaDMzQLcgJvLJuZZvRcEL",
             "xprvA1RpRA33e1JQ7ifknakTFpgNXPmW2YvmhqLQYMmrj4xJXXWYpDPS3xz7iAxn8L39njGVyuoseXzU6rcxFLJ8HFsTjSyQbLYnMpCqE2VbFWc"),
            ("m/0/2147483647'/1/2147483646'/2",
             "xpub6FnCn6nSzZAw5Tw7cgR9bi15UV96gLZhjDstkXXxvCLsUXBGXPdSnLFbdpq8p9HmGsApME5hQTZ3emM2rnY5agb9rXpVGyy3bdW6EEgAtqt",
             "xprvA2nrNbFZABcdryreWet9Ea4LvTJcGsqrMzxHx98MMrotbir7yrKCEXw7nadnHM8Dq38EGfSh6dqA9QWTyefMLEcBYJUuekgW4BYPJcr9E7j"),
        ],
    ),
    (
        "4b381541583be4423346c643850da4b320e46a87ae3d2a4e6da11eba819cd4acba45d239319ac14f863b8d5ab5a0d0c64d2e8a1e7d1457df2e5a3c51c73235be",
        [
            ("m",
             "xpub661MyMwAqRbcEZVB4dScxMAdx6d4nFc9nvyvH3v4gJL378CSRZiYmhRoP7mBy6gSPSCYk6SzXPTf3ND1cZAceL7SfJ1Z3GC8vBgp2epUt13",
             "xprv9s21ZrQH143K25QhxbucbDDuQ4naNntJRi4KUfWT7xo4EKsHt2QJDu7KXp1A3u7Bi1j8ph3EGsZ9Xvz9dGuVrtHHs7pXeTzjuxBrCmmhgC6"),
            ("m/0'",
             "xpub68NZiKmJWnxxS6aaHmn81bvJeTESw724CRDs6HbuccFQN9Ku14VQrADWgqbhhTHBaohPX4CjNLf9fq9MYo6oDaPPLPxSb7gwQN3ih19Zm4Y",
             "xprv9uPDJpEQgRQfDcW7BkF7eTya6RPxXeJCqCJGHuCJ4GiRVLzkTXBAJMu2qaMWPrS7AANYqdq6vcBcBUdJCVVFceUvJFjaPdGZ2y9WACViL4L"),
        ],
    ),
]


def selfcheck():
    assert hash160(b"").hex() == "b472a266d0bd89c13706a4132ccfb16f7c3b9fcb"
    assert b58encode(b"\x00\x00\x01") == "112" and b58decode("112") == b"\x00\x00\x01"
    for seed_hex, paths in BIP32_VECTORS:
        k0, c0 = master(bytes.fromhex(seed_hex))
        for path, xpub, xprv in paths:
            for variant in (path, path.replace("'", "h"), path.replace("'", "H"), "M" + path[1:]):
                node = node_priv(k0, c0, variant)
                got_prv = serialize_xprv("0488ade4", node["depth"], node["parent_fp"], node["child_num"], node["chain_code"], node["key"])
                got_pub = serialize_xpub("0488b21e", node["depth"], node["parent_fp"], node["child_num"], node["chain_code"], node["point"])
                assert got_prv == xprv, (path, got_prv)
                assert got_pub == xpub, (path, got_pub)
            p = parse_xkey(xprv)
            q = parse_xkey(xpub)
            assert p["is_private"] and not q["is_private"] and p["point"] == q["key"]
            assert (p["depth"], p["parent_fp"], p["child_num"], p["chain_code"]) == (q["depth"], q["parent_fp"], q["child_num"], q["chain_code"])
            assert p["network"] == q["network"] == "mainnet" and p["prefix"] == "xprv" and q["prefix"] == "xpub"
            assert b58check_encode(p["raw"]) == xprv and b58check_encode(q["raw"]) == xpub
            # public derivation of the last step where it is not hardened
            idx = parse_path(path)
            if idx and idx[-1] < HARDENED:
                par = node_priv(k0, c0, idx[:-1])
                kk, cc = ckd_pub(par["point"], par["chain_code"], idx[-1])
                assert (kk, cc) == (p["point"], p["chain_code"])
            if idx and idx[-1] >= HARDENED:
                par = node_priv(k0, c0, idx[:-1])
                try:
                    ckd_pub(par["point"], par["chain_code"], idx[-1])
                except ValueError:
                    pass
                else:
                    raise AssertionError("hardened public derivation accepted")
    # SLIP-132: the registered version bytes produce the registered 4-character prefixes
    k0, c0 = master(bytes.fromhex(BIP32_VECTORS[0][0]))
    for vhex, (kind, network, prefix) in VERSIONS.items():
        for depth, fp, cn in ((0, ZERO_FP, 0), (5, b"\xff\xff\xff\xff", 2**32 - 1)):
            s = (serialize_xprv(vhex, depth, fp, cn, c0, k0) if kind == "prv" else serialize_xpub(vhex, depth, fp, cn, c0, ec.mul(k0)))
            assert s[:4] == prefix and len(s) == 111, (vhex, s)
            d = parse_xkey(s)
            assert d["version"].hex() == vhex and d["network"] == network and d["is_private"] == (kind == "prv")
    for bad in ("m/", "/0", "m//0", "m/-1", "m/0''", "m/2147483648", "m/ 1", "m/1 ", "x/0", "", "m/+1", "m/0x10"):
        try:
            parse_path(bad)
        except ValueError:
            continue
        raise AssertionError("bad path accepted: %r" % bad)
    assert parse_path("M/0H/1h/2'/3") == [HARDENED, HARDENED + 1, HARDENED + 2, 3]
    assert path_str([HARDENED, 1], "h") == "m/0h/1"
    return True
