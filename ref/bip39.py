"""Reference model for C14: BIP39 mnemonics, BIP39 seeds, BIP32 master key serialisation.

Written from the specifications (BIP39 "Generating the mnemonic" / "From mnemonic to seed",
BIP32 "Master key generation" / "Serialization format", RFC 2898 PBKDF2 through
hashlib.pbkdf2_hmac).  Never imports the library under test.

The 2048 English words are *data*: they are read from <repo>/buidl/bip39_words.txt, but the
file must have the SHA-256 fingerprint of the canonical bitcoin/bips english.txt pinned below
and must satisfy the structural invariants BIP39 states for the list (2048 words, sorted,
unique, first four letters identify a word).  A file that does not is reported by
`load_words` as WordlistMismatch (the check turns that into a violation: the anchored word
list is not the BIP39 list).
"""
import hashlib
import hmac
import os

# sha256 of bips/bip-0039/english.txt (2048 lines, LF terminated)
BIP39_ENGLISH_SHA256 = "2f5eed53a4727b4bf8880d8f3f199efc90e58503646d9ff8eff3a2ed3b24dbda"

WORDS_TO_ENT = {12: 128, 15: 160, 18: 192, 21: 224, 24: 256}
ENT_TO_WORDS = {v: k for k, v in WORDS_TO_ENT.items()}

XPRV_MAINNET = bytes.fromhex("0488ade4")
XPRV_TESTNET = bytes.fromhex("04358394")
SECP256K1_N = 0xFFFFFFFFFFFFFFFFFFFFFFFFFFFFFFFEBAAEDCE6AF48A03BBFD25E8CD0364141


class WordlistMismatch(Exception):
    pass


def repo_root():
    return os.environ.get("VERIF_REPO_ROOT") or "/repo"


def wordlist_path():
    return os.path.join(repo_root(), "buidl", "bip39_words.txt")


def check_wordlist_structure(words, count):
    """Structural invariants both BIP39 and SLIP39 state for their lists."""
    if len(words) != count:
        raise WordlistMismatch("expected %d words, got %d" % (count, len(words)))
    if len(set(words)) != count:
        raise WordlistMismatch("duplicate words")
    if words != sorted(words):
        raise WordlistMismatch("list is not sorted")
    for w in words:
        if not (w.isascii() and w.isalpha() and w == w.lower()):
            raise WordlistMismatch("word %r is not lower-case ascii letters" % (w,))
    prefixes = {}
    for w in words:
        if w[:4] in prefixes:
            raise WordlistMismatch("words %r and %r share a four-letter prefix" % (prefixes[w[:4]], w))
        prefixes[w[:4]] = w
    return True


def load_words(path=None):
    path = path or wordlist_path()
    with open(path, "rb") as f:
        raw = f.read()
    got = hashlib.sha256(raw).hexdigest()
    if got != BIP39_ENGLISH_SHA256:
        raise WordlistMismatch("sha256(%s) = %s, canonical english.txt is %s" % (path, got, BIP39_ENGLISH_SHA256))
    words = raw.decode("ascii").split("\n")
    if words[-1] == "":
        words.pop()
    check_wordlist_structure(words, 2048)
    if not all(3 <= len(w) <= 8 for w in words):
        raise WordlistMismatch("word length outside 3..8")
    return words


_CACHE = {}


def words():
    if "w" not in _CACHE:
        w = load_words()
        _CACHE["w"] = w
        _CACHE["index"] = {x: i for i, x in enumerate(w)}
        pre = {}
        for i, x in enumerate(w):
            pre.setdefault(x[:4], []).append(i)
        _CACHE["prefix"] = pre
    return _CACHE["w"]


def word_index():
    words()
    return _CACHE["index"]


def resolve(token):
    """Index of a token that is a full word, or a four-letter string that is the beginning of
    exactly one word; None otherwise."""
    words()
    i = _CACHE["index"].get(token)
    if i is not None:
        return i
    if isinstance(token, str) and len(token) == 4:
        cand = _CACHE["prefix"].get(token, [])
        if len(cand) == 1:
            return cand[0]
    return None


# ---- entropy <-> mnemonic -----------------------------------------------------------------
def entropy_to_indices(entropy):
    ent = len(entropy) * 8
    if ent not in ENT_TO_WORDS:
        raise ValueError("entropy must be 128..256 bits in steps of 32")
    cs_len = ent // 32
    h = hashlib.sha256(entropy).digest()
    bits = "".join(format(b, "08b") for b in entropy) + format(h[0], "08b")[:cs_len]
    assert len(bits) % 11 == 0 and len(bits) // 11 == ENT_TO_WORDS[ent]
    return [int(bits[i : i + 11], 2) for i in range(0, len(bits), 11)]


def entropy_to_mnemonic(entropy):
    w = words()
    return " ".join(w[i] for i in entropy_to_indices(entropy))


def indices_to_entropy(indices):
    """('valid', entropy) | ('bad-length', None) | ('bad-checksum', None)"""
    n = len(indices)
    if n not in WORDS_TO_ENT:
        return ("bad-length", None)
    ent = WORDS_TO_ENT[n]
    bits = "".join(format(i, "011b") for i in indices)
    ebits, cbits = bits[:ent], bits[ent:]
    entropy = bytes(int(ebits[i : i + 8], 2) for i in range(0, ent, 8))
    h = hashlib.sha256(entropy).digest()
    if format(h[0], "08b")[: len(cbits)] != cbits:
        return ("bad-checksum", None)
    return ("valid", entropy)


def classify(tokens):
    """Decide a token sequence.  Returns (verdict, entropy, indices): verdict is 'valid',
    'bad-length', 'unknown-token' or 'bad-checksum' (length is judged first, then tokens, then
    the checksum - any of the three makes the sequence unacceptable)."""
    tokens = list(tokens)
    if len(tokens) not in WORDS_TO_ENT:
        return ("bad-length", None, None)
    idx = [resolve(t) for t in tokens]
    if any(i is None for i in idx):
        return ("unknown-token", None, None)
    verdict, entropy = indices_to_entropy(idx)
    return (verdict, entropy, idx if verdict == "valid" else None)


def normalize(tokens):
    w = words()
    return " ".join(w[resolve(t)] for t in tokens)


def valid_last_indices(first_indices):
    """All indices that complete `first_indices` (n-1 words) to a valid n-word mnemonic, built
    constructively: enumerate the entropy bits that fall into the last word and append the
    checksum.  There are 2^(11 - n/3) of them (128, 64, 32, 16, 8)."""
    n = len(first_indices) + 1
    ent = WORDS_TO_ENT[n]
    cs_len = n // 3
    free = 11 - cs_len
    head = "".join(format(i, "011b") for i in first_indices)
    assert len(head) + free == ent
    out = set()
    for v in range(1 << free):
        ebits = head + format(v, "0%db" % free)
        entropy = bytes(int(ebits[i : i + 8], 2) for i in range(0, ent, 8))
        cs = hashlib.sha256(entropy).digest()[0] >> (8 - cs_len)
        out.add((v << cs_len) | cs)
    return out


# ---- seed and master key ------------------------------------------------------------------
def pbkdf2(hash_name, password, salt, iterations, dklen):
    return hashlib.pbkdf2_hmac(hash_name, password, salt, iterations, dklen)


def pbkdf2_rfc2898(hash_name, password, salt, iterations, dklen):
    """Direct transcription of RFC 2898 section 5.2 (used to cross-check small cases)."""
    hlen = hashlib.new(hash_name).digest_size
    out = b""
    i = 1
    while len(out) < dklen:
        u = hmac.new(password, salt + i.to_bytes(4, "big"), hash_name).digest()
        t = int.from_bytes(u, "big")
        for _ in range(iterations - 1):
            u = hmac.new(password, u, hash_name).digest()
            t ^= int.from_bytes(u, "big")
        out += t.to_bytes(hlen, "big")
        i += 1
    return out[:dklen]


def seed(mnemonic_full_words, passphrase=b""):
    """BIP39: PBKDF2-HMAC-SHA512, password = mnemonic sentence (UTF-8 NFKD; ASCII here),
    salt = 'mnemonic' + passphrase, 2048 iterations, 64 bytes."""
    if isinstance(passphrase, str):
        passphrase = passphrase.encode("utf-8")
    return hashlib.pbkdf2_hmac("sha512", mnemonic_full_words.encode("utf-8"), b"mnemonic" + passphrase, 2048, 64)


def master_from_seed(seed_bytes):
    i = hmac.new(b"Bitcoin seed", seed_bytes, hashlib.sha512).digest()
    secret = int.from_bytes(i[:32], "big")
    if secret == 0 or secret >= SECP256K1_N:
        raise ValueError("invalid master key (probability 2^-127)")
    return secret, i[32:]


B58 = "123456789ABCDEFGHJKLMNPQRSTUVWXYZabcdefghijkmnopqrstuvwxyz"


def base58check(payload):
    data = payload + hashlib.sha256(hashlib.sha256(payload).digest()).digest()[:4]
    n = int.from_bytes(data, "big")
    s = ""
    while n:
        n, r = divmod(n, 58)
        s = B58[r] + s
    pad = len(data) - len(data.lstrip(b"\x00"))
    return "1" * pad + s


def xprv_from_seed(seed_bytes, version=XPRV_MAINNET):
    secret, chain = master_from_seed(seed_bytes)
    raw = version + b"\x00" + b"\x00" * 4 + b"\x00" * 4 + chain + b"\x00" + secret.to_bytes(32, "big")
    assert len(raw) == 78
    return base58check(raw)


def xprv_from_mnemonic(tokens, passphrase=b"", version=XPRV_MAINNET):
    return xprv_from_seed(seed(normalize(tokens), passphrase), version)


# ---- published vectors --------------------------------------------------------------------
# RFC 6070 (PBKDF2-HMAC-SHA1): (P, S, c, dkLen, DK)
RFC6070 = [
    (b"password", b"salt", 1, 20, "0c60c80f961f0e71f3a9b524af6012062fe037a6"),
    (b"password", b"salt", 2, 20, "ea6c014dc72d6f8ccd1ed92ace1d41f0d8de8957"),
    (b"password", b"salt", 4096, 20, "4b007901b765489abead49d926f721d065a429c1"),
    (
        b"passwordPASSWORDpassword",
        b"saltSALTsaltSALTsaltSALTsaltSALTsalt",
        4096,
        25,
        "3d2eec4fe41c849b80c8d83662c0e44a8b291a964cf2f07038",
    ),
    (b"pass\x00word", b"sa\x00lt", 4096, 16, "56fa6aa75548099dcc37d7f03425e0c3"),
]

# BIP32 test vector 1 (seed -> master xprv)
BIP32_TV1 = (
    "000102030405060708090a0b0c0d0e0f",
    "xprv9s21ZrQH143K3QTDL4LXw2F7HEK3wJUD2nW2nRk4stbPy6cq3jPPqjiChkVvvNKmPGJxWUtg6LnF5kejMRNNU3TGtRBeJgk33yuGBxrMPHi",
)

# BIP39 reference vectors (trezor/python-mnemonic vectors.json, passphrase "TREZOR"):
# (entropy, mnemonic, seed, master xprv)
TREZOR_VECTORS = [
    (
        '00000000000000000000000000000000',
        'abandon abandon abandon abandon abandon abandon abandon abandon abandon abandon abandon about',
        'c55257c360c07c72029aebc1b53c05ed0362ada38ead3e3e9efa3708e53495531f09a6987599d18264c1e1c92f2cf141630c7a3c4ab7c81b2f001698e7463b04',
        'xprv9s21ZrQH143K3h3fDYiay8mocZ3afhfULfb5GX8kCBdno77K4HiA15Tg23wpbeF1pLfs1c5SPmYHrEpTuuRhxMwvKDwqdKiGJS9XFKzUsAF',
    ),
    (
        '7f7f7f7f7f7f7f7f7f7f7f7f7f7f7f7f',
        'legal winner thank year wave sausage worth useful legal winner thank yellow',
        '2e8905819b8723fe2c1d161860e5ee1830318dbf49a83bd451cfb8440c28bd6fa457fe1296106559a3c80937a1c1069be3a3a5bd381ee6260e8d9739fce1f607',
        'xprv9s21ZrQH143K2gA81bYFHqU68xz1cX2APaSq5tt6MFSLeXnCKV1RVUJt9FWNTbrrryem4ZckN8k4Ls1H6nwdvDTvnV7zEXs2HgPezuVccsq',
    ),
    (
        '80808080808080808080808080808080',
        'letter advice cage absurd amount doctor acoustic avoid letter advice cage above',
        'd71de856f81a8acc65e6fc851a38d4d7ec216fd0796d0a6827a3ad6ed5511a30fa280f12eb2e47ed2ac03b5c462a0358d18d69fe4f985ec81778c1b370b652a8',
        'xprv9s21ZrQH143K2shfP28KM3nr5Ap1SXjz8gc2rAqqMEynmjt6o1qboCDpxckqXavCwdnYds6yBHZGKHv7ef2eTXy461PXUjBFQg6PrwY4Gzq',
    ),
    (
        'ffffffffffffffffffffffffffffffff',
        'zoo zoo zoo zoo zoo zoo zoo zoo zoo zoo zoo wrong',
        'ac27495480225222079d7be181583751e86f571027b0497b5b5d11218e0a8a13332572917f0f8e5a589620c6f15b11c61dee327651a14c34e18231052e48c069',
        'xprv9s21ZrQH143K2V4oox4M8Zmhi2Fjx5XK4Lf7GKRvPSgydU3mjZuKGCTg7UPiBUD7ydVPvSLtg9hjp7MQTYsW67rZHAXeccqYqrsx8LcXnyd',
    ),
    (
        '000000000000000000000000000000000000000000000000',
        'abandon abandon abandon abandon abandon abandon abandon abandon abandon abandon abandon abandon abandon abandon abandon abandon abandon agent',
        '035895f2f481b1b0f01fcf8c289c794660b289981a78f8106447707fdd9666ca06da5a9a565181599b79f53b844d8a71dd9f439c52a3d7b3e8a79c906ac845fa',
        'xprv9s21ZrQH143K3mEDrypcZ2usWqFgzKB6jBBx9B6GfC7fu26X6hPRzVjzkqkPvDqp6g5eypdk6cyhGnBngbjeHTe4LsuLG1cCmKJka5SMkmU',
    ),
    (
        '7f7f7f7f7f7f7f7f7f7f7f7f7f7f7f7f7f7f7f7f7f7f7f7f',
        'legal winner thank year wave sausage worth useful legal winner thank year wave sausage worth useful legal will',
        'f2b94508732bcbacbcc020faefecfc89feafa6649a5491b8c952cede496c214a0c7b3c392d168748f2d4a612bada0753b52a1c7ac53c1e93abd5c6320b9e95dd',
        'xprv9s21ZrQH143K3Lv9MZLj16np5GzLe7tDKQfVusBni7toqJGcnKRtHSxUwbKUyUWiwpK55g1DUSsw76TF1T93VT4gz4wt5RM23pkaQLnvBh7',
    ),
    (
        '808080808080808080808080808080808080808080808080',
        'letter advice cage absurd amount doctor acoustic avoid letter advice cage absurd amount doctor acoustic avoid letter always',
        '107d7c02a5aa6f38c58083ff74f04c607c2d2c0ecc55501dadd72d025b751bc27fe913ffb796f841c49b1d33b610cf0e91d3aa239027f5e99fe4ce9e5088cd65',
        'xprv9s21ZrQH143K3VPCbxbUtpkh9pRG371UCLDz3BjceqP1jz7XZsQ5EnNkYAEkfeZp62cDNj13ZTEVG1TEro9sZ9grfRmcYWLBhCocViKEJae',
    ),
    (
        'ffffffffffffffffffffffffffffffffffffffffffffffff',
        'zoo zoo zoo zoo zoo zoo zoo zoo zoo zoo zoo zoo zoo zoo zoo zoo zoo when',
        '0cd6e5d827bb62eb8fc1e262254223817fd068a74b5b449cc2f667c3f1f985a76379b43348d952e2265b4cd129090758b3e3c2c49103b5051aac2eaeb890a528',
        'xprv9s21ZrQH143K36Ao5jHRVhFGDbLP6FCx8BEEmpru77ef3bmA928BxsqvVM27WnvvyfWywiFN8K6yToqMaGYfzS6Db1EHAXT5TuyCLBXUfdm',
    ),
    (
        '0000000000000000000000000000000000000000000000000000000000000000',
        'abandon abandon abandon abandon abandon abandon abandon abandon abandon abandon abandon abandon abandon abandon abandon abandon abandon abandon abandon abandon abandon abandon abandon art',
        'bda85446c68413707090a52022edd26a1c9462295029f2e60cd7c4f2bbd3097170af7a4d73245cafa9c3cca8d561a7c3de6f5d4a10be8ed2a5e608d68f92fcc8',
        'xprv9s21ZrQH143K32qBagUJAMU2LsHg3ka7jqMcV98Y7gVeVyNStwYS3U7yVVoDZ4btbRNf4h6ibWpY22iRmXq35qgLs79f312g2kj5539ebPM',
    ),
    (
        '7f7f7f7f7f7f7f7f7f7f7f7f7f7f7f7f7f7f7f7f7f7f7f7f7f7f7f7f7f7f7f7f',
        'legal winner thank year wave sausage worth useful legal winner thank year wave sausage worth useful legal winner thank year wave sausage worth title',
        'bc09fca1804f7e69da93c2f2028eb238c227f2e9dda30cd63699232578480a4021b146ad717fbb7e451ce9eb835f43620bf5c514db0f8add49f5d121449d3e87',
        'xprv9s21ZrQH143K3Y1sd2XVu9wtqxJRvybCfAetjUrMMco6r3v9qZTBeXiBZkS8JxWbcGJZyio8TrZtm6pkbzG8SYt1sxwNLh3Wx7to5pgiVFU',
    ),
    (
        '8080808080808080808080808080808080808080808080808080808080808080',
        'letter advice cage absurd amount doctor acoustic avoid letter advice cage absurd amount doctor acoustic avoid letter advice cage absurd amount doctor acoustic bless',
        'c0c519bd0e91a2ed54357d9d1ebef6f5af218a153624cf4f2da911a0ed8f7a09e2ef61af0aca007096df430022f7a2b6fb91661a9589097069720d015e4e982f',
        'xprv9s21ZrQH143K3CSnQNYC3MqAAqHwxeTLhDbhF43A4ss4ciWNmCY9zQGvAKUSqVUf2vPHBTSE1rB2pg4avopqSiLVzXEU8KziNnVPauTqLRo',
    ),
    (
        'ffffffffffffffffffffffffffffffffffffffffffffffffffffffffffffffff',
        'zoo zoo zoo zoo zoo zoo zoo zoo zoo zoo zoo zoo zoo zoo zoo zoo zoo zoo zoo zoo zoo zoo zoo vote',
        'dd48c104698c30cfe2b6142103248622fb7bb0ff692eebb00089b32d22484e1613912f0a5b694407be899ffd31ed3992c456cdf60f5d4564b8ba3f05a69890ad',
        'xprv9s21ZrQH143K2WFF16X85T2QCpndrGwx6GueB72Zf3AHwHJaknRXNF37ZmDrtHrrLSHvbuRejXcnYxoZKvRquTPyp2JiNG3XcjQyzSEgqCB',
    ),
    (
        '9e885d952ad362caeb4efe34a8e91bd2',
        'ozone drill grab fiber curtain grace pudding thank cruise elder eight picnic',
        '274ddc525802f7c828d8ef7ddbcdc5304e87ac3535913611fbbfa986d0c9e5476c91689f9c8a54fd55bd38606aa6a8595ad213d4c9c9f9aca3fb217069a41028',
        'xprv9s21ZrQH143K2oZ9stBYpoaZ2ktHj7jLz7iMqpgg1En8kKFTXJHsjxry1JbKH19YrDTicVwKPehFKTbmaxgVEc5TpHdS1aYhB2s9aFJBeJH',
    ),
    (
        '6610b25967cdcca9d59875f5cb50b0ea75433311869e930b',
        'gravity machine north sort system female filter attitude volume fold club stay feature office ecology stable narrow fog',
        '628c3827a8823298ee685db84f55caa34b5cc195a778e52d45f59bcf75aba68e4d7590e101dc414bc1bbd5737666fbbef35d1f1903953b66624f910feef245ac',
        'xprv9s21ZrQH143K3uT8eQowUjsxrmsA9YUuQQK1RLqFufzybxD6DH6gPY7NjJ5G3EPHjsWDrs9iivSbmvjc9DQJbJGatfa9pv4MZ3wjr8qWPAK',
    ),
    (
        '68a79eaca2324873eacc50cb9c6eca8cc68ea5d936f98787c60c7ebc74e6ce7c',
        'hamster diagram private dutch cause delay private meat slide toddler razor book happy fancy gospel tennis maple dilemma loan word shrug inflict delay length',
        '64c87cde7e12ecf6704ab95bb1408bef047c22db4cc7491c4271d170a1b213d20b385bc1588d9c7b38f1b39d415665b8a9030c9ec653d75e65f847d8fc1fc440',
        'xprv9s21ZrQH143K2XTAhys3pMNcGn261Fi5Ta2Pw8PwaVPhg3D8DWkzWQwjTJfskj8ofb81i9NP2cUNKxwjueJHHMQAnxtivTA75uUFqPFeWzk',
    ),
    (
        'c0ba5a8e914111210f2bd131f3d5e08d',
        'scheme spot photo card baby mountain device kick cradle pact join borrow',
        'ea725895aaae8d4c1cf682c1bfd2d358d52ed9f0f0591131b559e2724bb234fca05aa9c02c57407e04ee9dc3b454aa63fbff483a8b11de949624b9f1831a9612',
        'xprv9s21ZrQH143K3FperxDp8vFsFycKCRcJGAFmcV7umQmcnMZaLtZRt13QJDsoS5F6oYT6BB4sS6zmTmyQAEkJKxJ7yByDNtRe5asP2jFGhT6',
    ),
    (
        '6d9be1ee6ebd27a258115aad99b7317b9c8d28b6d76431c3',
        'horn tenant knee talent sponsor spell gate clip pulse soap slush warm silver nephew swap uncle crack brave',
        'fd579828af3da1d32544ce4db5c73d53fc8acc4ddb1e3b251a31179cdb71e853c56d2fcb11aed39898ce6c34b10b5382772db8796e52837b54468aeb312cfc3d',
        'xprv9s21ZrQH143K3R1SfVZZLtVbXEB9ryVxmVtVMsMwmEyEvgXN6Q84LKkLRmf4ST6QrLeBm3jQsb9gx1uo23TS7vo3vAkZGZz71uuLCcywUkt',
    ),
    (
        '9f6a2878b2520799a44ef18bc7df394e7061a224d2c33cd015b157d746869863',
        'panda eyebrow bullet gorilla call smoke muffin taste mesh discover soft ostrich alcohol speed nation flash devote level hobby quick inner drive ghost inside',
        '72be8e052fc4919d2adf28d5306b5474b0069df35b02303de8c1729c9538dbb6fc2d731d5f832193cd9fb6aeecbc469594a70e3dd50811b5067f3b88b28c3e8d',
        'xprv9s21ZrQH143K2WNnKmssvZYM96VAr47iHUQUTUyUXH3sAGNjhJANddnhw3i3y3pBbRAVk5M5qUGFr4rHbEWwXgX4qrvrceifCYQJbbFDems',
    ),
    (
        '23db8160a31d3e0dca3688ed941adbf3',
        'cat swing flag economy stadium alone churn speed unique patch report train',
        'deb5f45449e615feff5640f2e49f933ff51895de3b4381832b3139941c57b59205a42480c52175b6efcffaa58a2503887c1e8b363a707256bdd2b587b46541f5',
        'xprv9s21ZrQH143K4G28omGMogEoYgDQuigBo8AFHAGDaJdqQ99QKMQ5J6fYTMfANTJy6xBmhvsNZ1CJzRZ64PWbnTFUn6CDV2FxoMDLXdk95DQ',
    ),
    (
        '8197a4a47f0425faeaa69deebc05ca29c0a5b5cc76ceacc0',
        'light rule cinnamon wrap drastic word pride squirrel upgrade then income fatal apart sustain crack supply proud access',
        '4cbdff1ca2db800fd61cae72a57475fdc6bab03e441fd63f96dabd1f183ef5b782925f00105f318309a7e9c3ea6967c7801e46c8a58082674c860a37b93eda02',
        'xprv9s21ZrQH143K3wtsvY8L2aZyxkiWULZH4vyQE5XkHTXkmx8gHo6RUEfH3Jyr6NwkJhvano7Xb2o6UqFKWHVo5scE31SGDCAUsgVhiUuUDyh',
    ),
    (
        '066dca1a2bb7e8a1db2832148ce9933eea0f3ac9548d793112d9a95c9407efad',
        'all hour make first leader extend hole alien behind guard gospel lava path output census museum junior mass reopen famous sing advance salt reform',
        '26e975ec644423f4a4c4f4215ef09b4bd7ef924e85d1d17c4cf3f136c2863cf6df0a475045652c57eb5fb41513ca2a2d67722b77e954b4b3fc11f7590449191d',
        'xprv9s21ZrQH143K3rEfqSM4QZRVmiMuSWY9wugscmaCjYja3SbUD3KPEB1a7QXJoajyR2T1SiXU7rFVRXMV9XdYVSZe7JoUXdP4SRHTxsT1nzm',
    ),
    (
        'f30f8c1da665478f49b001d94c5fc452',
        'vessel ladder alter error federal sibling chat ability sun glass valve picture',
        '2aaa9242daafcee6aa9d7269f17d4efe271e1b9a529178d7dc139cd18747090bf9d60295d0ce74309a78852a9caadf0af48aae1c6253839624076224374bc63f',
        'xprv9s21ZrQH143K2QWV9Wn8Vvs6jbqfF1YbTCdURQW9dLFKDovpKaKrqS3SEWsXCu6ZNky9PSAENg6c9AQYHcg4PjopRGGKmdD313ZHszymnps',
    ),
    (
        'c10ec20dc3cd9f652c7fac2f1230f7a3c828389a14392f05',
        'scissors invite lock maple supreme raw rapid void congress muscle digital elegant little brisk hair mango congress clump',
        '7b4a10be9d98e6cba265566db7f136718e1398c71cb581e1b2f464cac1ceedf4f3e274dc270003c670ad8d02c4558b2f8e39edea2775c9e232c7cb798b069e88',
        'xprv9s21ZrQH143K4aERa2bq7559eMCCEs2QmmqVjUuzfy5eAeDX4mqZffkYwpzGQRE2YEEeLVRoH4CSHxianrFaVnMN2RYaPUZJhJx8S5j6puX',
    ),
    (
        'f585c11aec520db57dd353c69554b21a89b20fb0650966fa0a9d6f74fd989d8f',
        'void come effort suffer camp survey warrior heavy shoot primary clutch crush open amazing screen patrol group space point ten exist slush involve unfold',
        '01f5bced59dec48e362f2c45b5de68b9fd6c92c6634f44d6d40aab69056506f0e35524a518034ddc1192e1dacd32c1ed3eaa3c3b131c88ed8e7e54c49a5d0998',
        'xprv9s21ZrQH143K39rnQJknpH1WEPFJrzmAqqasiDcVrNuk926oizzJDDQkdiTvNPr2FYDYzWgiMiC63YmfPAa2oPyNB23r2g7d1yiK6WpqaQS',
    ),
]


_CHECKED = []


def selfcheck():
    """Asserts the published vectors; raises on any mismatch.  Cached per process."""
    if _CHECKED:
        return True
    w = words()
    assert w[0] == "abandon" and w[2047] == "zoo" and w[3] == "about"
    assert resolve("aban") == 0 and resolve("abandon") == 0 and resolve("zoo") == 2047
    assert resolve("ab") is None and resolve("aband") is None and resolve("zzzz") is None
    for p, s, c, dklen, dk in RFC6070:
        assert pbkdf2("sha1", p, s, c, dklen).hex() == dk, "RFC 6070"
        if c <= 2:
            assert pbkdf2_rfc2898("sha1", p, s, c, dklen).hex() == dk
    for name in ("sha1", "sha256", "sha512"):
        for dklen in (1, 20, 64, 65, 130):
            assert pbkdf2_rfc2898(name, b"pw", b"na", 3, dklen) == pbkdf2(name, b"pw", b"na", 3, dklen)
    assert xprv_from_seed(bytes.fromhex(BIP32_TV1[0])) == BIP32_TV1[1], "BIP32 vector 1"
    sizes = set()
    for ent_hex, mnemonic, seed_hex, xprv in TREZOR_VECTORS:
        ent = bytes.fromhex(ent_hex)
        sizes.add(len(ent))
        assert entropy_to_mnemonic(ent) == mnemonic, "BIP39 encode"
        verdict, got, idx = classify(mnemonic.split())
        assert verdict == "valid" and got == ent, "BIP39 decode"
        short = [t[:4] for t in mnemonic.split()]
        assert classify(short)[1] == ent and normalize(short) == mnemonic
        assert seed(mnemonic, b"TREZOR").hex() == seed_hex, "BIP39 seed"
        assert xprv_from_seed(bytes.fromhex(seed_hex)) == xprv, "BIP39 xprv"
        last = valid_last_indices(idx[:-1])
        assert idx[-1] in last and len(last) == 1 << (11 - len(idx) // 3)
    assert sizes == {16, 24, 32}
    # 160/224-bit sizes are not in the vector file: encode/decode must be mutually inverse and
    # agree with the constructive last-word enumeration
    for n in (20, 28):
        ent = bytes((7 * i + n) % 256 for i in range(n))
        idx = entropy_to_indices(ent)
        assert indices_to_entropy(idx) == ("valid", ent)
        trial = {i for i in range(2048) if indices_to_entropy(idx[:-1] + [i])[0] == "valid"}
        assert trial == valid_last_indices(idx[:-1]) and len(trial) == {20: 64, 28: 16}[n]
    assert classify(["abandon"] * 12)[0] == "bad-checksum"
    assert classify(["abandon"] * 11)[0] == "bad-length"
    assert classify(["abandon"] * 11 + ["abou"])[0] == "valid"  # unique four-letter prefix of 'about'
    assert classify(["abandon"] * 11 + ["abo"])[0] == "unknown-token"
    assert classify(["abandon"] * 11 + ["About"])[0] == "unknown-token"
    _CHECKED.append(True)
    return True
