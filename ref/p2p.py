"""Reference P2P wire layouts: CompactSize, var-string, fixed-width integers, message envelope,
and the fixed-layout messages (version, getheaders, headers, getdata, ping/pong, getcfilters,
cfilter, getcfheaders, cfheaders, getcfcheckpt, cfcheckpt, merkleblock header part).

Written from the Bitcoin protocol documentation / BIP37 / BIP157 with `struct`.  Hashes are
passed in *displayed* (big-endian) order where the name ends in `_be` and are put on the wire
reversed; everything else is raw.  Never imports buidl.
"""
import hashlib
import struct

MAGIC = {
    "mainnet": bytes.fromhex("f9beb4d9"),
    "testnet": bytes.fromhex("0b110907"),
    "signet": bytes.fromhex("0a03cf40"),
    "regtest": bytes.fromhex("fabfb5da"),
}
NETWORKS = ("mainnet", "testnet", "signet", "regtest")
HEADER_LEN = 24


def hash256(b):
    return hashlib.sha256(hashlib.sha256(b).digest()).digest()


# ---- integers -----------------------------------------------------------------------------
def int_le(n, length):
    if n < 0 or n >> (8 * length):
        raise OverflowError("does not fit")
    return bytes((n >> (8 * i)) & 0xFF for i in range(length))


def int_be(n, length):
    return int_le(n, length)[::-1]


def le_int(b):
    v = 0
    for i, x in enumerate(b):
        v |= x << (8 * i)
    return v


def be_int(b):
    v = 0
    for x in b:
        v = (v << 8) | x
    return v


def compact_size(n):
    """CompactSize encoding of 0 <= n < 2^64 (shortest form)."""
    if n < 0 or n > 0xFFFFFFFFFFFFFFFF:
        raise OverflowError("CompactSize is at most 64 bits")
    if n < 0xFD:
        return struct.pack("<B", n)
    if n <= 0xFFFF:
        return b"\xfd" + struct.pack("<H", n)
    if n <= 0xFFFFFFFF:
        return b"\xfe" + struct.pack("<I", n)
    return b"\xff" + struct.pack("<Q", n)


def read_compact_size(raw, off=0):
    """-> (value, new offset, canonical?)  ValueError('truncated') if bytes are missing."""
    if off >= len(raw):
        raise ValueError("truncated")
    b = raw[off]
    if b < 0xFD:
        return b, off + 1, True
    width = {0xFD: 2, 0xFE: 4, 0xFF: 8}[b]
    if off + 1 + width > len(raw):
        raise ValueError("truncated")
    v = le_int(raw[off + 1 : off + 1 + width])
    canonical = v >= {2: 0xFD, 4: 0x10000, 8: 0x100000000}[width]
    return v, off + 1 + width, canonical


def varstr(b):
    return compact_size(len(b)) + b


def read_varstr(raw, off=0):
    n, off, _ = read_compact_size(raw, off)
    if off + n > len(raw):
        raise ValueError("truncated")
    return raw[off : off + n], off + n


# ---- envelope -----------------------------------------------------------------------------
def envelope(network, command, payload):
    """magic(4) | command zero-padded to 12 | payload length u32 LE | checksum(4) | payload."""
    if len(command) > 12:
        raise ValueError("command longer than 12 bytes")
    return MAGIC[network] + struct.pack("<12sI4s", command, len(payload), hash256(payload)[:4]) + payload


def parse_envelope(raw, network):
    """-> ('ok', command, payload, consumed) | ('reject', reason).
    Reasons: empty, truncated-header, wrong-magic, fewer-payload-bytes-than-declared, wrong-checksum."""
    if len(raw) == 0:
        return ("reject", "empty")
    if raw[:4] != MAGIC[network][: min(4, len(raw))]:
        return ("reject", "wrong-magic")
    if len(raw) < HEADER_LEN:
        return ("reject", "truncated-header")
    command, length, checksum = struct.unpack("<12sI4s", raw[4:HEADER_LEN])
    payload = raw[HEADER_LEN : HEADER_LEN + length]
    if len(payload) < length:
        return ("reject", "fewer-payload-bytes-than-declared")
    if hash256(payload)[:4] != checksum:
        return ("reject", "wrong-checksum")
    return ("ok", command.rstrip(b"\x00"), payload, HEADER_LEN + length)


# ---- messages -----------------------------------------------------------------------------
def net_addr(services, ip4, port):
    """Address in a version message (no time field): services u64 LE | IPv4-mapped IPv6 | port u16 BIG-endian."""
    if len(ip4) != 4:
        raise ValueError("IPv4 only")
    return struct.pack("<Q", services) + b"\x00" * 10 + b"\xff\xff" + ip4 + struct.pack(">H", port)


def version_payload(version, services, timestamp, receiver_services, receiver_ip, receiver_port, sender_services,
                    sender_ip, sender_port, nonce8, user_agent, latest_block, relay, ports_little_endian=False):
    def addr(s, ip, port):
        a = net_addr(s, ip, port)
        if ports_little_endian:
            a = a[:-2] + struct.pack("<H", port)
        return a

    out = struct.pack("<IQQ", version, services, timestamp)  # version is int32, timestamp int64: same bytes when >= 0
    out += addr(receiver_services, receiver_ip, receiver_port)
    out += addr(sender_services, sender_ip, sender_port)
    if len(nonce8) != 8:
        raise ValueError("nonce is 8 bytes")
    out += nonce8 + varstr(user_agent) + struct.pack("<I", latest_block) + (b"\x01" if relay else b"\x00")
    return out


def getheaders_payload(version, locator_count, locator_hashes_be, stop_hash_be):
    out = struct.pack("<I", version) + compact_size(locator_count)
    for h in locator_hashes_be:
        out += h[::-1]
    return out + stop_hash_be[::-1]


def headers_payload(raw_headers, tx_counts=None):
    out = compact_size(len(raw_headers))
    for i, h in enumerate(raw_headers):
        if len(h) != 80:
            raise ValueError("header is 80 bytes")
        out += h + compact_size(0 if tx_counts is None else tx_counts[i])
    return out


def parse_headers(raw):
    n, off, _ = read_compact_size(raw)
    out = []
    for _ in range(n):
        if off + 80 > len(raw):
            raise ValueError("truncated")
        out.append(raw[off : off + 80])
        off += 80
        cnt, off, _ = read_compact_size(raw, off)
        if cnt != 0:
            raise ValueError("tx count not 0")
    return out, off


def getdata_payload(items):
    """items: [(type u32, hash_be)]"""
    out = compact_size(len(items))
    for t, h in items:
        out += struct.pack("<I", t) + h[::-1]
    return out


def ping_payload(nonce8):
    if len(nonce8) != 8:
        raise ValueError("nonce is 8 bytes")
    return nonce8


def getcfilters_payload(filter_type, start_height, stop_hash_be):
    return struct.pack("<BI", filter_type, start_height) + stop_hash_be[::-1]


getcfheaders_payload = getcfilters_payload


def getcfcheckpt_payload(filter_type, stop_hash_be):
    return struct.pack("<B", filter_type) + stop_hash_be[::-1]


def cfilter_payload(filter_type, block_hash_be, filter_bytes):
    return struct.pack("<B", filter_type) + block_hash_be[::-1] + varstr(filter_bytes)


def parse_cfilter(raw):
    if len(raw) < 33:
        raise ValueError("truncated")
    fb, off = read_varstr(raw, 33)
    return {"filter_type": raw[0], "block_hash_be": raw[1:33][::-1], "filter_bytes": fb}, off


def cfheaders_payload(filter_type, stop_hash_be, prev_header, filter_hashes):
    out = struct.pack("<B", filter_type) + stop_hash_be[::-1] + prev_header + compact_size(len(filter_hashes))
    return out + b"".join(filter_hashes)


def parse_cfheaders(raw):
    if len(raw) < 65:
        raise ValueError("truncated")
    n, off, _ = read_compact_size(raw, 65)
    hashes = []
    for _ in range(n):
        if off + 32 > len(raw):
            raise ValueError("truncated")
        hashes.append(raw[off : off + 32])
        off += 32
    return {"filter_type": raw[0], "stop_hash_be": raw[1:33][::-1], "prev_header": raw[33:65], "filter_hashes": hashes}, off


def cfcheckpt_payload(filter_type, stop_hash_be, filter_headers):
    return struct.pack("<B", filter_type) + stop_hash_be[::-1] + compact_size(len(filter_headers)) + b"".join(filter_headers)


def parse_cfcheckpt(raw):
    if len(raw) < 33:
        raise ValueError("truncated")
    n, off, _ = read_compact_size(raw, 33)
    hdrs = []
    for _ in range(n):
        if off + 32 > len(raw):
            raise ValueError("truncated")
        hdrs.append(raw[off : off + 32])
        off += 32
    return {"filter_type": raw[0], "stop_hash_be": raw[1:33][::-1], "filter_headers": hdrs}, off


_HDR = struct.Struct("<I32s32sI4s4s")


def block_header(version, prev_be, root_be, timestamp, bits4, nonce4):
    return _HDR.pack(version, prev_be[::-1], root_be[::-1], timestamp, bits4, nonce4)


def parse_block_header(raw):
    v, p, m, t, b, n = _HDR.unpack(raw[:80])
    return {"version": v, "prev_be": p[::-1], "root_be": m[::-1], "timestamp": t, "bits4": b, "nonce4": n}


# ---- self check -----------------------------------------------------------------------------
_VERACK = "f9beb4d976657261636b000000000000000000005df6e0e2"
# a real `version` message from the protocol documentation (Satoshi:0.9.3), quoted in test_network
_VERSION_ENV = (
    "f9beb4d976657273696f6e0000000000650000005f1a69d2721101000100000000000000bc8f5e54000000000100000000000000"
    "00000000000000000000ffffc61b6409208d010000000000000000000000000000000000ffffcb0071c0208d128035cbc97953f8"
    "0f2f5361746f7368693a302e392e332fcf05050001"
)
_GETHEADERS = (
    "7f11010001a35bd0ca2f4a88c4eda6d213e2378a5758dfcd6af4371200000000000000000000000000000000000000000000000000"
    "00000000000000000000000000000000"
)
_GETDATA = (
    "020300000030eb2540c41025690160a1014c577061596e32e426b712c7ca00000000000000030000001049847939585b0652fba793"
    "661c361223446b6fc41089b8be00000000000000"
)
_HEADERS = (
    "0200000020df3b053dc46f162a9b00c7f0d5124e2676d47bbe7c5d0793a500000000000000ef445fef2ed495c275892206ca533e74"
    "11907971013ab83e3b47bd0d692d14d4dc7c835b67d8001ac157e670000000002030eb2540c41025690160a1014c577061596e32e4"
    "26b712c7ca00000000000000768b89f07044e6130ead292a3f51951adbd2202df447d98789339937fd006bd44880835b67d8001ade"
    "09204600"
)


def selfcheck():
    # CompactSize boundaries from the protocol documentation
    for n, hx in ((0, "00"), (0xFC, "fc"), (0xFD, "fdfd00"), (0xFF, "fdff00"), (0xFFFF, "fdffff"), (0x10000, "fe00000100"),
                  (0xFFFFFFFF, "feffffffff"), (0x100000000, "ff0000000001000000"), (2**64 - 1, "ffffffffffffffffff"),
                  (555, "fd2b02"), (70015, "fe7f110100"), (18005558675309, "ff6dc7ed3e60100000")):
        assert compact_size(n).hex() == hx, n
        assert read_compact_size(bytes.fromhex(hx)) == (n, len(hx) // 2, True)
    assert read_compact_size(bytes.fromhex("fd0100"))[2] is False
    assert varstr(b"hello") == b"\x05hello" and read_varstr(b"\x05hello!") == (b"hello", 6)
    assert int_le(1, 4).hex() == "01000000" and int_be(1, 4).hex() == "00000001" and le_int(b"\x01\x02") == 0x0201 and be_int(b"\x01\x02") == 0x0102
    # envelopes
    raw = bytes.fromhex(_VERACK)
    assert envelope("mainnet", b"verack", b"") == raw
    assert parse_envelope(raw, "mainnet") == ("ok", b"verack", b"", 24)
    assert parse_envelope(raw, "testnet") == ("reject", "wrong-magic")
    raw = bytes.fromhex(_VERSION_ENV)
    st = parse_envelope(raw, "mainnet")
    assert st[0] == "ok" and st[1] == b"version" and st[2] == raw[24:] and st[3] == len(raw)
    assert envelope("mainnet", b"version", raw[24:]) == raw
    assert parse_envelope(raw[:-1], "mainnet") == ("reject", "fewer-payload-bytes-than-declared")
    assert parse_envelope(raw[:-1] + b"\x00", "mainnet") == ("reject", "wrong-checksum")
    # that real version payload: the port 8333 is 20 8d on the wire (big-endian)
    pl = raw[24:]
    rebuilt = version_payload(70002, 1, 0x545E8FBC, 1, bytes([198, 27, 100, 9]), 8333, 1, bytes([203, 0, 113, 192]), 8333,
                              bytes.fromhex("128035cbc97953f8"), b"/Satoshi:0.9.3/", 329167, True)
    assert rebuilt == pl
    # getheaders / getdata / headers quoted in test_network
    start = bytes.fromhex("0000000000000000001237f46acddf58578a37e213d2a6edc4884a2fcad05ba3")
    assert getheaders_payload(70015, 1, [start], b"\x00" * 32).hex() == _GETHEADERS
    b1 = bytes.fromhex("00000000000000cac712b726e4326e596170574c01a16001692510c44025eb30")
    b2 = bytes.fromhex("00000000000000beb88910c46f6b442312361c6693a7fb52065b583979844910")
    assert getdata_payload([(3, b1), (3, b2)]).hex() == _GETDATA
    hs, used = parse_headers(bytes.fromhex(_HEADERS))
    assert len(hs) == 2 and used == len(_HEADERS) // 2 and headers_payload(hs).hex() == _HEADERS
    assert hash256(hs[0])[::-1] == parse_block_header(hs[1])["prev_be"]
    # BIP157 messages quoted in test_network
    stop = bytes.fromhex("000000006f27ddfe1dd680044a34548f41bed47eba9e6f0b310da21423bc5f33")
    assert getcfilters_payload(0, 1, stop) == b"\x00\x01\x00\x00\x00" + stop[::-1]
    assert getcfcheckpt_payload(0, stop) == b"\x00" + stop[::-1]
    cf = b"\x00" + stop[::-1] + b"\x09" + bytes.fromhex("0385acb4f0fe889ef0")
    assert cfilter_payload(0, stop, bytes.fromhex("0385acb4f0fe889ef0")) == cf
    assert parse_cfilter(cf)[0] == {"filter_type": 0, "block_hash_be": stop, "filter_bytes": bytes.fromhex("0385acb4f0fe889ef0")}
    z = b"\x00" * 32
    raw = bytes.fromhex("00335fbc2314a20d310b6f9eba7ed4be418f54344a0480d61dfedd276f00000000") + z + b"\x01" + z
    assert cfheaders_payload(0, stop, z, [z]) == raw and parse_cfheaders(raw)[0]["stop_hash_be"] == stop
    raw = bytes.fromhex("00335fbc2314a20d310b6f9eba7ed4be418f54344a0480d61dfedd276f00000000") + b"\x01" + z
    assert cfcheckpt_payload(0, stop, [z]) == raw and parse_cfcheckpt(raw)[0]["filter_headers"] == [z]
    return True
