"""Reference Bitcoin transaction / script / witness wire codec on plain dict models.

Model:
  tx  = {"version": int, "ins": [txin], "outs": [txout], "locktime": int, "segwit": bool}
  txin  = {"txid": 32 bytes (display order, i.e. reversed on the wire), "vout": int,
           "script": raw script bytes, "sequence": int, "witness": [bytes, ...]}
  txout = {"amount": int, "script": raw script bytes}
Written from the Bitcoin protocol documentation and BIP141/144.  Never imports buidl.
"""
import hashlib


def hash256(b):
    return hashlib.sha256(hashlib.sha256(b).digest()).digest()


# ---- compact size -------------------------------------------------------------------------
def compact_size(n):
    if n < 0 or n >= 1 << 64:
        raise ValueError("compact size out of range")
    if n < 0xFD:
        return bytes([n])
    if n <= 0xFFFF:
        return b"\xfd" + n.to_bytes(2, "little")
    if n <= 0xFFFFFFFF:
        return b"\xfe" + n.to_bytes(4, "little")
    return b"\xff" + n.to_bytes(8, "little")


class Reader:
    def __init__(self, data, pos=0):
        self.d = data
        self.p = pos

    def take(self, n):
        if n < 0 or self.p + n > len(self.d):
            raise ValueError("truncated")
        out = self.d[self.p : self.p + n]
        self.p += n
        return out

    def u(self, n):
        return int.from_bytes(self.take(n), "little")

    def compact(self):
        b = self.u(1)
        if b < 0xFD:
            return b
        return self.u({0xFD: 2, 0xFE: 4, 0xFF: 8}[b])

    def varbytes(self):
        return self.take(self.compact())


# ---- scripts --------------------------------------------------------------------------------
def push(data):
    """Shortest-length-prefix push of `data` (empty data is OP_0)."""
    n = len(data)
    if n == 0:
        return b"\x00"
    if n <= 75:
        return bytes([n]) + data
    if n <= 0xFF:
        return b"\x4c" + bytes([n]) + data
    if n <= 0xFFFF:
        return b"\x4d" + n.to_bytes(2, "little") + data
    return b"\x4e" + n.to_bytes(4, "little") + data


def script_bytes(cmds):
    """cmds: ints are opcodes (0..255), bytes are data pushes."""
    out = b""
    for c in cmds:
        if isinstance(c, int):
            if not 0 <= c <= 255:
                raise ValueError("opcode out of range")
            out += bytes([c])
        else:
            out += push(bytes(c))
    return out


def script_parse(raw):
    """Returns (cmds, clean).  clean is False when a push runs past the end of the script
    (Bitcoin treats the script as unparseable from that point; the bytes are still the script)."""
    r = Reader(raw)
    cmds = []
    try:
        while r.p < len(raw):
            op = r.u(1)
            if 1 <= op <= 75:
                cmds.append(r.take(op))
            elif op == 76:
                cmds.append(r.take(r.u(1)))
            elif op == 77:
                cmds.append(r.take(r.u(2)))
            elif op == 78:
                cmds.append(r.take(r.u(4)))
            else:
                cmds.append(op)
    except ValueError:
        return cmds, False
    return cmds, True


def cmds_equiv(a, b):
    """Command lists compared modulo the representation choice b'' == OP_0 (same wire byte)."""
    def norm(c):
        return 0 if (isinstance(c, (bytes, bytearray)) and len(c) == 0) else (bytes(c) if isinstance(c, (bytes, bytearray)) else c)
    return [norm(x) for x in a] == [norm(x) for x in b]


def is_push_minimal(raw):
    """True when every push in raw uses the shortest length prefix (the class the library can re-emit)."""
    r = Reader(raw)
    try:
        while r.p < len(raw):
            op = r.u(1)
            if 1 <= op <= 75:
                r.take(op)
            elif op == 76:
                n = r.u(1)
                if n <= 75:
                    return False
                r.take(n)
            elif op == 77:
                n = r.u(2)
                if n <= 0xFF:
                    return False
                r.take(n)
            elif op == 78:
                n = r.u(4)
                if n <= 0xFFFF:
                    return False
                r.take(n)
    except ValueError:
        return False
    return True


# ---- witness ----------------------------------------------------------------------------------
def witness_bytes(items):
    out = compact_size(len(items))
    for it in items:
        out += compact_size(len(it)) + bytes(it)
    return out


def read_witness(r):
    return [r.varbytes() for _ in range(r.compact())]


# ---- transactions -----------------------------------------------------------------------------
def txin_bytes(i):
    return i["txid"][::-1] + i["vout"].to_bytes(4, "little") + compact_size(len(i["script"])) + i["script"] + i["sequence"].to_bytes(4, "little")


def txout_bytes(o):
    return o["amount"].to_bytes(8, "little") + compact_size(len(o["script"])) + o["script"]


def encode_stripped(tx):
    out = tx["version"].to_bytes(4, "little")
    out += compact_size(len(tx["ins"])) + b"".join(txin_bytes(i) for i in tx["ins"])
    out += compact_size(len(tx["outs"])) + b"".join(txout_bytes(o) for o in tx["outs"])
    return out + tx["locktime"].to_bytes(4, "little")


def encode(tx):
    if not tx.get("segwit"):
        return encode_stripped(tx)
    out = tx["version"].to_bytes(4, "little") + b"\x00\x01"
    out += compact_size(len(tx["ins"])) + b"".join(txin_bytes(i) for i in tx["ins"])
    out += compact_size(len(tx["outs"])) + b"".join(txout_bytes(o) for o in tx["outs"])
    out += b"".join(witness_bytes(i.get("witness", [])) for i in tx["ins"])
    return out + tx["locktime"].to_bytes(4, "little")


def decode(data, pos=0):
    """Returns (tx, end position).  BIP144: marker 00 flag 01 after the version means segwit.  A legacy transaction
    WITHOUT inputs also has 00 at that place (its input count): like Bitcoin Core's DecodeHexTx the extended reading
    is tried first for 00 01 and the legacy reading is the fallback; 00 followed by anything else is legacy."""
    if data[pos + 4 : pos + 6] == b"\x00\x01":
        try:
            return _decode(data, pos, True)
        except (ValueError, IndexError, KeyError):
            pass
    return _decode(data, pos, False)


def _decode(data, pos, segwit):
    r = Reader(data, pos)
    version = r.u(4)
    if segwit:
        r.take(2)
    ins = []
    for _ in range(r.compact()):
        txid = r.take(32)[::-1]
        vout = r.u(4)
        script = r.varbytes()
        seq = r.u(4)
        ins.append({"txid": txid, "vout": vout, "script": script, "sequence": seq, "witness": []})
    outs = []
    for _ in range(r.compact()):
        amount = r.u(8)
        outs.append({"amount": amount, "script": r.varbytes()})
    if segwit:
        for i in ins:
            i["witness"] = read_witness(r)
    locktime = r.u(4)
    return {"version": version, "ins": ins, "outs": outs, "locktime": locktime, "segwit": segwit}, r.p


def txid(tx):
    """Display-order transaction id (hex of the byte-reversed double SHA-256 of the stripped form)."""
    return hash256(encode_stripped(tx))[::-1]


def wtxid(tx):
    return hash256(encode(tx))[::-1]


def selfcheck():
    assert compact_size(252) == b"\xfc" and compact_size(253) == b"\xfd\xfd\x00" and compact_size(0x10000) == b"\xfe\x00\x00\x01\x00"
    assert compact_size(0x100000000) == b"\xff" + (1 << 32).to_bytes(8, "little")
    # the first Bitcoin transaction between two parties (block 170), legacy
    raw = bytes.fromhex(
        "0100000001c997a5e56e104102fa209c6a852dd90660a20b2d9c352423edce25857fcd3704000000004847304402204e45e16932b8af514961a1d3a1a25fdf3f4f7732e9d624c6c61548ab5fb8cd410220181522ec8eca07de4860a4acdd12909d831cc56cbbac4622082221a8768d1d0901ffffffff0200ca9a3b00000000434104ae1a62fe09c5f51b13905f07f06b99a2f7159b2225f374cd378d71302fa28414e7aab37397f554a7df5f142c21c1b7303b8a0626f1baded5c72a704f7e6cd84cac00286bee0000000043410411db93e1dcdb8a016b49840f8c53bc1eb68a382e97b1482ecad7b148a6909a5cb2e0eaddfb84ccf9744464f82e160bfa9b8b64f9d4c03f999b8643f656b412a3ac00000000"
    )
    tx, end = decode(raw)
    assert end == len(raw) and encode(tx) == raw and not tx["segwit"]
    assert txid(tx).hex() == "f4184fc596403b9d638783cf57adfe4c75c605f6356fbc91338530e9831e9e16"
    assert tx["outs"][0]["amount"] == 1000000000 and len(tx["ins"]) == 1
    cmds, clean = script_parse(tx["outs"][0]["script"])
    assert clean and cmds[1] == 0xAC and len(cmds[0]) == 65 and script_bytes(cmds) == tx["outs"][0]["script"]
    # BIP143 native P2WPKH example, signed form (segwit serialisation)
    raw = bytes.fromhex(
        "01000000000102fff7f7881a8099afa6940d42d1e7f6362bec38171ea3edf433541db4e4ad969f00000000494830450221008b9d1dc26ba6a9cb62127b02742fa9d754cd3bebf337f7a55d114c8e5cdd30be022040529b194ba3f9281a99f2b1c0a19c0489bc22ede944ccf4ecbab4cc618ef3ed01eeffffffef51e1b804cc89d182d279655c3aa89e815b1b309fe287d9b2b55d57b90ec68a0100000000ffffffff02202cb206000000001976a9148280b37df378db99f66f85c95a783a76ac7a6d5988ac9093510d000000001976a9143bde42dbee7e4dbe6a21b2d50ce2f0167faa815988ac000247304402203609e17b84f6a7d30c80bfa610b5b4542f32a8a0d5447a12fb1366d7f01cc44a0220573a954c4518331561406f90300e8f3358f51928d43c212a8caed02de67eebee0121025476c2e83188368da1ff3e292e7acafcdb3566bb0ad253f62fc70f07aeee635711000000"
    )
    tx, end = decode(raw)
    assert end == len(raw) and tx["segwit"] and encode(tx) == raw
    assert tx["ins"][0]["witness"] == [] and len(tx["ins"][1]["witness"]) == 2
    assert txid(tx) != wtxid(tx)
    assert push(b"") == b"\x00" and push(b"a" * 75)[0] == 75 and push(b"a" * 76)[:2] == b"\x4c\x4c" and push(b"a" * 256)[:3] == b"\x4d\x00\x01"
    assert is_push_minimal(push(b"a" * 76)) and not is_push_minimal(b"\x4c\x01a") and not is_push_minimal(b"\x4d\x4c\x00" + b"a" * 76)
    return True
