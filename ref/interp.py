"""Reference mini consensus script interpreter.

A port of the semantics of Bitcoin Core's `EvalScript` (src/script/interpreter.cpp) and
`CScriptNum` (src/script/script.h) for exactly the opcode subset that the library under test
implements (constants, NOPs, IF/NOTIF/ELSE/ENDIF, VERIFY/RETURN, alt stack, stack ops, SIZE,
EQUAL(VERIFY), the non-disabled arithmetic/comparison opcodes, the five hash opcodes, BIP65
CHECKLOCKTIMEVERIFY and BIP112 CHECKSEQUENCEVERIFY).  Consensus rules only: no
MINIMALDATA / MINIMALIF / CLEANSTACK / DISCOURAGE_UPGRADABLE_NOPS.  Signature opcodes and
OP_CODESEPARATOR are not part of the subset (`Unsupported` is raised if one would execute).

Works on a command list like the library does: ints are opcodes, bytes are data pushes.
Never imports buidl.
"""
import hashlib

# ---- opcodes ------------------------------------------------------------------------------
OP_0 = 0
OP_1NEGATE = 79
OP_RESERVED = 80
OP_1 = 81
OP_2 = 82
OP_3 = 83
OP_4 = 84
OP_5 = 85
OP_6 = 86
OP_16 = 96
OP_NOP = 97
OP_VER = 98
OP_IF = 99
OP_NOTIF = 100
OP_VERIF = 101
OP_VERNOTIF = 102
OP_ELSE = 103
OP_ENDIF = 104
OP_VERIFY = 105
OP_RETURN = 106
OP_TOALTSTACK = 107
OP_FROMALTSTACK = 108
OP_2DROP = 109
OP_2DUP = 110
OP_3DUP = 111
OP_2OVER = 112
OP_2ROT = 113
OP_2SWAP = 114
OP_IFDUP = 115
OP_DEPTH = 116
OP_DROP = 117
OP_DUP = 118
OP_NIP = 119
OP_OVER = 120
OP_PICK = 121
OP_ROLL = 122
OP_ROT = 123
OP_SWAP = 124
OP_TUCK = 125
OP_SIZE = 130
OP_EQUAL = 135
OP_EQUALVERIFY = 136
OP_1ADD = 139
OP_1SUB = 140
OP_NEGATE = 143
OP_ABS = 144
OP_NOT = 145
OP_0NOTEQUAL = 146
OP_ADD = 147
OP_SUB = 148
OP_BOOLAND = 154
OP_BOOLOR = 155
OP_NUMEQUAL = 156
OP_NUMEQUALVERIFY = 157
OP_NUMNOTEQUAL = 158
OP_LESSTHAN = 159
OP_GREATERTHAN = 160
OP_LESSTHANOREQUAL = 161
OP_GREATERTHANOREQUAL = 162
OP_MIN = 163
OP_MAX = 164
OP_WITHIN = 165
OP_RIPEMD160 = 166
OP_SHA1 = 167
OP_SHA256 = 168
OP_HASH160 = 169
OP_HASH256 = 170
OP_CODESEPARATOR = 171
OP_CHECKSIG = 172
OP_CHECKSIGVERIFY = 173
OP_CHECKMULTISIG = 174
OP_CHECKMULTISIGVERIFY = 175
OP_NOP1 = 176
OP_CHECKLOCKTIMEVERIFY = 177
OP_CHECKSEQUENCEVERIFY = 178
OP_NOP4 = 179
OP_NOP10 = 185

NOPS = (OP_NOP, OP_NOP1) + tuple(range(OP_NOP4, OP_NOP10 + 1))
# opcodes that read their operands through CScriptNum with the default 4-byte limit, and how
# many stack items they read that way (from the top)
NUMERIC_OPERANDS = {
    OP_1ADD: 1, OP_1SUB: 1, OP_NEGATE: 1, OP_ABS: 1, OP_NOT: 1, OP_0NOTEQUAL: 1,
    OP_ADD: 2, OP_SUB: 2, OP_BOOLAND: 2, OP_BOOLOR: 2, OP_NUMEQUAL: 2, OP_NUMEQUALVERIFY: 2,
    OP_NUMNOTEQUAL: 2, OP_LESSTHAN: 2, OP_GREATERTHAN: 2, OP_LESSTHANOREQUAL: 2,
    OP_GREATERTHANOREQUAL: 2, OP_MIN: 2, OP_MAX: 2, OP_WITHIN: 3, OP_PICK: 1, OP_ROLL: 1,
}
DISABLED = frozenset([126, 127, 128, 129, 131, 132, 133, 134, 141, 142, 149, 150, 151, 152, 153])
SIGOPS = frozenset([OP_CODESEPARATOR, OP_CHECKSIG, OP_CHECKSIGVERIFY, OP_CHECKMULTISIG, OP_CHECKMULTISIGVERIFY, 186])

# the subset (every opcode the reference executes); conditionals listed separately
STEP_OPS = tuple(
    [OP_0, OP_1NEGATE] + list(range(OP_1, OP_16 + 1)) + [OP_NOP, OP_VERIFY, OP_RETURN]
    + list(range(OP_TOALTSTACK, OP_TUCK + 1)) + [OP_SIZE, OP_EQUAL, OP_EQUALVERIFY, OP_1ADD, OP_1SUB, OP_NEGATE,
    OP_ABS, OP_NOT, OP_0NOTEQUAL, OP_ADD, OP_SUB] + list(range(OP_BOOLAND, OP_HASH256 + 1))
    + [OP_NOP1, OP_CHECKLOCKTIMEVERIFY, OP_CHECKSEQUENCEVERIFY] + list(range(OP_NOP4, OP_NOP10 + 1))
)
FLOW_OPS = (OP_IF, OP_NOTIF, OP_ELSE, OP_ENDIF)

MAX_SCRIPT_ELEMENT_SIZE = 520
MAX_OPS_PER_SCRIPT = 201
MAX_STACK_SIZE = 1000

LOCKTIME_THRESHOLD = 500000000
SEQUENCE_FINAL = 0xFFFFFFFF
SEQUENCE_LOCKTIME_DISABLE_FLAG = 1 << 31
SEQUENCE_LOCKTIME_TYPE_FLAG = 1 << 22
SEQUENCE_LOCKTIME_MASK = 0x0000FFFF


class Unsupported(Exception):
    """An opcode outside the subset would have been executed."""


class ScriptNumError(Exception):
    """CScriptNum: 'script number overflow' (operand longer than nMaxNumSize)."""


# ---- CScriptNum ---------------------------------------------------------------------------
def set_vch(vch):
    """CScriptNum::set_vch: little-endian sign-magnitude value of a byte string (any
    encoding, minimal or not)."""
    if len(vch) == 0:
        return 0
    result = 0
    for i, b in enumerate(vch):
        result |= b << (8 * i)
    if vch[-1] & 0x80:
        return -(result & ~(0x80 << (8 * (len(vch) - 1))))
    return result


def is_minimal(vch):
    """The fRequireMinimal test of CScriptNum (used here only to *describe* encodings; it is
    a policy/tapscript rule and never enforced on operands)."""
    if len(vch) > 0:
        if (vch[-1] & 0x7F) == 0:
            if len(vch) <= 1 or (vch[-2] & 0x80) == 0:
                return False
    return True


def scriptnum(vch, max_size=4):
    """CScriptNum(vch, fRequireMinimal=false, nMaxNumSize=max_size)."""
    if len(vch) > max_size:
        raise ScriptNumError("script number overflow")
    return set_vch(vch)


def serialize_num(n):
    """CScriptNum::serialize, formulated through the bit length (not the byte loop of Core;
    `_serialize_core` below is the literal port and selfcheck() compares the two)."""
    if n == 0:
        return b""
    a = -n if n < 0 else n
    length = a.bit_length() // 8 + 1  # room for the sign bit
    raw = bytearray(a.to_bytes(length, "little"))
    if n < 0:
        raw[-1] |= 0x80
    return bytes(raw)


def _serialize_core(value):
    if value == 0:
        return b""
    result = bytearray()
    neg = value < 0
    absvalue = -value if neg else value
    while absvalue:
        result.append(absvalue & 0xFF)
        absvalue >>= 8
    if result[-1] & 0x80:
        result.append(0x80 if neg else 0)
    elif neg:
        result[-1] |= 0x80
    return bytes(result)


def getint(n):
    """CScriptNum::getint (clamp to int32)."""
    if n > 0x7FFFFFFF:
        return 0x7FFFFFFF
    if n < -0x80000000:
        return -0x80000000
    return n


def cast_to_bool(vch):
    """CastToBool: false for every all-zero string and for negative zero (…00 80)."""
    for i, b in enumerate(vch):
        if b != 0:
            if i == len(vch) - 1 and b == 0x80:
                return False
            return True
    return False


# ---- hashes -------------------------------------------------------------------------------
_R1 = [0, 1, 2, 3, 4, 5, 6, 7, 8, 9, 10, 11, 12, 13, 14, 15, 7, 4, 13, 1, 10, 6, 15, 3, 12, 0, 9, 5, 2, 14, 11, 8,
       3, 10, 14, 4, 9, 15, 8, 1, 2, 7, 0, 6, 13, 11, 5, 12, 1, 9, 11, 10, 0, 8, 12, 4, 13, 3, 7, 15, 14, 5, 6, 2,
       4, 0, 5, 9, 7, 12, 2, 10, 14, 1, 3, 8, 11, 6, 15, 13]
_R2 = [5, 14, 7, 0, 9, 2, 11, 4, 13, 6, 15, 8, 1, 10, 3, 12, 6, 11, 3, 7, 0, 13, 5, 10, 14, 15, 8, 12, 4, 9, 1, 2,
       15, 5, 1, 3, 7, 14, 6, 9, 11, 8, 12, 2, 10, 0, 4, 13, 8, 6, 4, 1, 3, 11, 15, 0, 5, 12, 2, 13, 9, 7, 10, 14,
       12, 15, 10, 4, 1, 5, 8, 7, 6, 2, 13, 14, 0, 3, 9, 11]
_S1 = [11, 14, 15, 12, 5, 8, 7, 9, 11, 13, 14, 15, 6, 7, 9, 8, 7, 6, 8, 13, 11, 9, 7, 15, 7, 12, 15, 9, 11, 7, 13, 12,
       11, 13, 6, 7, 14, 9, 13, 15, 14, 8, 13, 6, 5, 12, 7, 5, 11, 12, 14, 15, 14, 15, 9, 8, 9, 14, 5, 6, 8, 6, 5, 12,
       9, 15, 5, 11, 6, 8, 13, 12, 5, 12, 13, 14, 11, 8, 5, 6]
_S2 = [8, 9, 9, 11, 13, 15, 15, 5, 7, 7, 8, 11, 14, 14, 12, 6, 9, 13, 15, 7, 12, 8, 9, 11, 7, 7, 12, 7, 6, 15, 13, 11,
       9, 7, 15, 11, 8, 6, 6, 14, 12, 13, 5, 14, 13, 13, 7, 5, 15, 5, 8, 11, 14, 14, 6, 14, 6, 9, 12, 9, 12, 5, 15, 8,
       8, 5, 12, 9, 12, 5, 14, 6, 8, 13, 6, 5, 15, 13, 11, 11]
_K1 = [0x00000000, 0x5A827999, 0x6ED9EBA1, 0x8F1BBCDC, 0xA953FD4E]
_K2 = [0x50A28BE6, 0x5C4DD124, 0x6D703EF3, 0x7A6D76E9, 0x00000000]
_M32 = 0xFFFFFFFF


def _rol(x, n):
    return ((x << n) | (x >> (32 - n))) & _M32


def _f(j, x, y, z):
    if j < 16:
        return x ^ y ^ z
    if j < 32:
        return (x & y) | (~x & _M32 & z)
    if j < 48:
        return (x | (~y & _M32)) ^ z
    if j < 64:
        return (x & z) | (y & (~z & _M32))
    return x ^ (y | (~z & _M32))


def ripemd160_pure(msg):
    """RIPEMD-160 (Dobbertin, Bosselaers, Preneel 1996), straight from the specification."""
    h = [0x67452301, 0xEFCDAB89, 0x98BADCFE, 0x10325476, 0xC3D2E1F0]
    ml = len(msg)
    msg = bytes(msg) + b"\x80"
    msg += b"\x00" * ((56 - len(msg) % 64) % 64)
    msg += (8 * ml).to_bytes(8, "little")
    for off in range(0, len(msg), 64):
        x = [int.from_bytes(msg[off + 4 * i: off + 4 * i + 4], "little") for i in range(16)]
        a1, b1, c1, d1, e1 = h
        a2, b2, c2, d2, e2 = h
        for j in range(80):
            t = (_rol((a1 + _f(j, b1, c1, d1) + x[_R1[j]] + _K1[j // 16]) & _M32, _S1[j]) + e1) & _M32
            a1, e1, d1, c1, b1 = e1, d1, _rol(c1, 10), b1, t
            t = (_rol((a2 + _f(79 - j, b2, c2, d2) + x[_R2[j]] + _K2[j // 16]) & _M32, _S2[j]) + e2) & _M32
            a2, e2, d2, c2, b2 = e2, d2, _rol(c2, 10), b2, t
        t = (h[1] + c1 + d2) & _M32
        h[1] = (h[2] + d1 + e2) & _M32
        h[2] = (h[3] + e1 + a2) & _M32
        h[3] = (h[4] + a1 + b2) & _M32
        h[4] = (h[0] + b1 + c2) & _M32
        h[0] = t
    return b"".join(v.to_bytes(4, "little") for v in h)


def _openssl_ripemd160_ok():
    try:
        return hashlib.new("ripemd160", b"abc").hexdigest() == "8eb208f7e05d987a9b044a8e98c6b087f15a0bfc"
    except Exception:  # noqa: BLE001 - unavailable in this OpenSSL build
        return False


_HAVE_OPENSSL_RMD = _openssl_ripemd160_ok()


def ripemd160(b):
    if _HAVE_OPENSSL_RMD:
        return hashlib.new("ripemd160", b).digest()
    return ripemd160_pure(b)


def sha1(b):
    return hashlib.sha1(b).digest()


def sha256(b):
    return hashlib.sha256(b).digest()


def hash160(b):
    return ripemd160(sha256(b))


def hash256(b):
    return sha256(sha256(b))


# ---- transaction context ------------------------------------------------------------------
class TxCtx:
    """What CHECKLOCKTIMEVERIFY / CHECKSEQUENCEVERIFY read from the spending transaction, plus
    observation fields filled in by step(): `reason` (why the last step failed, or a note such as
    'csv-nop-disable-flag' on success) and `oversize` (a numeric operand exceeded nMaxNumSize)."""

    __slots__ = ("locktime", "sequence", "version", "reason", "oversize")

    def __init__(self, locktime=0, sequence=SEQUENCE_FINAL, version=1):
        self.locktime = locktime & 0xFFFFFFFF
        self.sequence = sequence & 0xFFFFFFFF
        self.version = version & 0xFFFFFFFF  # CheckSequence compares the version as uint32
        self.reason = None
        self.oversize = False

    def key(self):
        return (self.locktime, self.sequence, self.version)


def check_locktime(ctx, n):
    """GenericTransactionSignatureChecker::CheckLockTime (BIP65)."""
    if not ((ctx.locktime < LOCKTIME_THRESHOLD and n < LOCKTIME_THRESHOLD)
            or (ctx.locktime >= LOCKTIME_THRESHOLD and n >= LOCKTIME_THRESHOLD)):
        return "cltv-type-mismatch"
    if n > ctx.locktime:
        return "cltv-too-early"
    if ctx.sequence == SEQUENCE_FINAL:
        return "cltv-final-sequence"
    return None


def check_sequence(ctx, n):
    """GenericTransactionSignatureChecker::CheckSequence (BIP112)."""
    if ctx.version < 2:
        return "csv-version<2"
    if ctx.sequence & SEQUENCE_LOCKTIME_DISABLE_FLAG:
        return "csv-tx-disable-flag"
    mask = SEQUENCE_LOCKTIME_TYPE_FLAG | SEQUENCE_LOCKTIME_MASK
    tx_masked = ctx.sequence & mask
    n_masked = n & mask
    if not ((tx_masked < SEQUENCE_LOCKTIME_TYPE_FLAG and n_masked < SEQUENCE_LOCKTIME_TYPE_FLAG)
            or (tx_masked >= SEQUENCE_LOCKTIME_TYPE_FLAG and n_masked >= SEQUENCE_LOCKTIME_TYPE_FLAG)):
        return "csv-type-mismatch"
    if n_masked > tx_masked:
        return "csv-too-early"
    return None


# ---- one executed opcode ------------------------------------------------------------------
_TRUE = b"\x01"
_FALSE = b""


def step(op, stack, altstack, ctx):
    """Execute ONE command in an executing branch (ints = opcodes, bytes = push) on `stack` /
    `altstack` (mutated in place).  Returns True, or False when consensus fails the script at
    this opcode (the stacks are then meaningless).  Conditionals are handled by Machine."""
    ctx.reason = None
    try:
        return _step(op, stack, altstack, ctx)
    except ScriptNumError:
        ctx.oversize = True
        ctx.reason = "scriptnum-overflow"
        return False


def _fail(ctx, why):
    ctx.reason = why
    return False


def _step(op, stack, alt, ctx):
    if isinstance(op, (bytes, bytearray)):
        if len(op) > MAX_SCRIPT_ELEMENT_SIZE:
            return _fail(ctx, "push-size")
        stack.append(bytes(op))
        return True
    if op == OP_0:
        stack.append(b"")
        return True
    if op == OP_1NEGATE or OP_1 <= op <= OP_16:
        stack.append(serialize_num(op - (OP_1 - 1)))
        return True
    if op in NOPS:
        return True
    if op in FLOW_OPS:
        raise ValueError("conditional opcodes are executed by Machine, not step()")
    if op in SIGOPS:
        raise Unsupported(op)
    n = len(stack)

    if op == OP_VERIFY:
        if n < 1:
            return _fail(ctx, "stack-size")
        if cast_to_bool(stack[-1]):
            stack.pop()
            return True
        return _fail(ctx, "verify")
    if op == OP_RETURN:
        return _fail(ctx, "op-return")
    if op == OP_TOALTSTACK:
        if n < 1:
            return _fail(ctx, "stack-size")
        alt.append(stack.pop())
        return True
    if op == OP_FROMALTSTACK:
        if len(alt) < 1:
            return _fail(ctx, "altstack-size")
        stack.append(alt.pop())
        return True
    if op == OP_2DROP:
        if n < 2:
            return _fail(ctx, "stack-size")
        del stack[-2:]
        return True
    if op == OP_2DUP:  # (x1 x2 -- x1 x2 x1 x2)
        if n < 2:
            return _fail(ctx, "stack-size")
        v1, v2 = stack[-2], stack[-1]
        stack += [v1, v2]
        return True
    if op == OP_3DUP:
        if n < 3:
            return _fail(ctx, "stack-size")
        v1, v2, v3 = stack[-3], stack[-2], stack[-1]
        stack += [v1, v2, v3]
        return True
    if op == OP_2OVER:  # (x1 x2 x3 x4 -- x1 x2 x3 x4 x1 x2)
        if n < 4:
            return _fail(ctx, "stack-size")
        v1, v2 = stack[-4], stack[-3]
        stack += [v1, v2]
        return True
    if op == OP_2ROT:  # (x1 x2 x3 x4 x5 x6 -- x3 x4 x5 x6 x1 x2): erase, then push
        if n < 6:
            return _fail(ctx, "stack-size")
        v1, v2 = stack[-6], stack[-5]
        del stack[-6:-4]
        stack += [v1, v2]
        return True
    if op == OP_2SWAP:  # (x1 x2 x3 x4 -- x3 x4 x1 x2)
        if n < 4:
            return _fail(ctx, "stack-size")
        stack[-4], stack[-2] = stack[-2], stack[-4]
        stack[-3], stack[-1] = stack[-1], stack[-3]
        return True
    if op == OP_IFDUP:
        if n < 1:
            return _fail(ctx, "stack-size")
        if cast_to_bool(stack[-1]):
            stack.append(stack[-1])
        return True
    if op == OP_DEPTH:
        stack.append(serialize_num(n))
        return True
    if op == OP_DROP:
        if n < 1:
            return _fail(ctx, "stack-size")
        stack.pop()
        return True
    if op == OP_DUP:
        if n < 1:
            return _fail(ctx, "stack-size")
        stack.append(stack[-1])
        return True
    if op == OP_NIP:  # (x1 x2 -- x2)
        if n < 2:
            return _fail(ctx, "stack-size")
        del stack[-2]
        return True
    if op == OP_OVER:  # (x1 x2 -- x1 x2 x1)
        if n < 2:
            return _fail(ctx, "stack-size")
        stack.append(stack[-2])
        return True
    if op in (OP_PICK, OP_ROLL):  # (xn ... x2 x1 x0 n - ... x0 xn)
        if n < 2:
            return _fail(ctx, "stack-size")
        k = getint(scriptnum(stack[-1]))
        stack.pop()
        if k < 0 or k >= len(stack):
            return _fail(ctx, "pick-roll-range-negative" if k < 0 else "pick-roll-range")
        v = stack[-k - 1]
        if op == OP_ROLL:
            del stack[-k - 1]
        stack.append(v)
        return True
    if op == OP_ROT:  # (x1 x2 x3 -- x2 x3 x1)
        if n < 3:
            return _fail(ctx, "stack-size")
        stack[-3], stack[-2] = stack[-2], stack[-3]
        stack[-2], stack[-1] = stack[-1], stack[-2]
        return True
    if op == OP_SWAP:
        if n < 2:
            return _fail(ctx, "stack-size")
        stack[-2], stack[-1] = stack[-1], stack[-2]
        return True
    if op == OP_TUCK:  # (x1 x2 -- x2 x1 x2)
        if n < 2:
            return _fail(ctx, "stack-size")
        stack.insert(len(stack) - 2, stack[-1])
        return True
    if op == OP_SIZE:
        if n < 1:
            return _fail(ctx, "stack-size")
        stack.append(serialize_num(len(stack[-1])))
        return True
    if op in (OP_EQUAL, OP_EQUALVERIFY):
        if n < 2:
            return _fail(ctx, "stack-size")
        equal = stack[-2] == stack[-1]
        del stack[-2:]
        stack.append(_TRUE if equal else _FALSE)
        if op == OP_EQUALVERIFY:
            if equal:
                stack.pop()
            else:
                return _fail(ctx, "equalverify")
        return True
    if op in (OP_1ADD, OP_1SUB, OP_NEGATE, OP_ABS, OP_NOT, OP_0NOTEQUAL):
        if n < 1:
            return _fail(ctx, "stack-size")
        bn = scriptnum(stack[-1])
        if op == OP_1ADD:
            bn += 1
        elif op == OP_1SUB:
            bn -= 1
        elif op == OP_NEGATE:
            bn = -bn
        elif op == OP_ABS:
            if bn < 0:
                bn = -bn
        elif op == OP_NOT:
            bn = 1 if bn == 0 else 0
        else:
            bn = 1 if bn != 0 else 0
        stack.pop()
        stack.append(serialize_num(bn))
        return True
    if op in (OP_ADD, OP_SUB, OP_BOOLAND, OP_BOOLOR, OP_NUMEQUAL, OP_NUMEQUALVERIFY, OP_NUMNOTEQUAL, OP_LESSTHAN,
              OP_GREATERTHAN, OP_LESSTHANOREQUAL, OP_GREATERTHANOREQUAL, OP_MIN, OP_MAX):
        if n < 2:
            return _fail(ctx, "stack-size")
        bn1 = scriptnum(stack[-2])
        bn2 = scriptnum(stack[-1])
        if op == OP_ADD:
            bn = bn1 + bn2
        elif op == OP_SUB:
            bn = bn1 - bn2
        elif op == OP_BOOLAND:
            bn = int(bn1 != 0 and bn2 != 0)
        elif op == OP_BOOLOR:
            bn = int(bn1 != 0 or bn2 != 0)
        elif op in (OP_NUMEQUAL, OP_NUMEQUALVERIFY):
            bn = int(bn1 == bn2)
        elif op == OP_NUMNOTEQUAL:
            bn = int(bn1 != bn2)
        elif op == OP_LESSTHAN:
            bn = int(bn1 < bn2)
        elif op == OP_GREATERTHAN:
            bn = int(bn1 > bn2)
        elif op == OP_LESSTHANOREQUAL:
            bn = int(bn1 <= bn2)
        elif op == OP_GREATERTHANOREQUAL:
            bn = int(bn1 >= bn2)
        elif op == OP_MIN:
            bn = bn1 if bn1 < bn2 else bn2
        else:
            bn = bn1 if bn1 > bn2 else bn2
        del stack[-2:]
        stack.append(serialize_num(bn))
        if op == OP_NUMEQUALVERIFY:
            if cast_to_bool(stack[-1]):
                stack.pop()
            else:
                return _fail(ctx, "numequalverify")
        return True
    if op == OP_WITHIN:  # (x min max -- out)
        if n < 3:
            return _fail(ctx, "stack-size")
        bn1 = scriptnum(stack[-3])
        bn2 = scriptnum(stack[-2])
        bn3 = scriptnum(stack[-1])
        value = bn2 <= bn1 < bn3
        del stack[-3:]
        stack.append(_TRUE if value else _FALSE)
        return True
    if op in (OP_RIPEMD160, OP_SHA1, OP_SHA256, OP_HASH160, OP_HASH256):
        if n < 1:
            return _fail(ctx, "stack-size")
        v = stack.pop()
        if op == OP_RIPEMD160:
            stack.append(ripemd160(v))
        elif op == OP_SHA1:
            stack.append(sha1(v))
        elif op == OP_SHA256:
            stack.append(sha256(v))
        elif op == OP_HASH160:
            stack.append(hash160(v))
        else:
            stack.append(hash256(v))
        return True
    if op == OP_CHECKLOCKTIMEVERIFY:
        if n < 1:
            return _fail(ctx, "stack-size")
        # 5-byte operand: nLockTime is a uint32 and would overflow a 4-byte signed CScriptNum
        lock = scriptnum(stack[-1], 5)
        if lock < 0:
            return _fail(ctx, "cltv-negative")
        why = check_locktime(ctx, lock)
        if why:
            return _fail(ctx, why)
        return True
    if op == OP_CHECKSEQUENCEVERIFY:
        if n < 1:
            return _fail(ctx, "stack-size")
        seq = scriptnum(stack[-1], 5)
        if seq < 0:
            return _fail(ctx, "csv-negative")
        if seq & SEQUENCE_LOCKTIME_DISABLE_FLAG:
            ctx.reason = "csv-nop-disable-flag"  # behaves as a NOP
            return True
        why = check_sequence(ctx, seq)
        if why:
            return _fail(ctx, why)
        return True
    # OP_RESERVED, OP_VER, OP_RESERVED1/2, disabled and undefined opcodes
    return _fail(ctx, "bad-opcode")


# ---- whole scripts ------------------------------------------------------------------------
class Machine:
    """EvalScript as an incremental machine: feed() one command at a time.

    `tracer(pc, cmd, executed, machine)` is called after every command that did not fail."""

    def __init__(self, ctx=None, stack=None, altstack=None, enforce_limits=True, tracer=None):
        self.ctx = ctx if ctx is not None else TxCtx()
        self.stack = [] if stack is None else stack
        self.altstack = [] if altstack is None else altstack
        self.vf = []  # vfExec
        self.failed = False
        self.reason = None
        self.opcount = 0
        self.pc = 0
        self.limits = enforce_limits
        self.tracer = tracer

    def executing(self):
        return (not self.failed) and False not in self.vf

    def _die(self, why):
        self.failed = True
        self.reason = why
        return False

    def feed(self, cmd):
        if self.failed:
            return False
        pc = self.pc
        self.pc += 1
        fexec = False not in self.vf
        if isinstance(cmd, (bytes, bytearray)):
            if len(cmd) > MAX_SCRIPT_ELEMENT_SIZE:
                return self._die("push-size")
            if fexec:
                self.stack.append(bytes(cmd))
        else:
            if cmd > OP_16:
                self.opcount += 1
                if self.limits and self.opcount > MAX_OPS_PER_SCRIPT:
                    return self._die("op-count")
            if cmd in DISABLED:
                return self._die("disabled-opcode")
            if cmd in (OP_IF, OP_NOTIF):
                value = False
                if fexec:
                    if len(self.stack) < 1:
                        return self._die("unbalanced-conditional")
                    value = cast_to_bool(self.stack[-1])
                    if cmd == OP_NOTIF:
                        value = not value
                    self.stack.pop()
                self.vf.append(value)
            elif cmd == OP_ELSE:
                if not self.vf:
                    return self._die("unbalanced-conditional")
                self.vf[-1] = not self.vf[-1]
            elif cmd == OP_ENDIF:
                if not self.vf:
                    return self._die("unbalanced-conditional")
                self.vf.pop()
            elif cmd in (OP_VERIF, OP_VERNOTIF):
                return self._die("bad-opcode")
            elif fexec:
                if not step(cmd, self.stack, self.altstack, self.ctx):
                    return self._die(self.ctx.reason)
        if self.limits and len(self.stack) + len(self.altstack) > MAX_STACK_SIZE:
            return self._die("stack-size-limit")
        if self.tracer is not None:
            self.tracer(pc, cmd, fexec, self)
        return True

    def finish(self):
        if self.failed:
            return False
        if self.vf:
            return self._die("unbalanced-conditional")
        return True


def run(cmds, ctx=None, stack=None, altstack=None, enforce_limits=True, tracer=None):
    """EvalScript: returns (ok, stack, altstack)."""
    m = Machine(ctx, stack, altstack, enforce_limits, tracer)
    for c in cmds:
        if not m.feed(c):
            break
    ok = m.finish()
    return ok, m.stack, m.altstack


def verify(cmds, ctx=None):
    """EvalScript followed by VerifyScript's final test: non-empty stack whose top is true."""
    ok, stack, _ = run(cmds, ctx)
    if not ok or not stack:
        return False
    return cast_to_bool(stack[-1])


def well_formed(cmds):
    """Conditionals properly nested: every ELSE / ENDIF inside an open IF, every IF closed.  Several ELSEs in one IF
    are properly nested (consensus toggles execution at each; Core's script_tests.json: "Multiple ELSE's are valid")."""
    elses = []
    for c in cmds:
        if isinstance(c, int):
            if c in (OP_IF, OP_NOTIF):
                elses.append(0)
            elif c == OP_ELSE:
                if not elses:
                    return False
                elses[-1] += 1
            elif c == OP_ENDIF:
                if not elses:
                    return False
                elses.pop()
    return not elses


# ---- self check ---------------------------------------------------------------------------
def _n(v):
    return serialize_num(v)


def selfcheck():
    h = bytes.fromhex
    # RIPEMD-160 published vectors (Dobbertin/Bosselaers/Preneel), pure and OpenSSL
    rmd = {
        b"": "9c1185a5c5e9fc54612808977ee8f548b2258d31",
        b"a": "0bdc9d2d256b3ee9daae347be6f4dc835a467ffe",
        b"abc": "8eb208f7e05d987a9b044a8e98c6b087f15a0bfc",
        b"message digest": "5d0689ef49d2fae572b881b123a85ffa21595f36",
        b"abcdefghijklmnopqrstuvwxyz": "f71c27109c692c1b56bbdceb5b9d2865b3708dbc",
        b"abcdbcdecdefdefgefghfghighijhijkijkljklmklmnlmnomnopnopq": "12a053384a9c0c88e405a06c27dcf49ada62eb2b",
        b"1234567890" * 8: "9b752e45573d4b39f4dbd3323cab82bf63326bfb",
    }
    for m, d in rmd.items():
        assert ripemd160_pure(m).hex() == d, ("ripemd160_pure", m)
        assert ripemd160(m).hex() == d, ("ripemd160", m)
    assert sha1(b"abc").hex() == "a9993e364706816aba3e25717850c26c9cd0d89d"
    assert sha256(b"").hex() == "e3b0c44298fc1c149afbf4c8996fb92427ae41e4649b934ca495991b7852b855"
    assert hash160(b"hello world").hex() == "d7d5ee7824ff93f94c3055af9382c86c68b5ca92"
    assert hash256(b"").hex() == "5df6e0e2761359d30a8275058e299fcc0381534545f55cf43e41983f5d4c9456"

    # CScriptNum: hand-derived encodings (script_tests / scriptnum_tests values)
    enc = {
        0: "", 1: "01", -1: "81", 16: "10", 127: "7f", -127: "ff", 128: "8000", -128: "8080", 255: "ff00", -255: "ff80",
        256: "0001", -256: "0081", 32767: "ff7f", -32767: "ffff", 32768: "008000", -32768: "008080", 65535: "ffff00",
        8388607: "ffff7f", 8388608: "00008000", -8388608: "00008080", 2147483647: "ffffff7f", -2147483647: "ffffffff",
        2147483648: "0000008000", -2147483648: "0000008080", 4294967295: "ffffffff00", 500000000: "0065cd1d",
    }
    for v, e in enc.items():
        assert serialize_num(v).hex() == e, ("serialize", v)
        assert set_vch(h(e)) == v, ("set_vch", e)
        assert is_minimal(h(e))
    for v in list(range(-70000, 70001, 7)) + [2**k + d for k in range(7, 40) for d in (-1, 0, 1)] + [-(2**k) + d for k in range(7, 40) for d in (-1, 0, 1)]:
        assert serialize_num(v) == _serialize_core(v), v
        assert set_vch(serialize_num(v)) == v
        assert is_minimal(serialize_num(v))
    # non-minimal encodings decode to the same value; negative zero is zero
    for e, v in {"00": 0, "80": 0, "0000": 0, "0080": 0, "0100": 1, "0180": -1, "01000000": 1, "ff000000": 255, "0000000080": 0,
                 "ffffffff80": -4294967295}.items():
        assert set_vch(h(e)) == v, e
        assert not is_minimal(h(e)) or e == "ffffffff80"
    for bad in (h("0000000000"), h("0100000000")):
        try:
            scriptnum(bad)
            raise AssertionError("5-byte operand accepted")
        except ScriptNumError:
            pass
    assert scriptnum(h("ffffffff00"), 5) == 4294967295
    # CastToBool
    for e, v in {"": False, "00": False, "80": False, "0000": False, "0080": False, "000080": False, "01": True, "81": True, "8000": True,
                 "0001": True, "800000": True, "0100": True, "00" * 20: False, "00" * 19 + "80": False, "80" + "00" * 19: True}.items():
        assert cast_to_bool(h(e)) is v, e

    A, B, C, D, E, F = b"\x0a", b"\x0b", b"\x0c", b"\x0d", b"\x0e", b"\x0f"
    t = TxCtx

    def one(op, stack, exp_ok, exp_stack=None, alt=None, exp_alt=None, ctx=None):
        s, a = list(stack), list(alt or [])
        ok = step(op, s, a, ctx or TxCtx())
        assert ok is exp_ok, ("step ok", op, stack, ok)
        if ok:
            assert s == exp_stack, ("step stack", op, stack, s, exp_stack)
            assert a == (exp_alt if exp_alt is not None else list(alt or [])), ("step alt", op, a)

    # stack opcodes (comments of interpreter.cpp)
    one(OP_2ROT, [A, B, C, D, E, F], True, [C, D, E, F, A, B])       # moves, depth stays 6
    one(OP_2ROT, [b"z", A, B, C, D, E, F], True, [b"z", C, D, E, F, A, B])
    one(OP_2ROT, [A, B, C, D, E], False)
    one(OP_2SWAP, [A, B, C, D], True, [C, D, A, B])
    one(OP_2OVER, [A, B, C, D], True, [A, B, C, D, A, B])
    one(OP_2DUP, [A, B], True, [A, B, A, B])
    one(OP_3DUP, [A, B, C], True, [A, B, C, A, B, C])
    one(OP_2DROP, [A, B, C], True, [A])
    one(OP_ROT, [A, B, C], True, [B, C, A])
    one(OP_SWAP, [A, B], True, [B, A])
    one(OP_TUCK, [A, B], True, [B, A, B])
    one(OP_TUCK, [C, A, B], True, [C, B, A, B])
    one(OP_NIP, [A, B], True, [B])
    one(OP_OVER, [A, B], True, [A, B, A])
    one(OP_DUP, [], False)
    one(OP_IFDUP, [b"\x80"], True, [b"\x80"])
    one(OP_IFDUP, [b"\x00\x80"], True, [b"\x00\x80"])
    one(OP_IFDUP, [b"\x80\x00"], True, [b"\x80\x00", b"\x80\x00"])
    one(OP_DEPTH, [A, B], True, [A, B, b"\x02"])
    one(OP_DEPTH, [], True, [b""])
    one(OP_SIZE, [b""], True, [b"", b""])
    one(OP_SIZE, [b"\x00" * 128], True, [b"\x00" * 128, b"\x80\x00"])
    one(OP_PICK, [A, B, C, _n(2)], True, [A, B, C, A])
    one(OP_PICK, [A, B, C, _n(0)], True, [A, B, C, C])
    one(OP_PICK, [A, B, C, _n(3)], False)
    one(OP_PICK, [A, B, C, _n(-1)], False)                            # negative operand fails
    one(OP_PICK, [A, B, C, _n(-2)], False)
    one(OP_PICK, [_n(0)], False)
    one(OP_PICK, [A, b"\x00\x00\x00\x00\x00"], False)                 # 5-byte operand: script number overflow
    one(OP_PICK, [A, b"\x00\x00"], True, [A, A])                      # non-minimal operand is consensus-valid
    one(OP_ROLL, [A, B, C, _n(2)], True, [B, C, A])
    one(OP_ROLL, [A, B, C, _n(0)], True, [A, B, C])
    one(OP_ROLL, [A, B, C, _n(1)], True, [A, C, B])
    one(OP_ROLL, [A, B, C, _n(3)], False)
    one(OP_ROLL, [A, B, C, _n(-1)], False)                            # negative operand fails
    one(OP_ROLL, [A, B, C, b"\x80"], True, [A, B, C])                 # negative zero is zero
    one(OP_TOALTSTACK, [A, B], True, [A], alt=[C], exp_alt=[C, B])
    one(OP_FROMALTSTACK, [A], True, [A, C], alt=[B, C], exp_alt=[B])
    one(OP_FROMALTSTACK, [A], False, alt=[])
    # verify / return / equal
    one(OP_VERIFY, [A, b"\x01"], True, [A])
    one(OP_VERIFY, [A, b"\x80"], False)
    one(OP_VERIFY, [A, b""], False)
    one(OP_VERIFY, [], False)
    one(OP_RETURN, [b"\x01"], False)
    one(OP_EQUAL, [A, A], True, [b"\x01"])
    one(OP_EQUAL, [b"\x00", b""], True, [b""])                        # byte-wise, not numeric
    one(OP_EQUALVERIFY, [C, A, A], True, [C])
    one(OP_EQUALVERIFY, [A, B], False)
    # arithmetic
    one(OP_1ADD, [_n(-1)], True, [b""])
    one(OP_1ADD, [_n(2147483647)], True, [_n(2147483648)])            # result may be 5 bytes
    one(OP_1ADD, [_n(2147483648)], False)                             # ... but cannot be an operand
    one(OP_1SUB, [b""], True, [b"\x81"])
    one(OP_NEGATE, [b"\x80"], True, [b""])
    one(OP_NEGATE, [_n(5)], True, [_n(-5)])
    one(OP_ABS, [_n(-2147483647)], True, [_n(2147483647)])
    one(OP_NOT, [b"\x00"], True, [b"\x01"])
    one(OP_NOT, [b"\x02"], True, [b""])
    one(OP_0NOTEQUAL, [b"\x00\x80"], True, [b""])
    one(OP_0NOTEQUAL, [_n(-7)], True, [b"\x01"])
    one(OP_ADD, [_n(2147483647), _n(2147483647)], True, [_n(4294967294)])
    one(OP_ADD, [b"\x01\x00", b"\x01\x00\x00\x00"], True, [b"\x02"])  # non-minimal operands accepted, result minimal
    one(OP_SUB, [_n(5), _n(3)], True, [_n(2)])                        # a b -- a-b
    one(OP_SUB, [_n(3), _n(5)], True, [_n(-2)])
    one(OP_SUB, [_n(3)], False)
    one(OP_BOOLAND, [_n(2), _n(-3)], True, [b"\x01"])
    one(OP_BOOLAND, [_n(2), b"\x80"], True, [b""])
    one(OP_BOOLOR, [b"", b"\x00"], True, [b""])
    one(OP_BOOLOR, [b"", _n(9)], True, [b"\x01"])
    one(OP_NUMEQUAL, [b"\x01", b"\x01\x00"], True, [b"\x01"])         # numeric, not byte-wise
    one(OP_NUMEQUALVERIFY, [A, _n(7), _n(7)], True, [A])
    one(OP_NUMEQUALVERIFY, [_n(7), _n(8)], False)
    one(OP_NUMNOTEQUAL, [_n(7), _n(8)], True, [b"\x01"])
    one(OP_LESSTHAN, [_n(3), _n(5)], True, [b"\x01"])                 # a b -- a<b
    one(OP_LESSTHAN, [_n(5), _n(3)], True, [b""])
    one(OP_LESSTHAN, [_n(5), _n(5)], True, [b""])
    one(OP_GREATERTHAN, [_n(5), _n(3)], True, [b"\x01"])
    one(OP_LESSTHANOREQUAL, [_n(5), _n(5)], True, [b"\x01"])
    one(OP_LESSTHANOREQUAL, [_n(6), _n(5)], True, [b""])
    one(OP_GREATERTHANOREQUAL, [_n(5), _n(5)], True, [b"\x01"])
    one(OP_GREATERTHANOREQUAL, [_n(4), _n(5)], True, [b""])
    one(OP_MIN, [_n(3), _n(-5)], True, [_n(-5)])
    one(OP_MIN, [b"\x03\x00", _n(5)], True, [_n(3)])
    one(OP_MAX, [_n(3), _n(-5)], True, [_n(3)])
    one(OP_WITHIN, [_n(3), _n(2), _n(5)], True, [b"\x01"])            # x min max: min <= x < max
    one(OP_WITHIN, [_n(2), _n(2), _n(5)], True, [b"\x01"])
    one(OP_WITHIN, [_n(5), _n(2), _n(5)], True, [b""])
    one(OP_WITHIN, [_n(1), _n(2), _n(5)], True, [b""])
    one(OP_WITHIN, [_n(2), _n(5)], False)
    one(OP_ADD, [_n(1), b"\x01\x00\x00\x00\x00"], False)
    # constants, nops, hashes
    one(OP_0, [], True, [b""])
    one(OP_1NEGATE, [], True, [b"\x81"])
    one(OP_16, [A], True, [A, b"\x10"])
    one(b"\x00", [], True, [b"\x00"])
    for nop in NOPS:
        one(nop, [A], True, [A])
    one(OP_RESERVED, [A], False)
    one(OP_VER, [A], False)
    one(OP_SHA256, [b""], True, [sha256(b"")])
    one(OP_HASH160, [b"hello world"], True, [h("d7d5ee7824ff93f94c3055af9382c86c68b5ca92")])
    one(OP_RIPEMD160, [b"abc"], True, [h("8eb208f7e05d987a9b044a8e98c6b087f15a0bfc")])
    one(OP_SHA1, [], False)

    # BIP65
    CL = OP_CHECKLOCKTIMEVERIFY
    one(CL, [_n(100)], True, [_n(100)], ctx=t(100, 0, 1))             # operand == locktime passes, stack untouched
    one(CL, [_n(101)], False, ctx=t(100, 0, 1))
    one(CL, [_n(100)], False, ctx=t(100, 0xFFFFFFFF, 1))              # final sequence
    one(CL, [_n(100)], True, [_n(100)], ctx=t(100, 0xFFFFFFFE, 1))
    one(CL, [_n(499999999)], False, ctx=t(500000000, 0, 1))           # type mismatch (height vs time)
    one(CL, [_n(500000000)], False, ctx=t(499999999, 0, 1))
    one(CL, [_n(500000000)], True, [_n(500000000)], ctx=t(500000000, 0, 1))
    one(CL, [_n(-1)], False, ctx=t(100, 0, 1))
    one(CL, [b"\x80"], True, [b"\x80"], ctx=t(100, 0, 1))             # negative zero == 0
    one(CL, [], False, ctx=t(100, 0, 1))
    one(CL, [_n(4294967295)], True, [_n(4294967295)], ctx=t(4294967295, 0, 1))   # 5-byte operand
    one(CL, [_n(4294967295)], False, ctx=t(4294967294, 0, 1))
    one(CL, [_n(4294967296)], False, ctx=t(4294967295, 0, 1))
    one(CL, [b"\x01\x00\x00\x00\x00\x00"], False, ctx=t(100, 0, 1))   # 6-byte operand: overflow
    one(CL, [b"\x01\x00\x00\x00\x00"], True, [b"\x01\x00\x00\x00\x00"], ctx=t(100, 0, 1))
    # BIP112
    CS = OP_CHECKSEQUENCEVERIFY
    one(CS, [_n(10)], True, [_n(10)], ctx=t(0, 10, 2))
    one(CS, [_n(11)], False, ctx=t(0, 10, 2))
    one(CS, [_n(10)], False, ctx=t(0, 10, 1))                         # version < 2
    one(CS, [_n(10)], True, [_n(10)], ctx=t(0, 10, 0xFFFFFFFF))       # version is compared unsigned
    one(CS, [_n(10)], False, ctx=t(0, 10 | (1 << 31), 2))             # tx input opted out
    one(CS, [_n(10 | (1 << 22))], False, ctx=t(0, 10, 2))             # type mismatch
    one(CS, [_n(10)], False, ctx=t(0, 10 | (1 << 22), 2))
    one(CS, [_n(10 | (1 << 22))], True, [_n(10 | (1 << 22))], ctx=t(0, 11 | (1 << 22), 2))
    one(CS, [_n(10 | (1 << 16))], True, [_n(10 | (1 << 16))], ctx=t(0, 10, 2))   # bits outside the mask are ignored
    one(CS, [_n(1 << 31)], True, [_n(1 << 31)], ctx=t(0, 0xFFFFFFFF, 1))         # disable flag in operand: NOP
    one(CS, [_n((1 << 31) | 5)], True, [_n((1 << 31) | 5)], ctx=t(0, 0, 2))
    one(CS, [_n(4294967295)], True, [_n(4294967295)], ctx=t(0, 0, 0))
    one(CS, [_n(-1)], False, ctx=t(0, 10, 2))
    one(CS, [_n(-(1 << 31))], False, ctx=t(0, 10, 2))                 # negative is tested before the flag
    one(CS, [], False, ctx=t(0, 10, 2))
    one(CS, [b"\x80"], True, [b"\x80"], ctx=t(0, 0, 2))

    # whole scripts
    def prog(cmds, exp, ctx=None):
        got = verify(cmds, ctx)
        assert got is exp, ("verify", cmds, got)

    prog([], False)
    prog([OP_1], True)
    prog([OP_0], False)
    prog([b"\x00"], False)
    prog([b"\x80"], False)                                            # negative zero on top is false
    prog([b"\x00\x80"], False)
    prog([b"\x80\x00"], True)
    prog([b"\x00\x01"], True)
    prog([OP_1, OP_IF, OP_2, OP_ELSE, OP_0, OP_ENDIF], True)
    prog([OP_0, OP_IF, OP_2, OP_ELSE, OP_0, OP_ENDIF], False)
    prog([OP_0, OP_NOTIF, OP_2, OP_ELSE, OP_0, OP_ENDIF], True)
    prog([b"\x80", OP_IF, OP_0, OP_ELSE, OP_1, OP_ENDIF], True)       # negative zero is false in IF
    prog([OP_1, OP_IF, OP_0, OP_IF, OP_RETURN, OP_ELSE, OP_3, OP_ENDIF, OP_ELSE, OP_RETURN, OP_ENDIF], True)
    prog([OP_0, OP_IF, OP_IF, OP_RETURN, OP_ELSE, OP_RETURN, OP_ENDIF, OP_ELSE, OP_5, OP_ENDIF], True)   # nested IF in a dead branch reads nothing
    prog([OP_1, OP_IF, OP_0, OP_ELSE, OP_0, OP_ELSE, OP_1, OP_ENDIF], True)    # script_tests.json: multiple ELSEs toggle
    prog([OP_0, OP_IF, OP_0, OP_ELSE, OP_0, OP_ELSE, OP_1, OP_ENDIF], False)
    prog([OP_1, OP_IF, OP_1, OP_ELSE, OP_ELSE, OP_ENDIF], True)
    prog([OP_0, OP_IF, OP_RESERVED, OP_ENDIF, OP_1], True)            # unexecuted bad opcode is fine
    prog([OP_0, OP_IF, OP_VERIF, OP_ENDIF, OP_1], False)              # ... but VERIF is not
    prog([OP_IF, OP_1, OP_ENDIF], False)                              # IF on an empty stack
    prog([OP_1, OP_IF, OP_1], False)                                  # unbalanced
    prog([OP_1, OP_ENDIF], False)
    prog([OP_1, OP_ELSE, OP_ENDIF], False)
    prog([OP_1, OP_RETURN], False)
    prog([OP_1, OP_0, OP_IF, OP_RETURN, OP_ENDIF], True)
    prog([OP_1, OP_2, OP_3, OP_4, OP_5, OP_6, OP_2ROT, OP_DEPTH, OP_6, OP_NUMEQUALVERIFY, OP_2, OP_EQUALVERIFY, OP_1, OP_EQUAL], True)
    prog([OP_1, OP_TOALTSTACK, OP_0, OP_FROMALTSTACK], True)
    prog([OP_1, OP_FROMALTSTACK], False)
    prog([OP_2, OP_3, OP_ADD, OP_5, OP_NUMEQUAL], True)
    prog([_n(100), OP_CHECKLOCKTIMEVERIFY, OP_DROP, OP_1], True, t(100, 0, 1))
    prog([_n(100), OP_CHECKLOCKTIMEVERIFY, OP_DROP, OP_1], False, t(99, 0, 1))
    prog([_n(1 << 31), OP_CHECKSEQUENCEVERIFY], True, t(0, 0xFFFFFFFF, 1))
    prog([OP_0, OP_CHECKSEQUENCEVERIFY, OP_1], True, t(0, 0, 2))
    prog([b"x" * 521, OP_1], False)
    prog([OP_0, OP_IF, b"x" * 521, OP_ENDIF, OP_1], False)            # oversized push fails even unexecuted
    prog([OP_1] + [OP_NOP] * 201, True)
    prog([OP_1] + [OP_NOP] * 202, False)                              # > 201 non-push opcodes
    ok, st, al = run([OP_1, OP_2, OP_TOALTSTACK])
    assert (ok, st, al) == (True, [b"\x01"], [b"\x02"])
    assert well_formed([OP_IF, OP_IF, OP_ELSE, OP_ENDIF, OP_ELSE, OP_ENDIF]) and well_formed([OP_IF, OP_ELSE, OP_ELSE, OP_ENDIF]) and not well_formed([OP_ELSE, OP_IF, OP_ENDIF])
    assert not well_formed([OP_IF]) and not well_formed([OP_ENDIF])
    return True
