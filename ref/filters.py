"""Reference SipHash-2-4, MurmurHash3 (x86, 32 bit), BIP158 Golomb-coded sets, BIP157 filter
hash / header chain, BIP37 bloom filter.

Written from the SipHash paper (Aumasson, Bernstein), Appleby's MurmurHash3 description,
BIP158, BIP157 and BIP37.  Never imports buidl.
"""
import hashlib
import struct

M64 = 0xFFFFFFFFFFFFFFFF
M32 = 0xFFFFFFFF

GCS_P = 19
GCS_M = 784931
BIP37_CONSTANT = 0xFBA4C795
MAX_BLOOM_FILTER_SIZE = 36000
MAX_HASH_FUNCS = 50


def hash256(b):
    return hashlib.sha256(hashlib.sha256(b).digest()).digest()


# ---- SipHash-2-4 --------------------------------------------------------------------------
def _rotl64(x, b):
    return ((x << b) | (x >> (64 - b))) & M64


def siphash24(key, msg):
    """64-bit SipHash-2-4 of `msg` under the 16-byte `key`, as an integer."""
    if len(key) != 16:
        raise ValueError("key is 16 bytes")
    k0, k1 = struct.unpack("<QQ", key)
    v0 = k0 ^ 0x736F6D6570736575
    v1 = k1 ^ 0x646F72616E646F6D
    v2 = k0 ^ 0x6C7967656E657261
    v3 = k1 ^ 0x7465646279746573

    def rounds(n, v0, v1, v2, v3):
        for _ in range(n):
            v0 = (v0 + v1) & M64
            v1 = _rotl64(v1, 13)
            v1 ^= v0
            v0 = _rotl64(v0, 32)
            v2 = (v2 + v3) & M64
            v3 = _rotl64(v3, 16)
            v3 ^= v2
            v0 = (v0 + v3) & M64
            v3 = _rotl64(v3, 21)
            v3 ^= v0
            v2 = (v2 + v1) & M64
            v1 = _rotl64(v1, 17)
            v1 ^= v2
            v2 = _rotl64(v2, 32)
        return v0, v1, v2, v3

    n = len(msg)
    full = n - (n % 8)
    for off in range(0, full, 8):
        m = int.from_bytes(msg[off : off + 8], "little")
        v3 ^= m
        v0, v1, v2, v3 = rounds(2, v0, v1, v2, v3)
        v0 ^= m
    last = (n & 0xFF) << 56
    last |= int.from_bytes(msg[full:], "little")
    v3 ^= last
    v0, v1, v2, v3 = rounds(2, v0, v1, v2, v3)
    v0 ^= last
    v2 ^= 0xFF
    v0, v1, v2, v3 = rounds(4, v0, v1, v2, v3)
    return v0 ^ v1 ^ v2 ^ v3


# ---- MurmurHash3 x86_32 -------------------------------------------------------------------
def _rotl32(x, r):
    return ((x << r) | (x >> (32 - r))) & M32


def murmur3(data, seed=0):
    c1, c2 = 0xCC9E2D51, 0x1B873593
    h = seed & M32
    n = len(data)
    nblocks = n // 4
    for i in range(nblocks):
        k = struct.unpack_from("<I", data, 4 * i)[0]
        k = (k * c1) & M32
        k = _rotl32(k, 15)
        k = (k * c2) & M32
        h ^= k
        h = _rotl32(h, 13)
        h = (h * 5 + 0xE6546B64) & M32
    tail = data[4 * nblocks :]
    k = 0
    if len(tail) >= 3:
        k ^= tail[2] << 16
    if len(tail) >= 2:
        k ^= tail[1] << 8
    if len(tail) >= 1:
        k ^= tail[0]
        k = (k * c1) & M32
        k = _rotl32(k, 15)
        k = (k * c2) & M32
        h ^= k
    h ^= n & M32
    h ^= h >> 16
    h = (h * 0x85EBCA6B) & M32
    h ^= h >> 13
    h = (h * 0xC2B2AE35) & M32
    h ^= h >> 16
    return h


# ---- BIP158 Golomb-coded set ----------------------------------------------------------------
def compact_size(n):
    if n < 0xFD:
        return bytes([n])
    if n <= 0xFFFF:
        return b"\xfd" + struct.pack("<H", n)
    if n <= 0xFFFFFFFF:
        return b"\xfe" + struct.pack("<I", n)
    return b"\xff" + struct.pack("<Q", n)


def read_compact_size(raw, off=0):
    """-> (value, new offset); raises ValueError when truncated."""
    if off >= len(raw):
        raise ValueError("truncated")
    b = raw[off]
    width = {0xFD: 2, 0xFE: 4, 0xFF: 8}.get(b)
    if width is None:
        return b, off + 1
    if off + 1 + width > len(raw):
        raise ValueError("truncated")
    return int.from_bytes(raw[off + 1 : off + 1 + width], "little"), off + 1 + width


def hash_to_range(key, element, f):
    """BIP158: (siphash(k, element) * F) >> 64."""
    return (siphash24(key, element) * f) >> 64


def hashed_set(key, elements, m=GCS_M):
    """Sorted list (duplicates kept) of the range values of the N given elements."""
    f = len(elements) * m
    return sorted(hash_to_range(key, e, f) for e in elements)


def golomb_bits(x, p=GCS_P):
    """Golomb-Rice code of x: quotient in unary (ones, then a zero), remainder in p bits, MSB first."""
    q = x >> p
    out = [1] * q + [0]
    for i in range(p - 1, -1, -1):
        out.append((x >> i) & 1)
    return out


class BitWriter:
    def __init__(self):
        self.acc = 0
        self.n = 0

    def write(self, bits):
        for b in bits:
            self.acc = (self.acc << 1) | (1 if b else 0)
            self.n += 1

    def tobytes(self):
        pad = (-self.n) % 8
        return (self.acc << pad).to_bytes((self.n + pad) // 8, "big")


def pack_bits(bits):
    w = BitWriter()
    w.write(bits)
    return w.tobytes()


def unpack_bits(raw):
    return [(byte >> (7 - i)) & 1 for byte in raw for i in range(8)]


def gcs_from_values(sorted_values, p=GCS_P):
    """Serialised filter (CompactSize N || Golomb-Rice coded deltas) of an already sorted value list."""
    w = BitWriter()
    last = 0
    for v in sorted_values:
        w.write(golomb_bits(v - last, p))
        last = v
    return compact_size(len(sorted_values)) + w.tobytes()


def gcs_encode(key, elements, p=GCS_P, m=GCS_M):
    return gcs_from_values(hashed_set(key, elements, m), p)


def gcs_decode(raw, p=GCS_P):
    """-> (N, sorted values with duplicates, number of bits used).  ValueError when truncated."""
    n, off = read_compact_size(raw)
    body = raw[off:]
    total_bits = len(body) * 8
    acc = int.from_bytes(body, "big")
    pos = 0

    def bit():
        nonlocal pos
        if pos >= total_bits:
            raise ValueError("truncated")
        b = (acc >> (total_bits - 1 - pos)) & 1
        pos += 1
        return b

    values = []
    cur = 0
    for _ in range(n):
        q = 0
        while bit():
            q += 1
        r = 0
        for _ in range(p):
            r = (r << 1) | bit()
        cur += (q << p) + r
        values.append(cur)
    return n, values, pos


def gcs_match(key, raw, element, p=GCS_P, m=GCS_M):
    n, values, _ = gcs_decode(raw, p)
    return hash_to_range(key, element, n * m) in set(values)


def filter_hash(filter_bytes):
    return hash256(filter_bytes)


def filter_header(filter_hash_, prev_header):
    """BIP157: double-SHA256(filter_hash || previous_header)."""
    return hash256(filter_hash_ + prev_header)


def header_chain(prev_header, filter_hashes):
    cur = prev_header
    for fh in filter_hashes:
        cur = filter_header(fh, cur)
    return cur


# ---- BIP37 bloom filter ---------------------------------------------------------------------
def bloom_bit_positions(item, size_bytes, nfuncs, tweak):
    out = []
    for i in range(nfuncs):
        seed = (i * BIP37_CONSTANT + tweak) & M32
        out.append(murmur3(item, seed) % (size_bytes * 8))
    return out


def bloom_insert(vdata, item, nfuncs, tweak):
    """vdata: bytearray.  Bit n is bit (n & 7) of byte n >> 3."""
    for pos in bloom_bit_positions(item, len(vdata), nfuncs, tweak):
        vdata[pos >> 3] |= 1 << (pos & 7)


def bloom_contains(vdata, item, nfuncs, tweak):
    return all(vdata[pos >> 3] & (1 << (pos & 7)) for pos in bloom_bit_positions(item, len(vdata), nfuncs, tweak))


def filterload_payload(vdata, nfuncs, tweak, flags):
    return compact_size(len(vdata)) + bytes(vdata) + struct.pack("<IIB", nfuncs, tweak, flags)


# ---- self check against published vectors -----------------------------------------------------
# The 64 vectors of the SipHash reference implementation (key 00..0f, message 00..(n-1)), digest as LE bytes
_SIP_VECTORS = (
    "310e0edd47db6f72 fd67dc93c539f874 5a4fa9d909806c0d 2d7efbd796666785 b7877127e09427cf 8da699cd64557618 "
    "cee3fe586e46c9cb 37d1018bf50002ab 6224939a79f5f593 b0e4a90bdf82009e f3b9dd94c5bb5d7a a7ad6b22462fb3f4 "
    "fbe50e86bc8f1e75 903d84c02756ea14 eef27a8e90ca23f7 e545be4961ca29a1 db9bc2577fcc2a3f 9447be2cf5e99a69 "
    "9cd38d96f0b3c14b bd6179a71dc96dbb 98eea21af25cd6be c7673b2eb0cbf2d0 883ea3e395675393 c8ce5ccd8c030ca8 "
    "94af49f6c650adb8 eab8858ade92e1bc f315bb5bb835d817 adcf6b0763612e2f a5c91da7acaa4dde 716595876650a2a6 "
    "28ef495c53a387ad 42c341d8fa92d832 ce7cf2722f512771 e37859f94623f3a7 381205bb1ab0e012 ae97a10fd434e015 "
    "b4a31508beff4d31 81396229f0907902 4d0cf49ee5d4dcca 5c73336a76d8bf9a d0a704536ba93e0e 925958fcd6420cad "
    "a915c29bc8067318 952b79f3bc0aa6d4 f21df2e41d4535f9 87577519048f53a9 10a56cf5dfcd9adb eb75095ccd986cd0 "
    "51a9cb9ecba312e6 96afadfc2ce666c7 72fe52975a4364ee 5a1645b276d592a1 b274cb8ebf87870a 6f9bb4203de7b381 "
    "eaecb2a30b22a87f 9924a43cc1315724 bd838d3aafbf8db7 0b1a2a3265d51aea 135079a3231ce660 932b2846e4d70666 "
    "e1915f5cb1eca46c f325965ca16d629f 575ff28e60381be5 724506eb4c328a95"
).split()

# MurmurHash3 vectors of Bitcoin Core's hash_tests.cpp: (expected, seed, data hex)
_MURMUR_VECTORS = (
    (0x00000000, 0x00000000, ""),
    (0x6A396F08, 0xFBA4C795, ""),
    (0x81F16F39, 0xFFFFFFFF, ""),
    (0x514E28B7, 0x00000000, "00"),
    (0xEA3F0B17, 0xFBA4C795, "00"),
    (0xFD6CF10D, 0x00000000, "ff"),
    (0x16C6B7AB, 0x00000000, "0011"),
    (0x8EB51C3D, 0x00000000, "001122"),
    (0xB4471BF8, 0x00000000, "00112233"),
    (0xE2301FA8, 0x00000000, "0011223344"),
    (0xFC2E4A15, 0x00000000, "001122334455"),
    (0xB074502C, 0x00000000, "00112233445566"),
    (0x8034D2A0, 0x00000000, "0011223344556677"),
    (0xB4698DEF, 0x00000000, "001122334455667788"),
)

# BIP158 testnet vectors (block hash, element scripts = previous output scripts + non-OP_RETURN outputs,
# expected basic filter, previous header, expected header); quoted in the repository's test_compactfilter
_BIP158 = (
    (
        "000000000933ea01ad0ee984209779baaec3ced90fa3f408719526f8d77f4943",
        [
            "4104678afdb0fe5548271967f1a67130b7105cd6a828e03909a67962e0ea1f61deb649f6bc3f4cef38c4f35504e51ec112de5c38"
            "4df7ba0b8d578a4c702b6bf11d5fac"
        ],
        "019dfca8",
        "0000000000000000000000000000000000000000000000000000000000000000",
        "21584579b7eb08997773e5aeff3a7f932700042d0ed2a6129012b7d7ae81b750",
    ),
    (
        "000000006c02c8ea6e4ff69651f7fcde348fb9d557a06e6957b65552002a7820",
        ["21038a7f6ef1c8ca0c588aa53fa860128077c9e6c11e6830f4d7ee4e763a56b7718fac"],
        "0174a170",
        "d7bdac13a59d745b1add0d2ce852f1a0442e8945fc1bf3848d3cbffd88c24fe1",
        "186afd11ef2b5e7e3504f2e8cbf8df28a1fd251fe53d60dff8b1467d1b386cf0",
    ),
    (
        "000000008b896e272758da5297bcd98fdc6d97c9b765ecec401e286dc1fdbe10",
        ["2103f6d9ff4c12959445ca5549c811683bf9c88e637b222dd2e0311154c4c85cf423ac"],
        "016cf7a0",
        "186afd11ef2b5e7e3504f2e8cbf8df28a1fd251fe53d60dff8b1467d1b386cf0",
        "8d63aadf5ab7257cb6d2316a57b16f517bff1c6388f124ec4c04af1212729d2a",
    ),
    (
        "0000000018b07dca1b28b4b5a119f6d6e71698ce1ed96f143f54179ce177a19c",
        [
            "5221033423007d8f263819a2e42becaaf5b06f34cb09919e06304349d950668209eaed21021d69e2b68c3960903b702af7829fadcd80bd89b158150c85c4a75b2c8cb9c39452ae",
            "52210279be667ef9dcbbac55a06295ce870b07029bfcdb2dce28d959f2815b16f8179821021d69e2b68c3960903b702af7829fadcd80bd89b158150c85c4a75b2c8cb9c39452ae",
            "522102a7ae1e0971fc1689bd66d2a7296da3a1662fd21a53c9e38979e0f090a375c12d21022adb62335f41eb4e27056ac37d462cda5ad783fa8e0e526ed79c752475db285d52ae",
            "52210279be667ef9dcbbac55a06295ce870b07029bfcdb2dce28d959f2815b16f8179821022adb62335f41eb4e27056ac37d462cda5ad783fa8e0e526ed79c752475db285d52ae",
            "512103b9d1d0e2b4355ec3cdef7c11a5c0beff9e8b8d8372ab4b4e0aaf30e80173001951ae",
            "76a9149144761ebaccd5b4bbdc2a35453585b5637b2f8588ac",
            "522103f1848b40621c5d48471d9784c8174ca060555891ace6d2b03c58eece946b1a9121020ee5d32b54d429c152fdc7b1db84f2074b0564d35400d89d11870f9273ec140c52ae",
            "76a914f4fa1cc7de742d135ea82c17adf0bb9cf5f4fb8388ac",
            "2102971dd6034ed0cf52450b608d196c07d6345184fcb14deb277a6b82d526a6163dac",
            "76a91445db0b779c0b9fa207f12a8218c94fc77aff504588ac",
        ],
        "0afbc2920af1b027f31f87b592276eb4c32094bb4d3697021b4c6380",
        "ed47705334f4643892ca46396eb3f4196a5e30880589e4009ef38eae895d4a13",
        "b6d98692cec5145f67585f3434ec3c2b3030182e1cb3ec58b855c5c164dfaaa3",
    ),
    (
        "000000006f27ddfe1dd680044a34548f41bed47eba9e6f0b310da21423bc5f33",
        [
            "002027a5000c7917f785d8fc6e5a55adfca8717ecb973ebb7743849ff956d896a7ed",
            "76a914f2c25ac3d59f3d674b1d1d0a25c27339aaac0ba688ac",
            "001446c29eabe8208a33aa1023c741fa79aa92e881ff",
        ],
        "0385acb4f0fe889ef0",
        "a4a4d6c6034da8aa06f01fe71f1fffbd79e032006b07f6c7a2c60a66aa310c01",
        "3588f34fbbc11640f9ed40b2a66a4e096215d50389691309c1dac74d4268aa81",
    ),
)


def selfcheck():
    key = bytes(range(16))
    msg = bytes(range(64))
    for i, want in enumerate(_SIP_VECTORS):
        assert struct.pack("<Q", siphash24(key, msg[:i])).hex() == want, i
    assert len(_SIP_VECTORS) == 64
    # vectors of Bitcoin Core's hash_tests / BIP158 reference
    assert siphash24(key, b"") == 0x726FDB47DD0E0E31
    assert siphash24(key, b"\x00") == 0x74F839C593DC67FD
    assert siphash24(b"\x00" * 16, b"Hello world") == 0xC9E8A3021F3822D9
    assert siphash24(b"\x00" * 16, b"") == 0x1E924B9D737700D7
    assert siphash24(b"\x00" * 16, b"12345678123") == 0xF95D77CCDB0649F
    assert siphash24(b"0123456789ABCDEF", b"a") == 12398370950267227270
    for want, seed, hx in _MURMUR_VECTORS:
        assert murmur3(bytes.fromhex(hx), seed) == want, (hex(want), hx)
    # Golomb-Rice vectors (x, p, packed) quoted in test_compactfilter
    for x, p, want in (
        (0, 2, "00"), (1, 2, "20"), (2, 2, "40"), (3, 2, "60"), (4, 2, "80"), (5, 2, "90"), (6, 2, "a0"), (7, 2, "b0"),
        (8, 2, "c0"), (9, 2, "c8"), (0, 8, "0000"), (1, 8, "0080"), (2, 8, "0100"), (128, 8, "4000"), (256, 8, "8000"),
        (257, 8, "8040"),
    ):
        assert pack_bits(golomb_bits(x, p)).hex() == want, (x, p)
    assert GCS_M == int(round(1.497137 * 2**GCS_P))
    for block_hash, scripts, want_filter, prev_hdr, want_hdr in _BIP158:
        k = bytes.fromhex(block_hash)[::-1][:16]
        els = [bytes.fromhex(s) for s in scripts]
        raw = gcs_encode(k, els)
        assert raw.hex() == want_filter, block_hash
        n, values, _ = gcs_decode(raw)
        assert n == len(els) and values == hashed_set(k, els)
        assert all(gcs_match(k, raw, e) for e in els)
        hdr = filter_header(filter_hash(raw), bytes.fromhex(prev_hdr)[::-1])
        assert hdr[::-1].hex() == want_hdr, block_hash
    # values quoted in test_network for the 3-element filter
    assert set(gcs_decode(bytes.fromhex("0385acb4f0fe889ef0"))[1]) == {1341840, 1483084, 570774}
    # BIP37: Bitcoin Core bloom_create_insert_serialize (3 bytes, 5 functions, tweak 0, flags 1)
    v = bytearray(3)
    for hx in ("99108ad8ed9bb6274d3980bab5a85c048f0950c8", "b5a2c786d9ef4658287ced5914b37a1b4aa32eee", "b9300670b4c5366e95b2699e8b18bc75e5f729c5"):
        bloom_insert(v, bytes.fromhex(hx), 5, 0)
        assert bloom_contains(v, bytes.fromhex(hx), 5, 0)
    assert filterload_payload(v, 5, 0, 1).hex() == "03614e9b050000000000000001"
    # vectors quoted in test_bloomfilter (10 bytes, 5 functions, tweak 99)
    v = bytearray(10)
    bloom_insert(v, b"Hello World", 5, 99)
    assert v.hex() == "0000000a080000000140"
    bloom_insert(v, b"Goodbye!", 5, 99)
    assert v.hex() == "4000600a080000010940"
    assert filterload_payload(v, 5, 99, 1).hex() == "0a4000600a080000010940050000006300000001"
    return True
