"""Reference signature-hash algorithms: original (Satoshi), BIP143, BIP341/342.

Operates on ref.txcodec models.  `spent` is a list (one per input) of {"amount": int, "script": bytes}.
Written from the Bitcoin Core SignatureHash description and BIP143 / BIP341 / BIP342 texts.
Never imports buidl.
"""
import hashlib

from ref.txcodec import compact_size, hash256, txin_bytes, txout_bytes

SIGHASH_DEFAULT = 0
SIGHASH_ALL = 1
SIGHASH_NONE = 2
SIGHASH_SINGLE = 3
SIGHASH_ANYONECANPAY = 0x80
STANDARD_TYPES = (1, 2, 3, 0x81, 0x82, 0x83)
TAPROOT_TYPES = (0, 1, 2, 3, 0x81, 0x82, 0x83)

ONE = b"\x01" + b"\x00" * 31  # uint256 "1" as serialised by Core (little-endian)


class SighashFailure(Exception):
    """The specification says signature validation fails (no digest is defined)."""


def sha256(b):
    return hashlib.sha256(b).digest()


def tagged(tag, msg):
    t = sha256(tag.encode())
    return sha256(t + t + msg)


def varbytes(b):
    return compact_size(len(b)) + b


# ---- original algorithm -------------------------------------------------------------------------
def legacy(tx, index, script_code, hash_type):
    """32-byte digest.  script_code: raw script bytes (no OP_CODESEPARATOR handling)."""
    if index >= len(tx["ins"]):
        return ONE
    base = hash_type & 0x1F
    if base == SIGHASH_SINGLE and index >= len(tx["outs"]):
        return ONE
    acp = bool(hash_type & SIGHASH_ANYONECANPAY)
    s = tx["version"].to_bytes(4, "little")
    ins = []
    for i, txin in enumerate(tx["ins"]):
        if acp and i != index:
            continue
        seq = txin["sequence"]
        if i != index and base in (SIGHASH_NONE, SIGHASH_SINGLE):
            seq = 0
        ins.append(txin_bytes({"txid": txin["txid"], "vout": txin["vout"], "script": script_code if i == index else b"", "sequence": seq}))
    s += compact_size(len(ins)) + b"".join(ins)
    if base == SIGHASH_NONE:
        outs = []
    elif base == SIGHASH_SINGLE:
        outs = [b"\xff" * 8 + b"\x00"] * index + [txout_bytes(tx["outs"][index])]
    else:
        outs = [txout_bytes(o) for o in tx["outs"]]
    s += compact_size(len(outs)) + b"".join(outs)
    s += tx["locktime"].to_bytes(4, "little")
    s += (hash_type & 0xFFFFFFFF).to_bytes(4, "little")
    return hash256(s)


# ---- BIP143 ---------------------------------------------------------------------------------------
def bip143(tx, index, script_code, amount, hash_type):
    base = hash_type & 0x1F
    acp = bool(hash_type & SIGHASH_ANYONECANPAY)
    zero = b"\x00" * 32
    hash_prevouts = zero if acp else hash256(b"".join(i["txid"][::-1] + i["vout"].to_bytes(4, "little") for i in tx["ins"]))
    if acp or base in (SIGHASH_SINGLE, SIGHASH_NONE):
        hash_sequence = zero
    else:
        hash_sequence = hash256(b"".join(i["sequence"].to_bytes(4, "little") for i in tx["ins"]))
    if base not in (SIGHASH_SINGLE, SIGHASH_NONE):
        hash_outputs = hash256(b"".join(txout_bytes(o) for o in tx["outs"]))
    elif base == SIGHASH_SINGLE and index < len(tx["outs"]):
        hash_outputs = hash256(txout_bytes(tx["outs"][index]))
    else:
        hash_outputs = zero
    me = tx["ins"][index]
    s = tx["version"].to_bytes(4, "little") + hash_prevouts + hash_sequence
    s += me["txid"][::-1] + me["vout"].to_bytes(4, "little")
    s += varbytes(script_code)
    s += amount.to_bytes(8, "little") + me["sequence"].to_bytes(4, "little")
    s += hash_outputs + tx["locktime"].to_bytes(4, "little") + hash_type.to_bytes(4, "little")
    return hash256(s)


def p2pkh_script(h160):
    return b"\x76\xa9\x14" + h160 + b"\x88\xac"


# ---- BIP341 / BIP342 ------------------------------------------------------------------------------
def annex_of(witness):
    if len(witness) >= 2 and len(witness[-1]) > 0 and witness[-1][0] == 0x50:
        return witness[-1]
    return None


def tapleaf_hash(leaf_version, script):
    return tagged("TapLeaf", bytes([leaf_version]) + varbytes(script))


def bip341(tx, index, spent, hash_type, ext_flag=0, annex=None, leaf_hash=None, codesep_pos=0xFFFFFFFF):
    if hash_type not in TAPROOT_TYPES:
        raise SighashFailure("invalid hash_type")
    if index >= len(tx["ins"]) or len(spent) != len(tx["ins"]):
        raise SighashFailure("bad index / spent outputs")
    base = hash_type & 3
    acp = bool(hash_type & SIGHASH_ANYONECANPAY)
    s = bytes([hash_type]) + tx["version"].to_bytes(4, "little") + tx["locktime"].to_bytes(4, "little")
    if not acp:
        s += sha256(b"".join(i["txid"][::-1] + i["vout"].to_bytes(4, "little") for i in tx["ins"]))
        s += sha256(b"".join(o["amount"].to_bytes(8, "little") for o in spent))
        s += sha256(b"".join(varbytes(o["script"]) for o in spent))
        s += sha256(b"".join(i["sequence"].to_bytes(4, "little") for i in tx["ins"]))
    if base not in (SIGHASH_NONE, SIGHASH_SINGLE):
        s += sha256(b"".join(txout_bytes(o) for o in tx["outs"]))
    s += bytes([ext_flag * 2 + (1 if annex is not None else 0)])
    me = tx["ins"][index]
    if acp:
        s += me["txid"][::-1] + me["vout"].to_bytes(4, "little")
        s += spent[index]["amount"].to_bytes(8, "little") + varbytes(spent[index]["script"]) + me["sequence"].to_bytes(4, "little")
    else:
        s += index.to_bytes(4, "little")
    if annex is not None:
        s += sha256(varbytes(annex))
    if base == SIGHASH_SINGLE:
        if index >= len(tx["outs"]):
            raise SighashFailure("SIGHASH_SINGLE without matching output")
        s += sha256(txout_bytes(tx["outs"][index]))
    if ext_flag == 1:
        s += leaf_hash + b"\x00" + codesep_pos.to_bytes(4, "little")
    return tagged("TapSighash", b"\x00" + s)


# ---- dispatch on the spent output, as consensus does ------------------------------------------------
def last_push(script):
    from ref.txcodec import script_parse

    cmds, clean = script_parse(script)
    if not cmds or isinstance(cmds[-1], int):
        return None
    return cmds[-1]


def classify_spk(spk):
    if len(spk) == 25 and spk[:3] == b"\x76\xa9\x14" and spk[23:] == b"\x88\xac":
        return "p2pkh"
    if len(spk) == 23 and spk[:2] == b"\xa9\x14" and spk[22:] == b"\x87":
        return "p2sh"
    if len(spk) == 22 and spk[:2] == b"\x00\x14":
        return "p2wpkh"
    if len(spk) == 34 and spk[:2] == b"\x00\x20":
        return "p2wsh"
    if len(spk) == 34 and spk[:2] == b"\x51\x20":
        return "p2tr"
    return "other"


def dispatch(tx, index, spent, hash_type):
    """Digest for a standard spend, choosing the algorithm from the spent scriptPubKey, the redeem script in
    the scriptSig and the witness - as the consensus rules do.  Returns ("legacy"|"bip143"|"bip341", digest)."""
    spk = spent[index]["script"]
    kind = classify_spk(spk)
    txin = tx["ins"][index]
    wit = txin.get("witness", [])
    if kind == "p2wpkh":
        return "bip143", bip143(tx, index, p2pkh_script(spk[2:]), spent[index]["amount"], hash_type)
    if kind == "p2wsh":
        return "bip143", bip143(tx, index, wit[-1], spent[index]["amount"], hash_type)
    if kind == "p2tr":
        annex = annex_of(wit)
        n = len(wit) - (1 if annex is not None else 0)
        if n == 1:
            return "bip341", bip341(tx, index, spent, hash_type, 0, annex)
        script, cb = wit[n - 2], wit[n - 1]
        return "bip341", bip341(tx, index, spent, hash_type, 1, annex, tapleaf_hash(cb[0] & 0xFE, script))
    if kind == "p2sh":
        redeem = last_push(txin["script"])
        rk = classify_spk(redeem) if redeem is not None else "other"
        if rk == "p2wpkh":
            return "bip143", bip143(tx, index, p2pkh_script(redeem[2:]), spent[index]["amount"], hash_type)
        if rk == "p2wsh":
            return "bip143", bip143(tx, index, wit[-1], spent[index]["amount"], hash_type)
        return "legacy", legacy(tx, index, redeem, hash_type)
    return "legacy", legacy(tx, index, spk, hash_type)


def selfcheck():
    from ref.txcodec import decode

    # BIP143 "Native P2WPKH" example
    unsigned = bytes.fromhex(
        "0100000002fff7f7881a8099afa6940d42d1e7f6362bec38171ea3edf433541db4e4ad969f0000000000eeffffffef51e1b804cc89d182d279655c3aa89e815b1b309fe287d9b2b55d57b90ec68a0100000000ffffffff02202cb206000000001976a9148280b37df378db99f66f85c95a783a76ac7a6d5988ac9093510d000000001976a9143bde42dbee7e4dbe6a21b2d50ce2f0167faa815988ac11000000"
    )
    tx, _ = decode(unsigned)
    spk = bytes.fromhex("00141d0f172a0ecb48aee1be1f2687d2963ae33f71a1")
    d = bip143(tx, 1, p2pkh_script(spk[2:]), 600000000, 1)
    assert d.hex() == "c37af31116d1b27caf68aae9e3ac82f1477929014d5b917657d0eb49478cb670", d.hex()
    # BIP143 "P2SH-P2WPKH" example
    unsigned = bytes.fromhex(
        "0100000001db6b1b20aa0fd7b23880be2ecbd4a98130974cf4748fb66092ac4d3ceb1a54770100000000feffffff02b8b4eb0b000000001976a914a457b684d7f0d539a46a45bbc043f35b59d0d96388ac0008af2f000000001976a914fd270b1ee6abcaea97fea7ad0402e8bd8ad6d77c88ac92040000"
    )
    tx, _ = decode(unsigned)
    d = bip143(tx, 0, p2pkh_script(bytes.fromhex("79091972186c449eb1ded22b78e40d009bdf0089")), 1000000000, 1)
    assert d.hex() == "64f3b0f4dd2bb3aa1ce8566d220cc74dda9df97d8490cc81d89d735c92e59fb6", d.hex()
    # the first real P2PKH-style spend: block 170 tx, input 0 spends a P2PK output, SIGHASH_ALL
    raw = bytes.fromhex(
        "0100000001c997a5e56e104102fa209c6a852dd90660a20b2d9c352423edce25857fcd3704000000004847304402204e45e16932b8af514961a1d3a1a25fdf3f4f7732e9d624c6c61548ab5fb8cd410220181522ec8eca07de4860a4acdd12909d831cc56cbbac4622082221a8768d1d0901ffffffff0200ca9a3b00000000434104ae1a62fe09c5f51b13905f07f06b99a2f7159b2225f374cd378d71302fa28414e7aab37397f554a7df5f142c21c1b7303b8a0626f1baded5c72a704f7e6cd84cac00286bee0000000043410411db93e1dcdb8a016b49840f8c53bc1eb68a382e97b1482ecad7b148a6909a5cb2e0eaddfb84ccf9744464f82e160bfa9b8b64f9d4c03f999b8643f656b412a3ac00000000"
    )
    tx, _ = decode(raw)
    spk = bytes.fromhex("410411db93e1dcdb8a016b49840f8c53bc1eb68a382e97b1482ecad7b148a6909a5cb2e0eaddfb84ccf9744464f82e160bfa9b8b64f9d4c03f999b8643f656b412a3ac")
    z = int.from_bytes(legacy(tx, 0, spk, 1), "big")
    from ref import ec

    pub = ec.parse_sec(spk[1:66])
    r = 0x4E45E16932B8AF514961A1D3A1A25FDF3F4F7732E9D624C6C61548AB5FB8CD41
    s = 0x181522EC8ECA07DE4860A4ACDD12909D831CC56CBBAC4622082221A8768D1D09
    assert ec.ecdsa_verify(pub, z, r, s), "legacy sighash does not reproduce the block-170 signature"
    assert legacy(tx, 5, spk, 1) == ONE and legacy(tx, 0, spk, 3) != ONE
    # BIP341 wallet test vectors (keyPathSpending): sigHash for every listed input and hash type
    import json
    import os

    path = os.path.join(os.path.dirname(os.path.dirname(os.path.abspath(__file__))), "corpus", "bip341_wallet_vectors.json")
    with open(path) as f:
        vec = json.load(f)["test_p2tr_spending"]
    tx, _ = decode(bytes.fromhex(vec["given"]["rawUnsignedTx"]))
    spent = [{"amount": u["amountSats"], "script": bytes.fromhex(u["scriptPubKey"])} for u in vec["given"]["utxosSpent"]]
    seen = set()
    for inp in vec["inputSpending"]:
        i, ht = inp["given"]["txinIndex"], inp["given"]["hashType"]
        assert bip341(tx, i, spent, ht).hex() == inp["intermediary"]["sigHash"], ("bip341", i, ht)
        seen.add(ht)
    assert {0, 1, 2, 3, 0x81, 0x82, 0x83} <= seen, seen
    return True
