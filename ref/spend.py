"""Reference *authorisation analyser* for standard spends.

Given a transaction model, the spent outputs and an input index it answers: does the scriptSig/witness
of that input carry valid signatures, over the transaction as it is now, by at least m distinct keys of
the script that the spent output commits to?  It deliberately does NOT require the exact standard
layout: "authorised" is decided from which signature blobs are present and valid, so it is a sound
basis for the negative oracle ("not authorised => verification must not say valid"), and it never
calls a spend unauthorised because of harmless extra items.

Never imports buidl.
"""
import hashlib

from ref import ec, sighash as sh
from ref.txcodec import script_parse


def hash160(b):
    return hashlib.new("ripemd160", hashlib.sha256(b).digest()).digest()


def lax_der(b):
    """(r, s) from 30 len 02 rlen r 02 slen s without strictness demands; None if not even that."""
    try:
        if len(b) < 8 or b[0] != 0x30 or b[2] != 2:
            return None
        lr = b[3]
        r = int.from_bytes(b[4 : 4 + lr], "big")
        if b[4 + lr] != 2:
            return None
        ls = b[5 + lr]
        s = int.from_bytes(b[6 + lr : 6 + lr + ls], "big")
        if 6 + lr + ls > len(b):
            return None
        return r, s
    except IndexError:
        return None


def pushes(script):
    cmds, _ = script_parse(script)
    return [c for c in cmds if not isinstance(c, int)]


def ecdsa_blob_valid(blob, pub, digest_for_hashtype):
    """blob = DER || hashtype byte."""
    if len(blob) < 9:
        return False
    rs = lax_der(blob[:-1])
    if rs is None:
        return False
    try:
        z = digest_for_hashtype(blob[-1])
    except Exception:  # noqa: BLE001 - digest undefined for this hash type / index
        return False
    return ec.ecdsa_verify(pub, int.from_bytes(z, "big"), rs[0], rs[1])


def multisig_template(script):
    """(m, [sec keys]) if script is OP_m <keys> OP_n OP_CHECKMULTISIG, else None."""
    cmds, clean = script_parse(script)
    if not clean or len(cmds) < 4 or cmds[-1] != 0xAE:
        return None
    m_op, n_op = cmds[0], cmds[-2]
    if not (isinstance(m_op, int) and isinstance(n_op, int) and 0x51 <= m_op <= 0x60 and 0x51 <= n_op <= 0x60):
        return None
    keys = cmds[1:-2]
    if any(isinstance(k, int) for k in keys) or len(keys) != n_op - 0x50:
        return None
    return m_op - 0x50, [bytes(k) for k in keys]


def count_ecdsa(keys_sec, blobs, digest_fn):
    n = 0
    for k in keys_sec:
        pub = ec.parse_sec(k)
        if pub is None:
            continue
        if any(ecdsa_blob_valid(b, pub, digest_fn) for b in blobs):
            n += 1
    return n


# ---- taproot ------------------------------------------------------------------------------------
def taproot_commits(q32, script, cb):
    """BIP341 script-path commitment check."""
    if len(cb) < 33 or (len(cb) - 33) % 32 != 0 or len(cb) > 33 + 128 * 32:
        return False
    p = ec.lift_x(int.from_bytes(cb[1:33], "big"))
    if p is None:
        return False
    k = sh.tapleaf_hash(cb[0] & 0xFE, script)
    for j in range((len(cb) - 33) // 32):
        e = cb[33 + 32 * j : 65 + 32 * j]
        k = sh.tagged("TapBranch", k + e if k < e else e + k)
    t = int.from_bytes(sh.tagged("TapTweak", cb[1:33] + k), "big")
    if t >= ec.N:
        return False
    q = ec.add(p, ec.mul(t))
    return q is not None and ec.b32(q[0]) == q32 and (q[1] & 1) == (cb[0] & 1)


def tapscript_template(script):
    """(m, [xonly keys]) for <pk> CHECKSIG and <pk1> CHECKSIG <pk2> CHECKSIGADD ... <k> NUMEQUAL
    (optionally preceded by <n> CLTV/CSV DROP); None for other scripts."""
    cmds, clean = script_parse(script)
    if not clean:
        return None
    if len(cmds) >= 3 and cmds[1] in (0xB1, 0xB2) and cmds[2] == 0x75:
        cmds = cmds[3:]
    if len(cmds) == 2 and not isinstance(cmds[0], int) and len(cmds[0]) == 32 and cmds[1] == 0xAC:
        return 1, [bytes(cmds[0])]
    if len(cmds) >= 4 and cmds[-1] == 0x87 and isinstance(cmds[-2], int) and 0x51 <= cmds[-2] <= 0x60:
        body = cmds[:-2]
        keys = []
        for j in range(0, len(body), 2):
            if j + 1 >= len(body) or isinstance(body[j], int) or len(body[j]) != 32:
                return None
            if body[j + 1] != (0xAC if j == 0 else 0xBA):
                return None
            keys.append(bytes(body[j]))
        return cmds[-2] - 0x50, keys
    return None


def schnorr_blob_valid(blob, pk32, digest_for_hashtype):
    if len(blob) == 64:
        ht, sig = 0, blob
    elif len(blob) == 65 and blob[-1] != 0:
        ht, sig = blob[-1], blob[:64]
    else:
        return False
    try:
        msg = digest_for_hashtype(ht)
    except Exception:  # noqa: BLE001
        return False
    return ec.schnorr_verify(pk32, msg, sig)


# ---- the analyser -----------------------------------------------------------------------------------
def analyse(tx, spent, index):
    """Returns {"authorised": True | False | None, "kind": ..., "why": ...}.  None = outside the templates."""
    spk = spent[index]["script"]
    amount = spent[index]["amount"]
    txin = tx["ins"][index]
    wit = [bytes(x) for x in txin.get("witness", [])]
    sig_pushes = pushes(txin["script"])
    kind = sh.classify_spk(spk)

    def v0(program, where):
        if len(program) == 20:
            keys = [w for w in wit if len(w) in (33, 65) and hash160(w) == program]
            n = count_ecdsa(keys, wit, lambda ht: sh.bip143(tx, index, sh.p2pkh_script(program), amount, ht))
            return {"authorised": n >= 1, "kind": where + "p2wpkh", "why": f"{n} valid signature(s) by the committed key"}
        scripts = [w for w in wit if hashlib.sha256(w).digest() == program]
        best = None
        for ws in scripts:
            tpl = multisig_template(ws)
            if tpl is None:
                return {"authorised": None, "kind": where + "p2wsh", "why": "witness script is not a multisig template"}
            m, keys = tpl
            n = count_ecdsa(keys, wit, lambda ht, ws=ws: sh.bip143(tx, index, ws, amount, ht))
            best = max(best or 0, n - m)
            if n >= m:
                return {"authorised": True, "kind": where + "p2wsh", "why": f"{n} of required {m}"}
        return {"authorised": False, "kind": where + "p2wsh", "why": "committed witness script absent" if not scripts else "too few valid signatures"}

    if kind == "p2pkh":
        h = spk[3:23]
        keys = [p for p in sig_pushes if len(p) in (33, 65) and hash160(p) == h]
        n = count_ecdsa(keys, sig_pushes, lambda ht: sh.legacy(tx, index, spk, ht))
        return {"authorised": n >= 1, "kind": "p2pkh", "why": f"{n} valid signature(s) by the committed key"}
    if kind == "p2wpkh" or kind == "p2wsh":
        return v0(spk[2:], "")
    if kind == "p2sh":
        h = spk[2:22]
        redeems = [p for p in sig_pushes if hash160(p) == h]
        if not redeems:
            return {"authorised": False, "kind": "p2sh", "why": "committed redeem script absent"}
        for r in redeems:
            rk = sh.classify_spk(r)
            if rk in ("p2wpkh", "p2wsh"):
                res = v0(r[2:], "p2sh-")
            else:
                tpl = multisig_template(r)
                if tpl is None:
                    return {"authorised": None, "kind": "p2sh", "why": "redeem script is not a multisig template"}
                m, keys = tpl
                n = count_ecdsa(keys, sig_pushes, lambda ht, r=r: sh.legacy(tx, index, r, ht))
                res = {"authorised": n >= m, "kind": "p2sh-ms", "why": f"{n} of required {m}"}
            if res["authorised"] is not False:
                return res
        return res
    if kind == "p2tr":
        q32 = spk[2:]
        annex = sh.annex_of(wit)
        # key path: any item that is a valid signature under the output key
        if any(schnorr_blob_valid(w, q32, lambda ht: sh.bip341(tx, index, spent, ht, 0, annex)) for w in wit):
            return {"authorised": True, "kind": "p2tr-key", "why": "valid signature by the output key"}
        undecided = False
        found_commit = False
        for j in range(len(wit) - 1):
            script, cb = wit[j], wit[j + 1]
            if not taproot_commits(q32, script, cb):
                continue
            found_commit = True
            tpl = tapscript_template(script)
            if tpl is None:
                undecided = True
                continue
            m, keys = tpl
            leaf = sh.tapleaf_hash(cb[0] & 0xFE, script)
            n = sum(1 for k in keys if any(schnorr_blob_valid(w, k, lambda ht: sh.bip341(tx, index, spent, ht, 1, annex, leaf)) for w in wit))
            if n >= m:
                return {"authorised": True, "kind": "p2tr-script", "why": f"{n} of required {m}"}
        if undecided:
            return {"authorised": None, "kind": "p2tr-script", "why": "committed leaf is not a known template"}
        return {"authorised": False, "kind": "p2tr", "why": "no valid key-path signature and " + ("too few leaf signatures" if found_commit else "no committed (script, control block) pair")}
    return {"authorised": None, "kind": "other", "why": "not a standard output type"}


def selfcheck():
    from ref.txcodec import decode

    # BIP143 native P2WPKH example, fully signed: input 1 is authorised, and stops being so when an output changes
    raw = bytes.fromhex(
        "01000000000102fff7f7881a8099afa6940d42d1e7f6362bec38171ea3edf433541db4e4ad969f00000000494830450221008b9d1dc26ba6a9cb62127b02742fa9d754cd3bebf337f7a55d114c8e5cdd30be022040529b194ba3f9281a99f2b1c0a19c0489bc22ede944ccf4ecbab4cc618ef3ed01eeffffffef51e1b804cc89d182d279655c3aa89e815b1b309fe287d9b2b55d57b90ec68a0100000000ffffffff02202cb206000000001976a9148280b37df378db99f66f85c95a783a76ac7a6d5988ac9093510d000000001976a9143bde42dbee7e4dbe6a21b2d50ce2f0167faa815988ac000247304402203609e17b84f6a7d30c80bfa610b5b4542f32a8a0d5447a12fb1366d7f01cc44a0220573a954c4518331561406f90300e8f3358f51928d43c212a8caed02de67eebee0121025476c2e83188368da1ff3e292e7acafcdb3566bb0ad253f62fc70f07aeee635711000000"
    )
    tx, _ = decode(raw)
    spent = [
        {"amount": 625000000, "script": bytes.fromhex("2103c9f4836b9a4f77fc0d81f7bcb01b7f1b35916864b9476c241ce9fc198bd25432ac")},
        {"amount": 600000000, "script": bytes.fromhex("00141d0f172a0ecb48aee1be1f2687d2963ae33f71a1")},
    ]
    assert analyse(tx, spent, 1)["authorised"] is True
    tx["outs"][0]["amount"] += 1
    assert analyse(tx, spent, 1)["authorised"] is False
    tx["outs"][0]["amount"] -= 1
    spent[1]["amount"] += 1
    assert analyse(tx, spent, 1)["authorised"] is False
    assert multisig_template(bytes.fromhex("5121" + "02" * 33 + "51ae")) == (1, [b"\x02" * 33])
    assert tapscript_template(b"\x20" + b"\x01" * 32 + b"\xac") == (1, [b"\x01" * 32])
    assert tapscript_template(b"\x20" + b"\x01" * 32 + b"\xac\x20" + b"\x02" * 32 + b"\xba\x52\x87") == (2, [b"\x01" * 32, b"\x02" * 32])
    return True
