"""Reference text encodings: Base58 / Base58Check, Bech32 / Bech32m (BIP173, BIP350) with segwit
address encode/decode, bc32 (BCR-2020-004), the CBOR byte-string header (RFC 8949 major type 2),
the UR-v1 "ur:bytes" transport built from them (BCR-2020-005) and Bitcoin Core's output-descriptor
checksum (script/descriptor.cpp).

Written from the specifications.  Never imports buidl.
"""
import hashlib

# ---- Base58 / Base58Check ----------------------------------------------------------------
B58 = "123456789ABCDEFGHJKLMNPQRSTUVWXYZabcdefghijkmnopqrstuvwxyz"
_B58_IDX = {c: i for i, c in enumerate(B58)}


def sha256d(b):
    return hashlib.sha256(hashlib.sha256(b).digest()).digest()


def hash160(b):
    return hashlib.new("ripemd160", hashlib.sha256(b).digest()).digest()


def b58encode(b):
    """Each leading zero byte becomes one '1'; the rest is the big-endian number in base 58."""
    zeros = len(b) - len(b.lstrip(b"\x00"))
    n = int.from_bytes(b, "big")
    digits = []
    while n:
        n, r = divmod(n, 58)
        digits.append(B58[r])
    return "1" * zeros + "".join(reversed(digits))


def b58decode(s):
    """Inverse of b58encode; None when a character is outside the alphabet."""
    n = 0
    for c in s:
        v = _B58_IDX.get(c)
        if v is None:
            return None
        n = n * 58 + v
    ones = len(s) - len(s.lstrip("1"))
    body = n.to_bytes((n.bit_length() + 7) // 8, "big")
    return b"\x00" * ones + body


def b58check_encode(payload):
    return b58encode(payload + sha256d(payload)[:4])


def b58check_decode(s):
    """payload, or None when the string is not Base58 or its 4-byte checksum does not match."""
    raw = b58decode(s)
    if raw is None or len(raw) < 4:
        return None
    payload, chk = raw[:-4], raw[-4:]
    if sha256d(payload)[:4] != chk:
        return None
    return payload


# ---- Bech32 / Bech32m --------------------------------------------------------------------
CHARSET = "qpzry9x8gf2tvdw0s3jn54khce6mua7l"
_CH_IDX = {c: i for i, c in enumerate(CHARSET)}
BECH32_CONST = 1
BECH32M_CONST = 0x2BC830A3
BC32_CONST = 0x3FFFFFFF
_GEN = (0x3B6A57B2, 0x26508E6D, 0x1EA119FA, 0x3D4233DD, 0x2A1462B3)


def polymod(values):
    chk = 1
    for v in values:
        top = chk >> 25
        chk = ((chk & 0x1FFFFFF) << 5) ^ v
        for i in range(5):
            if (top >> i) & 1:
                chk ^= _GEN[i]
    return chk


def hrp_expand(hrp):
    return [ord(c) >> 5 for c in hrp] + [0] + [ord(c) & 31 for c in hrp]


def _checksum(prefix_values, data, const):
    pm = polymod(prefix_values + list(data) + [0] * 6) ^ const
    return [(pm >> (5 * (5 - i))) & 31 for i in range(6)]


def bech32_encode(hrp, data, const):
    return hrp + "1" + "".join(CHARSET[d] for d in list(data) + _checksum(hrp_expand(hrp), data, const))


def bech32_decode(s):
    """(hrp, data-without-checksum, const) for a valid Bech32 (const 1) or Bech32m string, else None."""
    if any(ord(c) < 33 or ord(c) > 126 for c in s):
        return None
    if s.lower() != s and s.upper() != s:
        return None
    s = s.lower()
    pos = s.rfind("1")
    if pos < 1 or pos + 7 > len(s) or len(s) > 90:
        return None
    hrp, rest = s[:pos], s[pos + 1 :]
    data = []
    for c in rest:
        v = _CH_IDX.get(c)
        if v is None:
            return None
        data.append(v)
    pm = polymod(hrp_expand(hrp) + data)
    if pm not in (BECH32_CONST, BECH32M_CONST):
        return None
    return hrp, data[:-6], pm


def convertbits(data, frombits, tobits, pad):
    acc = 0
    bits = 0
    out = []
    maxv = (1 << tobits) - 1
    for v in data:
        if v < 0 or v >> frombits:
            return None
        acc = (acc << frombits) | v
        bits += frombits
        while bits >= tobits:
            bits -= tobits
            out.append((acc >> bits) & maxv)
        acc &= (1 << bits) - 1
    if pad:
        if bits:
            out.append((acc << (tobits - bits)) & maxv)
    elif bits >= frombits or ((acc << (tobits - bits)) & maxv):
        return None
    return out


def to5(b):
    """8-bit -> 5-bit groups with zero padding (what the address encoder applies to a program)."""
    return convertbits(b, 8, 5, True)


HRP = {"mainnet": "bc", "testnet": "tb", "signet": "tb", "regtest": "bcrt"}


def segwit_encode(hrp, witver, program):
    const = BECH32_CONST if witver == 0 else BECH32M_CONST
    return bech32_encode(hrp, [witver] + to5(program), const)


def segwit_decode(addr, hrps=("bc", "tb", "bcrt")):
    """(hrp, witver, program) when addr is a valid segwit address per BIP173 + BIP350, else None."""
    dec = bech32_decode(addr)
    if dec is None:
        return None
    hrp, data, const = dec
    if hrp not in hrps or not data:
        return None
    witver = data[0]
    if witver > 16:
        return None
    prog = convertbits(data[1:], 5, 8, False)
    if prog is None or not 2 <= len(prog) <= 40:
        return None
    if witver == 0 and len(prog) not in (20, 32):
        return None
    if const != (BECH32_CONST if witver == 0 else BECH32M_CONST):
        return None
    return hrp, witver, bytes(prog)


def segwit_check(addr, hrps=("bc", "tb", "bcrt")):
    """(parsed, reason).  reason == "ok" iff segwit_decode accepts.  Otherwise the first failing rule:
    format (not a Bech32 string at all: characters, case, separator, length) / hrp / empty /
    checksum (polymod is neither constant) / wrong-constant (the other version's constant) /
    version / padding / proglen / v0len.  parsed = (hrp, witver, program-bytes) whenever those can
    still be computed (zero or non-zero padding dropped), else None."""
    if any(ord(c) < 33 or ord(c) > 126 for c in addr):
        return None, "format"
    if addr.lower() != addr and addr.upper() != addr:
        return None, "format"
    s = addr.lower()
    pos = s.rfind("1")
    if pos < 1 or pos + 7 > len(s) or len(s) > 90:
        return None, "format"
    hrp, rest = s[:pos], s[pos + 1 :]
    data = []
    for c in rest:
        v = _CH_IDX.get(c)
        if v is None:
            return None, "format"
        data.append(v)
    if hrp not in hrps:
        return None, "hrp"
    pm = polymod(hrp_expand(hrp) + data)
    body = data[:-6]
    parsed = None
    reason = "ok"
    if not body:
        return None, ("empty" if pm in (BECH32_CONST, BECH32M_CONST) else "checksum")
    witver = body[0]
    nbits = 5 * (len(body) - 1)
    val = 0
    for d in body[1:]:
        val = (val << 5) | d
    padbits = nbits % 8
    prog = (val >> padbits).to_bytes(nbits // 8, "big")
    parsed = (hrp, witver, prog)
    want = BECH32_CONST if witver == 0 else BECH32M_CONST
    if pm not in (BECH32_CONST, BECH32M_CONST):
        reason = "checksum"
    elif pm != want:
        reason = "wrong-constant"
    elif witver > 16:
        reason = "version"
    elif padbits > 4 or (val & ((1 << padbits) - 1)):
        reason = "padding"
    elif not 2 <= len(prog) <= 40:
        reason = "proglen"
    elif witver == 0 and len(prog) not in (20, 32):
        reason = "v0len"
    return parsed, reason


def witness_script_pubkey(witver, program):
    return bytes([0x50 + witver if witver else 0, len(program)]) + program


# ---- standard scriptPubKey templates <-> addresses ---------------------------------------
P2PKH_VER = {"mainnet": 0x00, "testnet": 0x6F, "signet": 0x6F, "regtest": 0x6F}
P2SH_VER = {"mainnet": 0x05, "testnet": 0xC4, "signet": 0xC4, "regtest": 0xC4}
WIF_VER = {"mainnet": 0x80, "testnet": 0xEF, "signet": 0xEF, "regtest": 0xEF}
TEMPLATES = ("p2pkh", "p2sh", "p2wpkh", "p2wsh", "p2tr")


def template_script(kind, h):
    if kind == "p2pkh":
        return b"\x76\xa9\x14" + h + b"\x88\xac"
    if kind == "p2sh":
        return b"\xa9\x14" + h + b"\x87"
    if kind == "p2wpkh":
        return b"\x00\x14" + h
    if kind == "p2wsh":
        return b"\x00\x20" + h
    if kind == "p2tr":
        return b"\x51\x20" + h
    raise KeyError(kind)


def template_hash_len(kind):
    return 20 if kind in ("p2pkh", "p2sh", "p2wpkh") else 32


def template_address(kind, h, network):
    if kind == "p2pkh":
        return b58check_encode(bytes([P2PKH_VER[network]]) + h)
    if kind == "p2sh":
        return b58check_encode(bytes([P2SH_VER[network]]) + h)
    return segwit_encode(HRP[network], 1 if kind == "p2tr" else 0, h)


def address_script(addr, network):
    """scriptPubKey of a standard address on `network`, or None."""
    sw = segwit_decode(addr, hrps=(HRP[network],))
    if sw is not None:
        return witness_script_pubkey(sw[1], sw[2])
    p = b58check_decode(addr)
    if p is not None and len(p) == 21:
        if p[0] == P2PKH_VER[network]:
            return template_script("p2pkh", p[1:])
        if p[0] == P2SH_VER[network]:
            return template_script("p2sh", p[1:])
    return None


def wif_encode(secret, compressed, network):
    return b58check_encode(bytes([WIF_VER[network]]) + secret.to_bytes(32, "big") + (b"\x01" if compressed else b""))


def wif_decode(s):
    """(secret, compressed, version byte) or None."""
    p = b58check_decode(s)
    if p is None or p[:1] not in (b"\x80", b"\xef"):
        return None
    if len(p) == 34 and p[-1] == 1:
        return int.from_bytes(p[1:33], "big"), True, p[0]
    if len(p) == 33:
        return int.from_bytes(p[1:], "big"), False, p[0]
    return None


# ---- bc32 (BCR-2020-004): bech32 without hrp/separator, polymod over [0] + data, const 0x3fffffff
def bc32_encode(b):
    data = convertbits(b, 8, 5, True)
    return "".join(CHARSET[d] for d in data + _checksum([0], data, BC32_CONST))


def bc32_decode(s):
    if s.lower() != s and s.upper() != s:
        return None
    s = s.lower()
    data = []
    for c in s:
        v = _CH_IDX.get(c)
        if v is None:
            return None
        data.append(v)
    if len(data) < 6 or polymod([0] + data) != BC32_CONST:
        return None
    out = convertbits(data[:-6], 5, 8, False)
    return None if out is None else bytes(out)


# ---- CBOR byte string (RFC 8949, major type 2) --------------------------------------------
def cbor_bytes_header(n):
    if n <= 23:
        return bytes([0x40 + n])
    if n <= 0xFF:
        return bytes([0x58, n])
    if n <= 0xFFFF:
        return b"\x59" + n.to_bytes(2, "big")
    if n <= 0xFFFFFFFF:
        return b"\x5a" + n.to_bytes(4, "big")
    return b"\x5b" + n.to_bytes(8, "big")


def cbor_encode_bytes(b):
    return cbor_bytes_header(len(b)) + b


def cbor_decode_bytes(b):
    """The byte string encoded by exactly b (definite length, no trailing bytes), else None."""
    if not b or b[0] >> 5 != 2:
        return None
    ai = b[0] & 31
    if ai <= 23:
        n, off = ai, 1
    elif ai in (24, 25, 26, 27):
        w = 1 << (ai - 24)
        if len(b) < 1 + w:
            return None
        n, off = int.from_bytes(b[1 : 1 + w], "big"), 1 + w
    else:
        return None
    if len(b) != off + n:
        return None
    return b[off:]


# ---- UR v1 "bytes" transport (BCR-2020-005) -----------------------------------------------
def ur_encode(payload, cbor_header=None):
    """(body, digest): bc32 of the CBOR-wrapped payload and bc32 of its SHA-256.
    cbor_header overrides the RFC header (used to model a non-RFC 4-byte length tag)."""
    cbor = (cbor_header if cbor_header is not None else cbor_bytes_header(len(payload))) + payload
    return bc32_encode(cbor), bc32_encode(hashlib.sha256(cbor).digest())


def ur_split(body, nparts):
    """Fragments of equal length ceil(len/nparts) (the last may be shorter)."""
    size = -(-len(body) // nparts)
    return [body[i * size : (i + 1) * size] for i in range(nparts)]


def cbor_decode_bytes_alt(b, alt_tag4=0x60):
    """cbor_decode_bytes, additionally accepting the implementation-specific first byte `alt_tag4`
    in place of 0x5a for the 4-byte length form (a known deviation modelled so that the transport
    can be followed end to end)."""
    out = cbor_decode_bytes(b)
    if out is None and len(b) >= 5 and b[0] == alt_tag4:
        out = cbor_decode_bytes(b"\x5a" + b[1:])
    return out


def ur_parse(parts, single=False, alt_tag4=0x60):
    """Strict UR-v1 "bytes" receiver.  parts: list of strings.  Returns (payload, "ok") or (None, reason).
    Rules: every part is ur:bytes/[XofY/][digest/]fragment (case-insensitive as a whole, no mixed
    requirements beyond bc32's); sequence numbers are 1..Y in list order and Y equals the number of
    parts; all digests are equal; the joined fragments are a valid bc32 string; SHA-256 of the decoded
    CBOR equals the (bc32-decoded) digest when one is present; the CBOR is exactly one byte string."""
    if not isinstance(parts, (list, tuple)) or not parts:
        return None, "structure"
    frags = []
    digest0 = None
    total = None
    for i, part in enumerate(parts):
        if not isinstance(part, str):
            return None, "structure"
        t = part.strip().lower()
        if not t.startswith("ur:bytes/"):
            return None, "prefix"
        f = t.split("/")
        if len(f) == 2:
            x, y, digest, frag = 1, 1, None, f[1]
        elif len(f) == 3:
            x, y, digest, frag = 1, 1, f[1], f[2]
        elif len(f) == 4:
            xy = f[1].split("of")
            if len(xy) != 2 or not (xy[0].isascii() and xy[0].isdigit() and xy[1].isascii() and xy[1].isdigit()):
                return None, "xofy"
            x, y, digest, frag = int(xy[0]), int(xy[1]), f[2], f[3]
        else:
            return None, "structure"
        if x != i + 1:
            return None, "order"
        if i == 0:
            digest0, total = digest, y
        elif digest != digest0:
            return None, "digest-differs-between-parts"
        elif y != total:
            return None, "count-differs-between-parts"
        if any(c not in _CH_IDX for c in frag) or (digest is not None and any(c not in _CH_IDX for c in digest)):
            return None, "charset"
        frags.append(frag)
    if total != len(parts) or (single and total != 1):
        return None, "count"
    cbor = bc32_decode("".join(frags))
    if cbor is None:
        return None, "bc32"
    if digest0 is not None:
        d = bc32_decode(digest0)
        if d is None or len(d) != 32:
            return None, "digest-format"
        if d != hashlib.sha256(cbor).digest():
            return None, "digest"
    payload = cbor_decode_bytes_alt(cbor, alt_tag4)
    if payload is None:
        return None, "cbor"
    return payload, "ok"


# ---- Bitcoin Core descriptor checksum ------------------------------------------------------
DESC_INPUT = (
    "0123456789()[],'/*abcdefgh@:$%{}"
    "IJKLMNOPQRSTUVWXYZ&+-.;<=>?!^_|~"
    "ijklmnopqrstuvwxyzABCDEFGH`#\"\\ "
)
_DESC_GEN = (0xF5DEE51989, 0xA9FDCA3312, 0x1BAB10E32D, 0x3706B1677A, 0x644D626FFD)


def _desc_polymod(c, val):
    c0 = c >> 35
    c = ((c & 0x7FFFFFFFF) << 5) ^ val
    for i in range(5):
        if (c0 >> i) & 1:
            c ^= _DESC_GEN[i]
    return c


def descriptor_checksum(text):
    """8-character checksum of a descriptor body (no '#'), or None for a character outside the set."""
    c = 1
    cls = 0
    clscount = 0
    for ch in text:
        pos = DESC_INPUT.find(ch)
        if pos < 0 or len(ch) != 1:
            return None
        c = _desc_polymod(c, pos & 31)
        cls = cls * 3 + (pos >> 5)
        clscount += 1
        if clscount == 3:
            c = _desc_polymod(c, cls)
            cls = 0
            clscount = 0
    if clscount:
        c = _desc_polymod(c, cls)
    for _ in range(8):
        c = _desc_polymod(c, 0)
    c ^= 1
    return "".join(CHARSET[(c >> (5 * (7 - j))) & 31] for j in range(8))


# ---- multisig witness script / P2WSH --------------------------------------------------------
def multisig_script(m, pubkeys):
    """m <pk1> ... <pkn> n OP_CHECKMULTISIG with 33-byte keys (1 <= m <= n <= 16)."""
    out = bytes([0x50 + m])
    for pk in pubkeys:
        out += bytes([len(pk)]) + pk
    return out + bytes([0x50 + len(pubkeys), 0xAE])


def p2wsh_address(witness_script, network):
    return segwit_encode(HRP[network], 0, hashlib.sha256(witness_script).digest())


# ---- self-check against published vectors --------------------------------------------------
def selfcheck():
    # Base58Check: genesis coinbase address, BIP13 example, WIF of secret 1, BIP32 test vector 1 master xpub
    h = bytes.fromhex("62e907b15cbf27d5425399ebf6f0fb50ebb88f18")
    assert b58check_encode(b"\x00" + h) == "1A1zP1eP5QGefi2DMPTfTL5SLmv7DivfNa"
    assert b58check_decode("1A1zP1eP5QGefi2DMPTfTL5SLmv7DivfNa") == b"\x00" + h
    assert b58check_decode("1A1zP1eP5QGefi2DMPTfTL5SLmv7DivfNb") is None
    assert b58check_decode("1A1zP1eP5QGefi2DMPTfTL5SLmv7DivfN0") is None
    assert b58check_encode(b"\x05" + bytes.fromhex("b472a266d0bd89c13706a4132ccfb16f7c3b9fcb")) == "3J98t1WpEZ73CNmQviecrnyiWrnqRhWNLy"
    assert wif_encode(1, True, "mainnet") == "KwDiBf89QgGbjEhKnhXJuH7LrciVrZi3qYjgd9M7rFU73sVHnoWn"
    assert wif_encode(1, False, "mainnet") == "5HpHagT65TZzG1PH3CSu63k8DbpvD8s5ip4nEB3kEsreAnchuDf"
    assert wif_encode(1, True, "testnet") == "cMahea7zqjxrtgAbB7LSGbcQUr1uX1ojuat9jZodMN87JcbXMTcA"
    assert wif_decode("5HpHagT65TZzG1PH3CSu63k8DbpvD8s5ip4nEB3kEsreAnchuDf") == (1, False, 0x80)
    x = b58check_decode("xpub661MyMwAqRbcFtXgS5sYJABqqG9YLmC4Q1Rdap9gSE8NqtwybGhePY2gZ29ESFjqJoCu1Rupje8YtGqsefD265TMg7usUDFdp6W1EGMcet8")
    assert x is not None and len(x) == 78 and x[:4].hex() == "0488b21e" and x[45:].hex() == "0339a36013301597daef41fbe593a02cc513d0b55527ec2df1050e2e8ff49c85c2"
    assert b58encode(b"") == "" and b58encode(b"\x00\x00\x01") == "112" and b58decode("112") == b"\x00\x00\x01"
    # from the Base58 Internet-Draft (draft-msporny-base58)
    assert b58encode(b"Hello World!") == "2NEpo7TZRRrLZSi2U"
    assert b58encode(bytes.fromhex("0000287fb4cd")) == "11233QC4"

    # BIP173 / BIP350 valid checksums
    for s in ("A12UEL5L", "a12uel5l", "abcdef1qpzry9x8gf2tvdw0s3jn54khce6mua7lmqqqxw", "?1ezyfcl",
              "split1checkupstagehandshakeupstreamerranterredcaperred2y9e3w",
              "an83characterlonghumanreadablepartthatcontainsthenumber1andtheexcludedcharactersbio1tt5tgs"):
        d = bech32_decode(s)
        assert d is not None and d[2] == BECH32_CONST, s
    for s in ("A1LQFN3A", "a1lqfn3a", "abcdef1l7aum6echk45nj3s0wdvt2fg8x9yrzpqzd3ryx", "?1v759aa",
              "split1checkupstagehandshakeupstreamerranterredcaperredlc445v"):
        d = bech32_decode(s)
        assert d is not None and d[2] == BECH32M_CONST, s
    for s in ("\x201nwldj5", "\x7f1axkwrx", "pzry9x0s0muk", "1pzry9x0s0muk", "x1b4n0q5v", "li1dgmt3", "A1G7SGD8", "10a06t8", "1qzzfhee",
              "qyrz8wqd2c9m", "1qyrz8wqd2c9m", "y1b0jsk6g", "lt1igcx5c0", "in1muywd", "mm1crxm3i", "au1s5cgom", "M1VUXWEZ", "16plkw9", "1p2gdwpf"):
        assert bech32_decode(s) is None, s
    # valid segwit addresses (BIP350 list) -> scriptPubKey
    valid = [
        ("BC1QW508D6QEJXTDG4Y5R3ZARVARY0C5XW7KV8F3T4", "0014751e76e8199196d454941c45d1b3a323f1433bd6"),
        ("tb1qrp33g0q5c5txsp9arysrx4k6zdkfs4nce4xj0gdcccefvpysxf3q0sl5k7", "00201863143c14c5166804bd19203356da136c985678cd4d27a1b8c6329604903262"),
        ("bc1pw508d6qejxtdg4y5r3zarvary0c5xw7kw508d6qejxtdg4y5r3zarvary0c5xw7kt5nd6y", "5128751e76e8199196d454941c45d1b3a323f1433bd6751e76e8199196d454941c45d1b3a323f1433bd6"),
        ("BC1SW50QGDZ25J", "6002751e"),
        ("bc1zw508d6qejxtdg4y5r3zarvaryvaxxpcs", "5210751e76e8199196d454941c45d1b3a323"),
        ("tb1qqqqqp399et2xygdj5xreqhjjvcmzhxw4aywxecjdzew6hylgvsesrxh6hy", "0020000000c4a5cad46221b2a187905e5266362b99d5e91c6ce24d165dab93e86433"),
        ("tb1pqqqqp399et2xygdj5xreqhjjvcmzhxw4aywxecjdzew6hylgvsesf3hn0c", "5120000000c4a5cad46221b2a187905e5266362b99d5e91c6ce24d165dab93e86433"),
        ("bc1p0xlxvlhemja6c4dqv22uapctqupfhlxm9h8z3k2e72q4k9hcz7vqzk5jj0", "512079be667ef9dcbbac55a06295ce870b07029bfcdb2dce28d959f2815b16f81798"),
        ("bcrt1qrp33g0q5c5txsp9arysrx4k6zdkfs4nce4xj0gdcccefvpysxf3qzf4jry", "00201863143c14c5166804bd19203356da136c985678cd4d27a1b8c6329604903262"),
        ("bcrt1p0xlxvlhemja6c4dqv22uapctqupfhlxm9h8z3k2e72q4k9hcz7vqc8gma6", "512079be667ef9dcbbac55a06295ce870b07029bfcdb2dce28d959f2815b16f81798"),
        ("bc1qqqqqqqqqqqqqqqqqqqqqqqqqqqqqqqqq9e75rs", "00140000000000000000000000000000000000000000"),
    ]
    for addr, spk in valid:
        d = segwit_decode(addr)
        assert d is not None, addr
        assert witness_script_pubkey(d[1], d[2]).hex() == spk, addr
        assert segwit_encode(d[0], d[1], d[2]) == addr.lower(), addr
        assert segwit_check(addr) == (d, "ok"), addr
    invalid = [
        "tc1p0xlxvlhemja6c4dqv22uapctqupfhlxm9h8z3k2e72q4k9hcz7vq5zuyut",
        "bc1p0xlxvlhemja6c4dqv22uapctqupfhlxm9h8z3k2e72q4k9hcz7vqh2y7hd",
        "tb1z0xlxvlhemja6c4dqv22uapctqupfhlxm9h8z3k2e72q4k9hcz7vqglt7rf",
        "BC1S0XLXVLHEMJA6C4DQV22UAPCTQUPFHLXM9H8Z3K2E72Q4K9HCZ7VQ54WELL",
        "bc1qw508d6qejxtdg4y5r3zarvary0c5xw7kemeawh",
        "tb1q0xlxvlhemja6c4dqv22uapctqupfhlxm9h8z3k2e72q4k9hcz7vq24jc47",
        "bc1p38j9r5y49hruaue7wxjce0updqjuyyx0kh56v8s25huc6995vvpql3jow4",
        "BC130XLXVLHEMJA6C4DQV22UAPCTQUPFHLXM9H8Z3K2E72Q4K9HCZ7VQ7ZWS8R",
        "bc1pw5dgrnzv",
        "bc1p0xlxvlhemja6c4dqv22uapctqupfhlxm9h8z3k2e72q4k9hcz7v8n0nx0muaewav253zgeav",
        "BC1QR508D6QEJXTDG4Y5R3ZARVARYV98GJ9P",
        "tb1p0xlxvlhemja6c4dqv22uapctqupfhlxm9h8z3k2e72q4k9hcz7vq47Zagq",
        "bc1p0xlxvlhemja6c4dqv22uapctqupfhlxm9h8z3k2e72q4k9hcz7v07qwwzcrf",
        "tb1p0xlxvlhemja6c4dqv22uapctqupfhlxm9h8z3k2e72q4k9hcz7vpggkg4j",
        "bc1gmk9yu",
        # BIP173 list
        "tc1qw508d6qejxtdg4y5r3zarvary0c5xw7kg3g4ty",
        "bc1qw508d6qejxtdg4y5r3zarvary0c5xw7kv8f3t5",
        "BC13W508D6QEJXTDG4Y5R3ZARVARY0C5XW7KN40WF2",
        "bc1rw5uspcuh",
        "bc10w508d6qejxtdg4y5r3zarvary0c5xw7kw508d6qejxtdg4y5r3zarvary0c5xw7kw5rljs90",
        "tb1qrp33g0q5c5txsp9arysrx4k6zdkfs4nce4xj0gdcccefvpysxf3q0sL5k7",
        "bc1zw508d6qejxtdg4y5r3zarvaryvqyzf3du",
        "tb1qrp33g0q5c5txsp9arysrx4k6zdkfs4nce4xj0gdcccefvpysxf3pjxtptv",
    ]
    for addr in invalid:
        assert segwit_decode(addr) is None, addr
        assert segwit_check(addr)[1] != "ok", addr
    assert segwit_check(invalid[1])[1] == "wrong-constant" and segwit_check(invalid[4])[1] == "wrong-constant"
    assert segwit_check(invalid[7])[1] == "version" and segwit_check(invalid[8])[1] == "proglen"
    assert segwit_check(invalid[10])[1] == "v0len" and segwit_check(invalid[13])[1] == "padding"
    assert segwit_check(invalid[16])[1] == "checksum" and segwit_check(invalid[0])[1] == "hrp"
    assert to5(b"\x00\x01\x02") == [0, 0, 0, 16, 4]

    # bc32 (BCR-2020-004 test vector) and the BCUR example quoted from specter-desktop
    assert bc32_encode(b"Hello world") == "fpjkcmr0ypmk7unvvsh4ra4j"
    assert bc32_decode("fpjkcmr0ypmk7unvvsh4ra4j") == b"Hello world"
    assert bc32_decode("fpjkcmr0ypmk7unvvsh4ra4q") is None
    body, dig = ur_encode(b"foo")
    assert (dig, body) == ("j7snj9l0tttmp4c0d9d9mdz0frkac8s6fz4cn8erca3nxz0cnjuq7fv7lv", "gdnx7mc0p7099")
    # specter-desktop's published example (PSBT, three fragments, digest)
    import base64

    psbt = base64.b64decode(
        "cHNidP8BAHEBAAAAAfPQ5Rpeu5nH0TImK4Sbu9lxIOGEynRadywPxaPyhnTwAAAAAAD/////AkoRAAAAAAAAFgAUFCYoQzGSRmYVAuZNuXF0OrPg9jWIEwAAAAAAABYAFOZMlwM1sZGLivwOcOh77amAlvD5AAAAAAABAR+tKAAAAAAAABYAFM4u9V5WG+Fe9l3MefmYEX4ULWAWIgYDA+jO+oOuN37ABK67BA/+SuuR/57c7OkyfyR7hR34FDsYccBxUlQAAIAAAACAAAAAgAAAAAAFAAAAACICApJMZBvzWiavLN7nievKQoylwPoffLkXZUIgGHF4HgwaGHHAcVJUAACAAAAAgAAAAIABAAAACwAAAAAA"
    )
    sb, sd = ur_encode(psbt)
    assert sd == "hlwjxjx550k4nnfdl5py2tn3vnh6g60slnw5dmld6ktrkkz200as49spg5"
    assert sb == (
        "tyq3wurnvf607qgqwyqsqqqqq8eapeg6t6aen373xgnzhpymh0vhzg8psn98gknh9s8utgljse60qqqqqqqqpllllllsyjs3qqqqqqqqqqtqq9q5yc5yxvvjgenp2qhxfkuhzap6k0s0vdvgzvqqqqqqqqqpvqq5uexfwqe4kxgchzhupecws7ld4xqfdu8eqqqqqqqq"
        "qyq3ltfgqqqqqqqqqqtqq9xw9m64u4smu900vhwv08uesyt7zskkq93zqcps86xwl2p6udm7cqz2awcyplly46u3l70dem8fxfljg7u9rhupgwccw8q8z5j5qqqgqqqqqzqqqqqqsqqqqqqqq5qqqqqqygpq9yjvvsdlxk3x4ukdaeufa09y9r99crap7l9ezaj5ygqc"
        "w9upurq6rpcuqu2j2sqqpqqqqqqgqqqqqzqqzqqqqq9sqqqqqqqqmkdau4"
    )
    parts3 = ["ur:bytes/%dof3/%s/%s" % (i + 1, dig, f) for i, f in enumerate(ur_split(body, 3))]
    assert ur_parse(parts3) == (b"foo", "ok") and ur_parse(["ur:bytes/" + body], single=True) == (b"foo", "ok")
    assert ur_parse(["UR:BYTES/1OF1/%s/%s" % (dig.upper(), body.upper())]) == (b"foo", "ok")
    assert ur_parse(parts3[:2])[1] == "count" and ur_parse([parts3[1], parts3[0], parts3[2]])[1] == "order"
    assert ur_parse(["ur:bytes/%s/%s" % (ur_encode(b"bar")[1], body)])[1] == "digest"
    assert ur_parse(["ur:bytes/" + body[:-1] + ("q" if body[-1] != "q" else "p")])[1] == "bc32"
    # RFC 8949 appendix A: h'' = 0x40, h'01020304' = 0x4401020304
    assert cbor_encode_bytes(b"") == b"\x40" and cbor_encode_bytes(bytes.fromhex("01020304")).hex() == "4401020304"
    assert cbor_bytes_header(23) == b"\x57" and cbor_bytes_header(24) == b"\x58\x18" and cbor_bytes_header(255) == b"\x58\xff"
    assert cbor_bytes_header(256) == b"\x59\x01\x00" and cbor_bytes_header(65535) == b"\x59\xff\xff"
    assert cbor_bytes_header(65536) == b"\x5a\x00\x01\x00\x00"
    for n in (0, 1, 23, 24, 255, 256, 65535, 65536):
        assert cbor_decode_bytes(cbor_encode_bytes(b"\xa5" * n)) == b"\xa5" * n
    assert cbor_decode_bytes(b"\x42\x01") is None and cbor_decode_bytes(b"\x41\x01\x02") is None

    # descriptor checksums (Bitcoin Core documentation / test-suite literals, specter-desktop literals)
    dv = [
        ("sh(multi(2,[00000000/111'/222]xpub6ERApfZwUNrhLCkDtcHTcxd75RbzS1ed54G1LkBUHQVHQKqhMkhgbmJbZRkrgZw4koxb5JaHWkY4ALHY2grBGRjaDMzQLcgJvLJuZZvRcEL,xpub68NZiKmJWnxxS6aaHmn81bvJeTESw724CRDs6HbuccFQN9Ku14VQrADWgqbhhTHBaohPX4CjNLf9fq9MYo6oDaPPLPxSb7gwQN3ih19Zm4Y/0))", "tjg09x5t"),
        ("sh(wsh(sortedmulti(2,029dfee2aaa23e2220476c34eda9a76591c1257f8dfce54e42ff014f922ede0838,03151d5b21c6491915e7a103bff913b4d85246c8209a342bb7104850e4cb394686,03646d8e624fedb63739e7963d0c7ad368a7f7935557b2b28c4c954882b19fe6e1)))", "rzmdthwy"),
        ("sh(wsh(sortedmulti(2,xpub6DkFAXWQ2dHxnMKoSBogHrw1rgNJKR4umdbnNVNTYeCGcduxWnNUHgGptqEQWPKRmeW4Zn4FHSbLMBKEWYaMDYu47Ytg6DdFnPNt8hwn5mE/1,xpub6DiXipxEgSYqTw3xX2apub7vzsC5gBzmikxriTRnfKRKQjUSpiGQ9XzyFktkVLTGVGF5emH8up1qtsyw726rvnmzHRU8cHH8gDxeLMXSkYE/1,xpub6FHZCoNb3tg3mxjcXsQx1xLpNmod6woECf2fB4nQbe9NXbvha2ucpDpnGbTFF68KUMUr1hNQ9E5jVEvpT2kUkVmFVDrJawcbgXzDpJc2hkF/2)))", "mgjhd0rk"),
        ("wsh(sortedmulti(1,[aa917e75/48h/1h/0h/2h]tpubDEZRP2dRKoGRJnR9zn6EoLouYKbYyjFsxywgG7wMQwCDVkwNvoLhcX1rTQipYajmTAF82kJoKDiNCgD4wUPahACE7n1trMSm7QS8B3S1fdy/0/*,[2553c4b8/48h/1h/0h/2h]tpubDEiNuxUt4pKjKk7khdv9jfcS92R1WQD6Z3dwjyMFrYj2iMrYbk3xB5kjg6kL4P8SoWsQHpd378RCTrM7fsw4chnJKhE2kfbfc4BCPkVh6g9/0/*))", "t0v98kwu"),
        ("raw(deadbeef)", "89f8spxm"),
        ("pkh(02c6047f9441ed7d6d3045406e95c07cd85c778e4b8cef3ca7abac09b95c709ee5)", "8fhd9pwu"),
    ]
    for text, chk in dv:
        assert descriptor_checksum(text) == chk, (text[:30], descriptor_checksum(text), chk)
    assert descriptor_checksum("wsh(é)") is None
    # witness script / P2WSH: BIP173 example (P2WSH of `<G> CHECKSIG` script is the tb1qrp33... address)
    g = bytes.fromhex("0279be667ef9dcbbac55a06295ce870b07029bfcdb2dce28d959f2815b16f81798")
    assert p2wsh_address(b"\x21" + g + b"\xac", "testnet") == "tb1qrp33g0q5c5txsp9arysrx4k6zdkfs4nce4xj0gdcccefvpysxf3q0sl5k7"
    assert multisig_script(1, [g, g]) == b"\x51\x21" + g + b"\x21" + g + b"\x52\xae"
    return True
