"""Reference secp256k1: Jacobian arithmetic, ECDSA (RFC 6979, low-S), strict DER, BIP340.

Written from SEC 2, RFC 6979, BIP66 and BIP340.  Never imports buidl.
"""
import hashlib
import hmac

P = 0xFFFFFFFFFFFFFFFFFFFFFFFFFFFFFFFFFFFFFFFFFFFFFFFFFFFFFFFEFFFFFC2F
N = 0xFFFFFFFFFFFFFFFFFFFFFFFFFFFFFFFEBAAEDCE6AF48A03BBFD25E8CD0364141
GX = 0x79BE667EF9DCBBAC55A06295CE870B07029BFCDB2DCE28D959F2815B16F81798
GY = 0x483ADA7726A3C4655DA4FBFC0E1108A8FD17B448A68554199C47D08FFB10D4B8
G = (GX, GY)
INF = None  # affine point at infinity


# ---- Jacobian arithmetic (a = 0) --------------------------------------------------------
def _jdbl(p):
    x, y, z = p
    if y == 0 or z == 0:
        return (0, 1, 0)
    s = 4 * x * y * y % P
    m = 3 * x * x % P
    x3 = (m * m - 2 * s) % P
    y3 = (m * (s - x3) - 8 * y * y * y * y) % P
    z3 = 2 * y * z % P
    return (x3, y3, z3)


def _jadd(p, q):
    if p[2] == 0:
        return q
    if q[2] == 0:
        return p
    x1, y1, z1 = p
    x2, y2, z2 = q
    z1z1 = z1 * z1 % P
    z2z2 = z2 * z2 % P
    u1 = x1 * z2z2 % P
    u2 = x2 * z1z1 % P
    s1 = y1 * z2 * z2z2 % P
    s2 = y2 * z1 * z1z1 % P
    if u1 == u2:
        if s1 != s2:
            return (0, 1, 0)
        return _jdbl(p)
    h = (u2 - u1) % P
    r = (s2 - s1) % P
    h2 = h * h % P
    h3 = h * h2 % P
    u1h2 = u1 * h2 % P
    x3 = (r * r - h3 - 2 * u1h2) % P
    y3 = (r * (u1h2 - x3) - s1 * h3) % P
    z3 = h * z1 * z2 % P
    return (x3, y3, z3)


def _to_affine(p):
    if p[2] == 0:
        return INF
    zi = pow(p[2], P - 2, P)
    zi2 = zi * zi % P
    return (p[0] * zi2 % P, p[1] * zi2 * zi % P)


def _to_jac(p):
    return (0, 1, 0) if p is INF else (p[0], p[1], 1)


def on_curve(p):
    if p is INF:
        return True
    x, y = p
    return 0 <= x < P and 0 <= y < P and (y * y - x * x * x - 7) % P == 0


def add(p, q):
    return _to_affine(_jadd(_to_jac(p), _to_jac(q)))


def neg(p):
    return INF if p is INF else (p[0], (-p[1]) % P)


def mul(k, p=G):
    """k*p for any integer k (reduced mod N: the group has prime order N)."""
    k %= N
    if p is INF or k == 0:
        return INF
    acc = (0, 1, 0)
    cur = _to_jac(p)
    while k:
        if k & 1:
            acc = _jadd(acc, cur)
        cur = _jdbl(cur)
        k >>= 1
    return _to_affine(acc)


def mul2(a, p, b, q):
    """a*p + b*q"""
    return add(mul(a, p), mul(b, q))


def sqrt_mod_p(a):
    r = pow(a % P, (P + 1) // 4, P)
    return r if r * r % P == a % P else None


def lift_x(x, odd=False):
    """The curve point with this x and the requested y parity, or None."""
    if not 0 <= x < P:
        return None
    y = sqrt_mod_p((pow(x, 3, P) + 7) % P)
    if y is None:
        return None
    if (y & 1) != (1 if odd else 0):
        y = P - y
    return (x, y)


# ---- encodings ---------------------------------------------------------------------------
def b32(i):
    return i.to_bytes(32, "big")


def sec(p, compressed=True):
    if compressed:
        return bytes([2 + (p[1] & 1)]) + b32(p[0])
    return b"\x04" + b32(p[0]) + b32(p[1])


def parse_sec(b):
    """Strict SEC1 decoding: None unless b encodes a curve point."""
    if len(b) == 33 and b[0] in (2, 3):
        return lift_x(int.from_bytes(b[1:], "big"), odd=(b[0] == 3))
    if len(b) == 65 and b[0] == 4:
        pt = (int.from_bytes(b[1:33], "big"), int.from_bytes(b[33:], "big"))
        return pt if pt[0] < P and pt[1] < P and on_curve(pt) else None
    return None


# ---- RFC 6979 + ECDSA --------------------------------------------------------------------
def rfc6979_k(secret, z, extra_skip=0):
    """Deterministic nonce for SHA-256 / secp256k1; h1 is the 32-byte big-endian digest z
    (0 <= z < 2^256), bits2octets reduces it modulo N."""
    x = b32(secret)
    h1 = b32(z % N)  # bits2octets: z mod q (z < 2^256 < 2q so one subtraction)
    v = b"\x01" * 32
    k = b"\x00" * 32
    k = hmac.new(k, v + b"\x00" + x + h1, hashlib.sha256).digest()
    v = hmac.new(k, v, hashlib.sha256).digest()
    k = hmac.new(k, v + b"\x01" + x + h1, hashlib.sha256).digest()
    v = hmac.new(k, v, hashlib.sha256).digest()
    while True:
        v = hmac.new(k, v, hashlib.sha256).digest()
        cand = int.from_bytes(v, "big")
        if 1 <= cand < N:
            return cand
        k = hmac.new(k, v + b"\x00", hashlib.sha256).digest()
        v = hmac.new(k, v, hashlib.sha256).digest()


def ecdsa_sign_with_k(secret, z, k):
    r = mul(k)[0] % N
    s = (z + r * secret) * pow(k, N - 2, N) % N
    high = s > N // 2
    if high:
        s = N - s
    return r, s, high


def ecdsa_sign(secret, z):
    k = rfc6979_k(secret, z)
    r, s, high = ecdsa_sign_with_k(secret, z, k)
    return r, s, high, k


def ecdsa_verify(pub, z, r, s):
    """ECDSA verification with the range checks of SEC1 4.1.4."""
    if pub is INF or not on_curve(pub):
        return False
    if not (isinstance(r, int) and isinstance(s, int)):
        return False
    if not (1 <= r < N and 1 <= s < N):
        return False
    w = pow(s, N - 2, N)
    pt = mul2(z * w % N, G, r * w % N, pub)
    if pt is INF:
        return False
    return pt[0] % N == r


def der_int(i):
    b = i.to_bytes((i.bit_length() + 7) // 8 or 1, "big")
    if b[0] & 0x80:
        b = b"\x00" + b
    return b"\x02" + bytes([len(b)]) + b


def der(r, s):
    body = der_int(r) + der_int(s)
    return b"\x30" + bytes([len(body)]) + body


def der_parse_strict(b):
    """BIP66 strict DER; returns (r, s) or None."""
    if len(b) < 8 or len(b) > 72 or b[0] != 0x30 or b[1] != len(b) - 2:
        return None
    if b[2] != 2:
        return None
    lr = b[3]
    if lr == 0 or 5 + lr >= len(b):
        return None
    if b[4 + lr] != 2:
        return None
    ls = b[5 + lr]
    if ls == 0 or lr + ls + 6 != len(b):
        return None
    rb = b[4 : 4 + lr]
    sb = b[6 + lr :]
    for x in (rb, sb):
        if x[0] & 0x80:
            return None
        if len(x) > 1 and x[0] == 0 and not (x[1] & 0x80):
            return None
    return int.from_bytes(rb, "big"), int.from_bytes(sb, "big")


# ---- BIP340 ------------------------------------------------------------------------------
def tagged_hash(tag, msg):
    t = hashlib.sha256(tag.encode() if isinstance(tag, str) else tag).digest()
    return hashlib.sha256(t + t + msg).digest()


def xonly_pub(secret):
    return b32(mul(secret)[0])


def schnorr_sign(secret, msg, aux):
    """BIP340 default signing.  Returns (sig64, info) with the parities observed."""
    pt = mul(secret)
    d = secret if pt[1] % 2 == 0 else N - secret
    t = bytes(a ^ b for a, b in zip(b32(d), tagged_hash("BIP0340/aux", aux)))
    k0 = int.from_bytes(tagged_hash("BIP0340/nonce", t + b32(pt[0]) + msg), "big") % N
    if k0 == 0:
        raise ValueError("k = 0")
    r = mul(k0)
    k = k0 if r[1] % 2 == 0 else N - k0
    e = int.from_bytes(tagged_hash("BIP0340/challenge", b32(r[0]) + b32(pt[0]) + msg), "big") % N
    sig = b32(r[0]) + b32((k + e * d) % N)
    return sig, {"key_odd": pt[1] & 1, "nonce_odd": r[1] & 1, "k0": k0}


def schnorr_verify(pk32, msg, sig64):
    if len(pk32) != 32 or len(sig64) != 64:
        return False
    pt = lift_x(int.from_bytes(pk32, "big"))
    if pt is None:
        return False
    r = int.from_bytes(sig64[:32], "big")
    s = int.from_bytes(sig64[32:], "big")
    if r >= P or s >= N:
        return False
    e = int.from_bytes(tagged_hash("BIP0340/challenge", sig64[:32] + pk32 + msg), "big") % N
    rp = mul2(s, G, N - e, pt)
    if rp is INF or rp[1] & 1 or rp[0] != r:
        return False
    return True


# ---- self-check against published vectors -------------------------------------------------
def selfcheck():
    # SEC2 / well-known multiples of G
    assert on_curve(G) and mul(N) is INF and mul(N - 1) == neg(G)
    assert mul(2) == (
        0xC6047F9441ED7D6D3045406E95C07CD85C778E4B8CEF3CA7ABAC09B95C709EE5,
        0x1AE168FEA63DC339A3C58419466CEAEEF7F632653266D0E1236431A950CFE52A,
    )
    # RFC 6979-style vector widely published for secp256k1/SHA-256 (key 1, "Satoshi Nakamoto")
    z = int.from_bytes(hashlib.sha256(b"Satoshi Nakamoto").digest(), "big")
    assert rfc6979_k(1, z) == 0x8F8A276C19F4149656B280621E358CCE24F5F52542772691EE69063B74F15D15
    r, s, _, _ = ecdsa_sign(1, z)
    assert (r, s) == (
        0x934B1EA10A4B3C1757E2B0C017D0B6143CE3C9A7E6A4A49860D7A6AB210EE3D8,
        0x2442CE9D2B916064108014783E923EC36B49743E2FFA1C4496F01A512AAFD9E5,
    )
    assert ecdsa_verify(G, z, r, s) and not ecdsa_verify(G, z + 1, r, s)
    assert der_parse_strict(der(r, s)) == (r, s)
    # BIP340 test vectors 0, 1 and 3 (from the BIP's CSV)
    vecs = [
        ("0000000000000000000000000000000000000000000000000000000000000003",
         "F9308A019258C31049344F85F89D5229B531C845836F99B08601F113BCE036F9",
         "0000000000000000000000000000000000000000000000000000000000000000",
         "0000000000000000000000000000000000000000000000000000000000000000",
         "E907831F80848D1069A5371B402410364BDF1C5F8307B0084C55F1CE2DCA821525F66A4A85EA8B71E482A74F382D2CE5EBEEE8FDB2172F477DF4900D310536C0"),
        ("B7E151628AED2A6ABF7158809CF4F3C762E7160F38B4DA56A784D9045190CFEF",
         "DFF1D77F2A671C5F36183726DB2341BE58FEAE1DA2DECED843240F7B502BA659",
         "0000000000000000000000000000000000000000000000000000000000000001",
         "243F6A8885A308D313198A2E03707344A4093822299F31D0082EFA98EC4E6C89",
         "6896BD60EEAE296DB48A229FF71DFE071BDE413E6D43F917DC8DCF8C78DE33418906D11AC976ABCCB20B091292BFF4EA897EFCB639EA871CFA95F6DE339E4B0A"),
        ("0B432B2677937381AEF05BB02A66ECD012773062CF3FA2549E44F58ED2401710",
         "25D1DFF95105F5253C4022F628A996AD3A0D95FBF21D468A1B33F8C160D8F517",
         "FFFFFFFFFFFFFFFFFFFFFFFFFFFFFFFFFFFFFFFFFFFFFFFFFFFFFFFFFFFFFFFF",
         "FFFFFFFFFFFFFFFFFFFFFFFFFFFFFFFFFFFFFFFFFFFFFFFFFFFFFFFFFFFFFFFF",
         "7EB0509757E246F19449885651611CB965ECC1A187DD51B64FDA1EDC9637D5EC97582B9CB13DB3933705B32BA982AF5AF25FD78881EBB32771FC5922EFC66EA3"),
    ]
    for sk, pk, aux, msg, sig in vecs:
        sk_i = int(sk, 16)
        assert xonly_pub(sk_i) == bytes.fromhex(pk)
        got, _ = schnorr_sign(sk_i, bytes.fromhex(msg), bytes.fromhex(aux))
        assert got == bytes.fromhex(sig), (got.hex(), sig)
        assert schnorr_verify(bytes.fromhex(pk), bytes.fromhex(msg), got)
    # BIP340 vector 6 (has_even_y(R) is false) must fail
    assert not schnorr_verify(
        bytes.fromhex("DFF1D77F2A671C5F36183726DB2341BE58FEAE1DA2DECED843240F7B502BA659"),
        bytes.fromhex("243F6A8885A308D313198A2E03707344A4093822299F31D0082EFA98EC4E6C89"),
        bytes.fromhex("FFF97BD5755EEEA420453A14355235D382F6472F8568A18B2F057A14602975563CC27944640AC607CD107AE10923D9EF7A73C643E166BE5EBEAFA34B1AC553E2"),
    )
    return True
