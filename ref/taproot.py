"""Reference BIP341 (taproot commitments) written from the BIP341 text on top of ref.ec, plus
the key aggregation of the MuSig2 *draft* the library implements (x-only keys, sorted key
list, "KeyAgg list"/"KeyAgg coefficient" tagged hashes, second key's coefficient = 1).

Never imports buidl.

Script trees:  leaf = (leaf_version, script_bytes);  branch = [left, right]  (lists of two).
Points are affine (x, y) as in ref.ec; x-only keys are 32 bytes.

API
    compact_size(n), script_bytes(commands)
    tapleaf_hash(script, leaf_version=0xc0), tapbranch_hash(a, b) (lexicographic)
    merkle_root(tree), leaves_with_paths(tree) -> [((version, script), [sibling hashes leaf->root])]
    taptweak(internal_xonly, merkle_root=b"") -> 32 bytes
    output_key(internal_xonly_or_point, merkle_root=b"") -> (Q point, parity)
    tweak_seckey(d, merkle_root=b"") -> int   (BIP341 taproot_tweak_seckey)
    control_block(leaf_version, parity, internal_xonly, path) -> bytes
    parse_control_block(b) -> dict | raises ValueError
    commitment(control_block_bytes, script, ) -> (q_xonly, parity) | None
    verify_commitment(control_block_bytes, script, q_xonly) -> bool    (BIP341 script path rule)
    all_shapes(n) -> every binary tree shape with n leaves (leaves are None placeholders)
    musig_keyagg(xonlys) -> (aggregate point, {xonly: coefficient})
"""
from ref import ec

N = ec.N
P = ec.P


# ---- byte helpers -----------------------------------------------------------------------------
def compact_size(n):
    if n < 0xFD:
        return bytes([n])
    if n <= 0xFFFF:
        return b"\xfd" + n.to_bytes(2, "little")
    if n <= 0xFFFFFFFF:
        return b"\xfe" + n.to_bytes(4, "little")
    return b"\xff" + n.to_bytes(8, "little")


def script_bytes(commands):
    """Serialise a command list (ints = opcodes, bytes = data pushes with the shortest push
    opcode: direct 1..75, PUSHDATA1 <= 255, PUSHDATA2 <= 65535; empty push = OP_0)."""
    out = b""
    for c in commands:
        if isinstance(c, int):
            out += bytes([c])
            continue
        n = len(c)
        if n == 0:
            out += b"\x00"
        elif n <= 75:
            out += bytes([n]) + c
        elif n <= 0xFF:
            out += b"\x4c" + bytes([n]) + c
        elif n <= 0xFFFF:
            out += b"\x4d" + n.to_bytes(2, "little") + c
        else:
            raise ValueError("push too long")
    return out


# ---- BIP341 ------------------------------------------------------------------------------------
def tapleaf_hash(script, leaf_version=0xC0):
    return ec.tagged_hash("TapLeaf", bytes([leaf_version]) + compact_size(len(script)) + bytes(script))


def tapbranch_hash(a, b):
    if b < a:
        a, b = b, a
    return ec.tagged_hash("TapBranch", a + b)


def is_leaf(node):
    return isinstance(node, tuple)


def merkle_root(tree):
    if is_leaf(tree):
        return tapleaf_hash(tree[1], tree[0])
    return tapbranch_hash(merkle_root(tree[0]), merkle_root(tree[1]))


def leaves_with_paths(tree):
    """[(leaf, [sibling hashes from the leaf upwards])] in left-to-right order
    (BIP341 taproot_tree_helper)."""
    if is_leaf(tree):
        return [(tree, [])]
    left, right = leaves_with_paths(tree[0]), leaves_with_paths(tree[1])
    lh, rh = merkle_root(tree[0]), merkle_root(tree[1])
    return [(lf, path + [rh]) for lf, path in left] + [(lf, path + [lh]) for lf, path in right]


def _xonly(key):
    if isinstance(key, (bytes, bytearray)):
        if len(key) != 32:
            raise ValueError("x-only key must be 32 bytes")
        return bytes(key)
    return ec.b32(key[0])


def taptweak(internal, merkle=b""):
    return ec.tagged_hash("TapTweak", _xonly(internal) + (merkle or b""))


def output_key(internal, merkle=b""):
    """taproot_tweak_pubkey: Q = lift_x(x(P)) + int(hash_TapTweak(x(P) || root)) * G."""
    x = _xonly(internal)
    p = ec.lift_x(int.from_bytes(x, "big"))
    if p is None:
        raise ValueError("internal key is not on the curve")
    t = int.from_bytes(taptweak(x, merkle), "big")
    if t >= N:
        raise ValueError("tweak >= n")
    q = ec.add(p, ec.mul(t))
    if q is ec.INF:
        raise ValueError("output key is infinity")
    return q, q[1] & 1


def tweak_seckey(d, merkle=b""):
    pt = ec.mul(d)
    d = d if pt[1] % 2 == 0 else N - d
    t = int.from_bytes(taptweak(ec.b32(pt[0]), merkle), "big")
    if t >= N:
        raise ValueError("tweak >= n")
    return (d + t) % N


def control_block(leaf_version, parity, internal, path):
    if leaf_version & 1 or not 0 <= leaf_version <= 0xFF:
        raise ValueError("leaf version must be even")
    return bytes([leaf_version | (parity & 1)]) + _xonly(internal) + b"".join(path)


def parse_control_block(b):
    b = bytes(b)
    if len(b) < 33 or (len(b) - 33) % 32 != 0 or (len(b) - 33) // 32 > 128:
        raise ValueError("control block length must be 33 + 32m, 0 <= m <= 128")
    return {
        "leaf_version": b[0] & 0xFE,
        "parity": b[0] & 1,
        "internal": b[1:33],
        "path": [b[33 + 32 * i : 65 + 32 * i] for i in range((len(b) - 33) // 32)],
    }


def commitment(cb, script):
    """(x-only output key, parity) the control block + script commit to, or None when the
    control block is malformed / its internal key is not a curve point / the tweak is invalid."""
    try:
        c = parse_control_block(cb)
    except ValueError:
        return None
    p = ec.lift_x(int.from_bytes(c["internal"], "big"))
    if p is None:
        return None
    k = tapleaf_hash(script, c["leaf_version"])
    for e in c["path"]:
        k = tapbranch_hash(k, e)
    t = int.from_bytes(ec.tagged_hash("TapTweak", c["internal"] + k), "big")
    if t >= N:
        return None
    q = ec.add(p, ec.mul(t))
    if q is ec.INF:
        return None
    return ec.b32(q[0]), q[1] & 1


def verify_commitment(cb, script, q_xonly):
    """BIP341 script-path rule: q == x(Q) and (c[0] & 1) == y(Q) mod 2."""
    got = commitment(cb, script)
    if got is None:
        return False
    return got[0] == bytes(q_xonly) and got[1] == (bytes(cb)[0] & 1)


# ---- tree shapes --------------------------------------------------------------------------------
_SHAPES = {1: [None]}


def all_shapes(n):
    """Every full binary tree shape with n leaves (Catalan(n-1) of them); leaves are None."""
    if n not in _SHAPES:
        out = []
        for i in range(1, n):
            for left in all_shapes(i):
                for right in all_shapes(n - i):
                    out.append([left, right])
        _SHAPES[n] = out
    return _SHAPES[n]


def fill_shape(shape, leaves):
    """Replace the None placeholders of a shape by the given leaves, left to right."""
    it = iter(leaves)

    def rec(node):
        if node is None:
            return next(it)
        return [rec(node[0]), rec(node[1])]

    return rec(shape)


def shape_key(shape):
    return "L" if shape is None or is_leaf(shape) else "(" + shape_key(shape[0]) + shape_key(shape[1]) + ")"


def max_depth(shape):
    return 0 if shape is None or is_leaf(shape) else 1 + max(max_depth(shape[0]), max_depth(shape[1]))


# ---- MuSig2 draft key aggregation (x-only variant implemented by the library) ---------------------
def musig_keyagg(xonlys):
    """Keys are sorted; L = H_KeyAgg list(x_1 || ... || x_n); a_i = H_KeyAgg coefficient(L || x_i)
    except that the second key of the sorted list gets a_i = 1; Q = sum a_i * lift_x(x_i)."""
    keys = sorted(bytes(k) for k in xonlys)
    if len(keys) < 2:
        raise ValueError("key aggregation needs at least two keys")
    ell = ec.tagged_hash("KeyAgg list", b"".join(keys))
    coefs = {}
    q = ec.INF
    for i, k in enumerate(keys):
        a = 1 if i == 1 else int.from_bytes(ec.tagged_hash("KeyAgg coefficient", ell + k), "big") % N
        coefs[k] = a
        pt = ec.lift_x(int.from_bytes(k, "big"))
        if pt is None:
            raise ValueError("not a curve point")
        q = ec.add(q, ec.mul(a, pt))
    return q, coefs


# ---- published vectors ----------------------------------------------------------------------------
# BIP341 wallet test vectors (scriptPubKey section + keyPathSpending key material), literals as
# quoted by the repository's buidl/test/test_taproot.py; MuSig key aggregation vectors as quoted
# by buidl/test/test_musig.py (test_musig2_point_aggregation).
BIP341_WALLET_VECTORS = [{'internal': 'd6889cb081036e0faefa3a35157ad71086b123b2b144b649798b494c300a961d',
  'tree': None,
  'leaf_hashes': [],
  'root': None,
  'tweak': 'b86e7be8f39bab32a6f2c0443abbc210f0edac0e2c53d501b36b64437d9c6c70',
  'tweaked': '53a1f6e454df1aa2776a2814a721372d6258050de330b3c6d10ee8f4e0dda343',
  'spk': '512053a1f6e454df1aa2776a2814a721372d6258050de330b3c6d10ee8f4e0dda343',
  'control_blocks': []},
 {'internal': '187791b6f712a8ea41c8ecdd0ee77fab3e85263b37e1ec18a3651926b3a6cf27',
  'tree': (192, '20d85a959b0290bf19bb89ed43c916be835475d013da4b362117393e25a48229b8ac'),
  'leaf_hashes': ['5b75adecf53548f3ec6ad7d78383bf84cc57b55a3127c72b9a2481752dd88b21'],
  'root': '5b75adecf53548f3ec6ad7d78383bf84cc57b55a3127c72b9a2481752dd88b21',
  'tweak': 'cbd8679ba636c1110ea247542cfbd964131a6be84f873f7f3b62a777528ed001',
  'tweaked': '147c9c57132f6e7ecddba9800bb0c4449251c92a1e60371ee77557b6620f3ea3',
  'spk': '5120147c9c57132f6e7ecddba9800bb0c4449251c92a1e60371ee77557b6620f3ea3',
  'control_blocks': ['c1187791b6f712a8ea41c8ecdd0ee77fab3e85263b37e1ec18a3651926b3a6cf27']},
 {'internal': '93478e9488f956df2396be2ce6c5cced75f900dfa18e7dabd2428aae78451820',
  'tree': (192, '20b617298552a72ade070667e86ca63b8f5789a9fe8731ef91202a91c9f3459007ac'),
  'leaf_hashes': ['c525714a7f49c28aedbbba78c005931a81c234b2f6c99a73e4d06082adc8bf2b'],
  'root': 'c525714a7f49c28aedbbba78c005931a81c234b2f6c99a73e4d06082adc8bf2b',
  'tweak': '6af9e28dbf9d6aaf027696e2598a5b3d056f5fd2355a7fd5a37a0e5008132d30',
  'tweaked': 'e4d810fd50586274face62b8a807eb9719cef49c04177cc6b76a9a4251d5450e',
  'spk': '5120e4d810fd50586274face62b8a807eb9719cef49c04177cc6b76a9a4251d5450e',
  'control_blocks': ['c093478e9488f956df2396be2ce6c5cced75f900dfa18e7dabd2428aae78451820']},
 {'internal': 'ee4fe085983462a184015d1f782d6a5f8b9c2b60130aff050ce221ecf3786592',
  'tree': [(192, '20387671353e273264c495656e27e39ba899ea8fee3bb69fb2a680e22093447d48ac'), (250, '06424950333431')],
  'leaf_hashes': ['8ad69ec7cf41c2a4001fd1f738bf1e505ce2277acdcaa63fe4765192497f47a7',
                  'f224a923cd0021ab202ab139cc56802ddb92dcfc172b9212261a539df79a112a'],
  'root': '6c2dc106ab816b73f9d07e3cd1ef2c8c1256f519748e0813e4edd2405d277bef',
  'tweak': '9e0517edc8259bb3359255400b23ca9507f2a91cd1e4250ba068b4eafceba4a9',
  'tweaked': '712447206d7a5238acc7ff53fbe94a3b64539ad291c7cdbc490b7577e4b17df5',
  'spk': '5120712447206d7a5238acc7ff53fbe94a3b64539ad291c7cdbc490b7577e4b17df5',
  'control_blocks': ['c0ee4fe085983462a184015d1f782d6a5f8b9c2b60130aff050ce221ecf3786592f224a923cd0021ab202ab139cc56802ddb92dcfc172b9212261a539df79a112a',
                     'faee4fe085983462a184015d1f782d6a5f8b9c2b60130aff050ce221ecf37865928ad69ec7cf41c2a4001fd1f738bf1e505ce2277acdcaa63fe4765192497f47a7']},
 {'internal': 'f9f400803e683727b14f463836e1e78e1c64417638aa066919291a225f0e8dd8',
  'tree': [(192, '2044b178d64c32c4a05cc4f4d1407268f764c940d20ce97abfd44db5c3592b72fdac'), (192, '07546170726f6f74')],
  'leaf_hashes': ['64512fecdb5afa04f98839b50e6f0cb7b1e539bf6f205f67934083cdcc3c8d89',
                  '2cb2b90daa543b544161530c925f285b06196940d6085ca9474d41dc3822c5cb'],
  'root': 'ab179431c28d3b68fb798957faf5497d69c883c6fb1e1cd9f81483d87bac90cc',
  'tweak': '639f0281b7ac49e742cd25b7f188657626da1ad169209078e2761cefd91fd65e',
  'tweaked': '77e30a5522dd9f894c3f8b8bd4c4b2cf82ca7da8a3ea6a239655c39c050ab220',
  'spk': '512077e30a5522dd9f894c3f8b8bd4c4b2cf82ca7da8a3ea6a239655c39c050ab220',
  'control_blocks': ['c1f9f400803e683727b14f463836e1e78e1c64417638aa066919291a225f0e8dd82cb2b90daa543b544161530c925f285b06196940d6085ca9474d41dc3822c5cb',
                     'c1f9f400803e683727b14f463836e1e78e1c64417638aa066919291a225f0e8dd864512fecdb5afa04f98839b50e6f0cb7b1e539bf6f205f67934083cdcc3c8d89']},
 {'internal': 'e0dfe2300b0dd746a3f8674dfd4525623639042569d829c7f0eed9602d263e6f',
  'tree': [(192, '2072ea6adcf1d371dea8fba1035a09f3d24ed5a059799bae114084130ee5898e69ac'),
           [(192, '202352d137f2f3ab38d1eaa976758873377fa5ebb817372c71e2c542313d4abda8ac'),
            (192, '207337c0dd4253cb86f2c43a2351aadd82cccb12a172cd120452b9bb8324f2186aac')]],
  'leaf_hashes': ['2645a02e0aac1fe69d69755733a9b7621b694bb5b5cde2bbfc94066ed62b9817',
                  'ba982a91d4fc552163cb1c0da03676102d5b7a014304c01f0c77b2b8e888de1c',
                  '9e31407bffa15fefbf5090b149d53959ecdf3f62b1246780238c24501d5ceaf6'],
  'root': 'ccbd66c6f7e8fdab47b3a486f59d28262be857f30d4773f2d5ea47f7761ce0e2',
  'tweak': 'b57bfa183d28eeb6ad688ddaabb265b4a41fbf68e5fed2c72c74de70d5a786f4',
  'tweaked': '91b64d5324723a985170e4dc5a0f84c041804f2cd12660fa5dec09fc21783605',
  'spk': '512091b64d5324723a985170e4dc5a0f84c041804f2cd12660fa5dec09fc21783605',
  'control_blocks': ['c0e0dfe2300b0dd746a3f8674dfd4525623639042569d829c7f0eed9602d263e6fffe578e9ea769027e4f5a3de40732f75a88a6353a09d767ddeb66accef85e553',
                     'c0e0dfe2300b0dd746a3f8674dfd4525623639042569d829c7f0eed9602d263e6f9e31407bffa15fefbf5090b149d53959ecdf3f62b1246780238c24501d5ceaf62645a02e0aac1fe69d69755733a9b7621b694bb5b5cde2bbfc94066ed62b9817',
                     'c0e0dfe2300b0dd746a3f8674dfd4525623639042569d829c7f0eed9602d263e6fba982a91d4fc552163cb1c0da03676102d5b7a014304c01f0c77b2b8e888de1c2645a02e0aac1fe69d69755733a9b7621b694bb5b5cde2bbfc94066ed62b9817']},
 {'internal': '55adf4e8967fbd2e29f20ac896e60c3b0f1d5b0efa9d34941b5958c7b0a0312d',
  'tree': [(192, '2071981521ad9fc9036687364118fb6ccd2035b96a423c59c5430e98310a11abe2ac'),
           [(192, '20d5094d2dbe9b76e2c245a2b89b6006888952e2faa6a149ae318d69e520617748ac'),
            (192, '20c440b462ad48c7a77f94cd4532d8f2119dcebbd7c9764557e62726419b08ad4cac')]],
  'leaf_hashes': ['f154e8e8e17c31d3462d7132589ed29353c6fafdb884c5a6e04ea938834f0d9d',
                  '737ed1fe30bc42b8022d717b44f0d93516617af64a64753b7a06bf16b26cd711',
                  'd7485025fceb78b9ed667db36ed8b8dc7b1f0b307ac167fa516fe4352b9f4ef7'],
  'root': '2f6b2c5397b6d68ca18e09a3f05161668ffe93a988582d55c6f07bd5b3329def',
  'tweak': '6579138e7976dc13b6a92f7bfd5a2fc7684f5ea42419d43368301470f3b74ed9',
  'tweaked': '75169f4001aa68f15bbed28b218df1d0a62cbbcf1188c6665110c293c907b831',
  'spk': '512075169f4001aa68f15bbed28b218df1d0a62cbbcf1188c6665110c293c907b831',
  'control_blocks': ['c155adf4e8967fbd2e29f20ac896e60c3b0f1d5b0efa9d34941b5958c7b0a0312d3cd369a528b326bc9d2133cbd2ac21451acb31681a410434672c8e34fe757e91',
                     'c155adf4e8967fbd2e29f20ac896e60c3b0f1d5b0efa9d34941b5958c7b0a0312dd7485025fceb78b9ed667db36ed8b8dc7b1f0b307ac167fa516fe4352b9f4ef7f154e8e8e17c31d3462d7132589ed29353c6fafdb884c5a6e04ea938834f0d9d',
                     'c155adf4e8967fbd2e29f20ac896e60c3b0f1d5b0efa9d34941b5958c7b0a0312d737ed1fe30bc42b8022d717b44f0d93516617af64a64753b7a06bf16b26cd711f154e8e8e17c31d3462d7132589ed29353c6fafdb884c5a6e04ea938834f0d9d']}]

# (internalPrivkey, merkleRoot or None, internalPubkey, tweak, tweakedPrivkey) from the keyPathSpending part
BIP341_KEYPATH_VECTORS = [('6b973d88838f27366ed61c9ad6367663045cb456e28335c109e30717ae0c6baa',
  None,
  'd6889cb081036e0faefa3a35157ad71086b123b2b144b649798b494c300a961d',
  'b86e7be8f39bab32a6f2c0443abbc210f0edac0e2c53d501b36b64437d9c6c70',
  '2405b971772ad26915c8dcdf10f238753a9b837e5f8e6a86fd7c0cce5b7296d9'),
 ('1e4da49f6aaf4e5cd175fe08a32bb5cb4863d963921255f33d3bc31e1343907f',
  '5b75adecf53548f3ec6ad7d78383bf84cc57b55a3127c72b9a2481752dd88b21',
  '187791b6f712a8ea41c8ecdd0ee77fab3e85263b37e1ec18a3651926b3a6cf27',
  'cbd8679ba636c1110ea247542cfbd964131a6be84f873f7f3b62a777528ed001',
  'ea260c3b10e60f6de018455cd0278f2f5b7e454be1999572789e6a9565d26080'),
 ('d3c7af07da2d54f7a7735d3d0fc4f0a73164db638b2f2f7c43f711f6d4aa7e64',
  'c525714a7f49c28aedbbba78c005931a81c234b2f6c99a73e4d06082adc8bf2b',
  '93478e9488f956df2396be2ce6c5cced75f900dfa18e7dabd2428aae78451820',
  '6af9e28dbf9d6aaf027696e2598a5b3d056f5fd2355a7fd5a37a0e5008132d30',
  '97323385e57015b75b0339a549c56a948eb961555973f0951f555ae6039ef00d'),
 ('f36bb07a11e469ce941d16b63b11b9b9120a84d9d87cff2c84a8d4affb438f4e',
  'ccbd66c6f7e8fdab47b3a486f59d28262be857f30d4773f2d5ea47f7761ce0e2',
  'e0dfe2300b0dd746a3f8674dfd4525623639042569d829c7f0eed9602d263e6f',
  'b57bfa183d28eeb6ad688ddaabb265b4a41fbf68e5fed2c72c74de70d5a786f4',
  'a8e7aa924f0d58854185a490e6c41f6efb7b675c0f3331b7f14b549400b4d501'),
 ('415cfe9c15d9cea27d8104d5517c06e9de48e2f986b695e4f5ffebf230e725d8',
  '2f6b2c5397b6d68ca18e09a3f05161668ffe93a988582d55c6f07bd5b3329def',
  '55adf4e8967fbd2e29f20ac896e60c3b0f1d5b0efa9d34941b5958c7b0a0312d',
  '6579138e7976dc13b6a92f7bfd5a2fc7684f5ea42419d43368301470f3b74ed9',
  '241c14f2639d0d7139282aa6abde28dd8a067baa9d633e4e7230287ec2d02901'),
 ('c7b0e81f0a9a0b0499e112279d718cca98e79a12e2f137c72ae5b213aad0d103',
  '6c2dc106ab816b73f9d07e3cd1ef2c8c1256f519748e0813e4edd2405d277bef',
  'ee4fe085983462a184015d1f782d6a5f8b9c2b60130aff050ce221ecf3786592',
  '9e0517edc8259bb3359255400b23ca9507f2a91cd1e4250ba068b4eafceba4a9',
  '65b6000cd2bfa6b7cf736767a8955760e62b6649058cbc970b7c0871d786346b'),
 ('77863416be0d0665e517e1c375fd6f75839544eca553675ef7fdf4949518ebaa',
  'ab179431c28d3b68fb798957faf5497d69c883c6fb1e1cd9f81483d87bac90cc',
  'f9f400803e683727b14f463836e1e78e1c64417638aa066919291a225f0e8dd8',
  '639f0281b7ac49e742cd25b7f188657626da1ad169209078e2761cefd91fd65e',
  'ec18ce6af99f43815db543f47b8af5ff5df3b2cb7315c955aa4a86e8143d2bf5')]

# (five x-only keys..., aggregate x-only key)
MUSIG_KEYAGG_VECTORS = [('346b16bbd0034f1c22fca23aa3aee0629b6b36fd504c617277bc245dfc71158b',
  'a805b4af00a0e3e522bb11eb46240f21f5fbce133bf34b0386b5fece4e8e93cb',
  '002c57fabe0d3401c9226de176ed25842d8d906a134c71806e0eb065dd5d2493',
  'cd71e04348b4f118d6f3efd6bbfef377a0ebabfc03a8fb564a4c1887fc322463',
  '75d0edbd30cee22cc424963cdbb1146b83baec5e27d2c2200663e1b44c909dec',
  '9e10adc2253f8699868a456b79059dcad028f8252057f1dcde68cf9ae8c5eeca'),
 ('7eb3fd1c4d3f0c541b4260d673f51beba62b15aafe9cbad311ecc2a94eb20b2f',
  'd86e713462f55d13e8d0ff9a74c5523ca0ce8baaa339c75d59c91549b3aacd89',
  'c0361dc4b1f78a4f52cc431dde2467205544918ddc350b911c094ca78af5c194',
  '14a9f3a1730874d86afbc50a82297970714d332100a82e89b86f6185f16c24aa',
  '4eb803c43cb72e5fba9f255261452eb62e3fc798159082fedf3bbadd9a081794',
  'd0f19e0c0a13a1e05b25b679fe62b9f32794cc7729e39f8c9a880b5bb76e4072'),
 ('332f121ff348c45b917d429985cbacf6a02d29ddeb940006c78eb620c92e6e17',
  'a6993d21fb59bdbd5d440d91ef63a6efddc23afc8fe378e8ab302de5a02ea6db',
  'c1040a3e8557900d4ac0d39bd13d3e118d949ddc6d887af332c274d355abee0b',
  '23befb7cef7a0f6780df8068538a1a0318c79c6ae9929f2ac151788b90381621',
  'bcbc1fdfa3c994601a12c4903b7c13126770c91b764a2ae9665e1d5108b87cbe',
  '2975571d6f7eeb695b31a9f362d938ca7cd6adc9f88ca16b8530d029c5c6b77e'),
 ('147760f9692a4ac0b6f3620a1a78439513747d80db0740257aeb629f53a0f020',
  'a635e81e738bb6c82b86cf99bb1e66b67d66bef15127f1458e011853773d6134',
  '3cbde74f668afc7770d3ea4ed105f578d8fa17676796c950001f9e81f61d8df0',
  'deb885f923049d858f2f777fcbc0259449744214de7312ae952ea80fa8d0fed3',
  '771f2f656e3e03c35b7fd5271eefaf07f2cf839db6aa5756dabb270417b6b75f',
  '03e89d0c9c4374872b31e638a529088a810d0dbab4268d4438105e5ed6c0627a'),
 ('0d0ac5169c2949584546ee723bbd9d968957f2ae2c6c81831d49037e06f64cc9',
  'cc402bb99c35310e635a5e62e1906dba5fb644a97c4d5774f7f683c2d786a772',
  '12e0e04f53c38290c191841c1e86980f91babc53c806375512f23cd1a39af109',
  '2b4a3f84469e280594c694a9d26e0fd108ef8a8dce8189a4efb0369f3e9c6dbd',
  'ef33036853535ecf3b42ca7339028d8233dbe7f7eff1ece81e206db433f0f35c',
  '942732e83fda0f976b2ed2bf63c9526c30089326a19792a1fb65a1a742d411c4'),
 ('13733d0dea513fa3e68579a478670400891b48ecec10eac48de621a632a9fa84',
  '663bfccfa355c03e6d59da97618e19f86025b8feb3d18b9233ed66c4dae1407c',
  'bed92b873b26573a665a53ada307331122d929b16592c679bcbe17c7d3e345d0',
  '3ebb43e8f32a388c5fce9ca37b497b93565a8de3036b1a5a7530b78982abf9d2',
  'ea7b73b9e415416e8784c2e2e1d9727446ba38e1bfafa3618b3c20cbb4102300',
  'e148b34e6d2bb76c2da7efb63b91b69b6bd274aa734a7c837f07a285bce512bb')]


def _tree_from_vector(t):
    if isinstance(t, tuple):
        return (t[0], bytes.fromhex(t[1]))
    return [_tree_from_vector(t[0]), _tree_from_vector(t[1])]


def selfcheck():
    assert compact_size(252) == b"\xfc" and compact_size(253) == b"\xfd\xfd\x00" and compact_size(0x10000) == b"\xfe\x00\x00\x01\x00"
    assert script_bytes([b"\x01" * 75, 0xAC]) == b"\x4b" + b"\x01" * 75 + b"\xac"
    assert script_bytes([b"\x01" * 76])[:2] == b"\x4c\x4c" and script_bytes([b"\x01" * 256])[:3] == b"\x4d\x00\x01"
    for v in BIP341_WALLET_VECTORS:
        internal = bytes.fromhex(v["internal"])
        if v["tree"] is None:
            root = b""
        else:
            tree = _tree_from_vector(v["tree"])
            root = merkle_root(tree)
            assert root.hex() == v["root"], v["internal"]
            lp = leaves_with_paths(tree)
            assert [tapleaf_hash(lf[1], lf[0]).hex() for lf, _ in lp] == v["leaf_hashes"]
        assert taptweak(internal, root).hex() == v["tweak"]
        q, parity = output_key(internal, root)
        assert ec.b32(q[0]).hex() == v["tweaked"]
        assert (b"\x51\x20" + ec.b32(q[0])).hex() == v["spk"]
        if v["tree"] is not None:
            assert len(lp) == len(v["control_blocks"])
            for (lf, path), want in zip(lp, v["control_blocks"]):
                cb = control_block(lf[0], parity, internal, path)
                assert cb.hex() == want, (cb.hex(), want)
                c = parse_control_block(cb)
                assert control_block(c["leaf_version"], c["parity"], c["internal"], c["path"]) == cb
                assert verify_commitment(cb, lf[1], ec.b32(q[0]))
                assert commitment(cb, lf[1]) == (ec.b32(q[0]), parity)
                flipped = bytes([cb[0] ^ 1]) + cb[1:]
                assert not verify_commitment(flipped, lf[1], ec.b32(q[0]))
                assert not verify_commitment(cb, lf[1] + b"\x00", ec.b32(q[0]))
    for priv, root, internal, tweak, tweaked in BIP341_KEYPATH_VECTORS:
        d = int(priv, 16)
        root_b = bytes.fromhex(root) if root else b""
        assert ec.b32(ec.mul(d)[0]).hex() == internal
        assert taptweak(bytes.fromhex(internal), root_b).hex() == tweak
        dd = tweak_seckey(d, root_b)
        assert "%064x" % dd == tweaked
        q, _ = output_key(bytes.fromhex(internal), root_b)
        assert ec.mul(dd)[0] == q[0]
    for row in MUSIG_KEYAGG_VECTORS:
        keys = [bytes.fromhex(h) for h in row[:-1]]
        q, coefs = musig_keyagg(keys)
        assert ec.b32(q[0]).hex() == row[-1]
        q2, _ = musig_keyagg(list(reversed(keys)))
        assert q2 == q and coefs[sorted(keys)[1]] == 1
    assert [len(all_shapes(n)) for n in range(1, 9)] == [1, 1, 2, 5, 14, 42, 132, 429]
    assert max(max_depth(s) for s in all_shapes(8)) == 7
    return True
