"""Reference BIP174 key-value container codec (structure only).  Never imports buidl.

decode(bytes) -> {"global": [(key, value), ...], "ins": [[(key, value), ...], ...], "outs": [...], "tx": model}
encode(maps)  -> bytes
"""
from ref.txcodec import Reader, compact_size, decode as tx_decode

MAGIC = b"psbt\xff"


def read_map(r):
    out = []
    while True:
        klen = r.compact()
        if klen == 0:
            return out
        key = r.take(klen)
        val = r.varbytes()
        out.append((key, val))


def decode(data):
    if data[:5] != MAGIC:
        raise ValueError("bad magic")
    r = Reader(data, 5)
    g = read_map(r)
    utx = [v for k, v in g if k == b"\x00"]
    if len(utx) != 1:
        raise ValueError("exactly one unsigned tx required")
    tx, end = tx_decode(utx[0])
    if end != len(utx[0]):
        raise ValueError("trailing bytes after the unsigned transaction")
    ins = [read_map(r) for _ in tx["ins"]]
    outs = [read_map(r) for _ in tx["outs"]]
    if r.p != len(data):
        raise ValueError("trailing bytes")
    return {"global": g, "ins": ins, "outs": outs, "tx": tx, "tx_raw": utx[0]}


def write_map(m):
    out = b""
    for k, v in m:
        out += compact_size(len(k)) + k + compact_size(len(v)) + v
    return out + b"\x00"


def encode(maps):
    return MAGIC + write_map(maps["global"]) + b"".join(write_map(m) for m in maps["ins"]) + b"".join(write_map(m) for m in maps["outs"])


def has_duplicate_keys(maps):
    for m in [maps["global"]] + maps["ins"] + maps["outs"]:
        ks = [k for k, _ in m]
        if len(ks) != len(set(ks)):
            return True
    return False


def selfcheck():
    # BIP174 test vector: "PSBT with one P2PKH input. Outputs are empty"
    raw = bytes.fromhex(
        "70736274ff0100750200000001268171371edff285e937adeea4b37b78000c0566cbb3ad64641713ca42171bf60000000000feffffff02d3dff505000000001976a914d0c59903c5bac2868760e90fd521a4665aa7652088ac00e1f5050000000017a9143545e6e33b832c47050f24d3eeb93c9c03948bc787b32e1300000100fda5010100000000010289a3c71eab4d20e0371bbba4cc698fa295c9463afa2e397f8533ccb62f9567e50100000017160014be18d152a9b012039daf3da7de4f53349eecb985ffffffff86f8aa43a71dff1448893a530a7237ef6b4608bbb2dd2d0171e63aec6a4890b40100000017160014fe3e9ef1a745e974d902c4355943abcb34bd5353ffffffff0200c2eb0b000000001976a91485cff1097fd9e008bb34af709c62197b38978a4888ac72fef84e2c00000017a914339725ba21efd62ac753a9bcd067d6c7a6a39d05870247304402202712be22e0270f394f568311dc7ca9a68970b8025fdd3b240229f07f8a5f3a240220018b38d7dcd314e734c9276bd6fb40f673325bc4baa144c800d2f2f02db2765c012103d2e15674941bad4a996372cb87e1856d3652606d98562fe39c5e9e7e413f210502483045022100d12b852d85dcd961d2f5f4ab660654df6eedcc794c0c33ce5cc309ffb5fce58d022067338a8e0e1725c197fb1a88af59f51e44e4255b20167c8684031c05d1f2592a01210223b72beef0965d10be0778efecd61fcac6f79a4ea169393380734464f84f2ab300000000000000"
    )
    m = decode(raw)
    assert len(m["ins"]) == 1 and len(m["outs"]) == 2 and not m["tx"]["segwit"]
    assert m["ins"][0][0][0] == b"\x00" and encode(m) == raw and not has_duplicate_keys(m)
    return True
