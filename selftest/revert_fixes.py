#!/venv/bin/python
"""Every repaired defect must be reported again if it ever returns.

For each `fix:` commit of /repo (mapped to its property by tools/gen_fixed.py) the commit is reverse-applied to a
throw-away copy of /repo's HEAD (VERIF_REPO_ROOT), the property's quick check is run against that copy and is
expected to exit 1 with a VIOLATION line.  A fix whose reverse patch no longer applies (later fixes rewrote the same
lines) is recorded as `superseded`.  Results: selftest/reverted_fixes.json.

    selftest/revert_fixes.py [commit ...]
"""
import json
import os
import re
import shutil
import subprocess
import sys
import time

ROOT = os.path.dirname(os.path.dirname(os.path.abspath(__file__)))


def sh(*cmd, **kw):
    return subprocess.run(cmd, capture_output=True, text=True, **kw)


def main():
    kf = json.load(open(os.path.join(ROOT, "known_findings.json")))
    entries = []
    for line in kf["fixed"]:
        m = re.match(r"fixed: property=(C\d+) ([0-9a-f]+) (.*)", line)
        if m:
            entries.append(m.groups())
    want = set(sys.argv[1:])
    rpath = os.path.join(ROOT, "selftest", "reverted_fixes.json")
    results = json.load(open(rpath)) if os.path.exists(rpath) and want else {}
    scratch = f"/tmp/revert-repo-{os.getpid()}"
    for prop, commit, what in entries:
        if want and commit not in want and not any(commit.startswith(w) for w in want):
            continue
        shutil.rmtree(scratch, ignore_errors=True)
        os.makedirs(scratch)
        p = subprocess.run(f"git -C /repo archive HEAD | tar -x -C {scratch}", shell=True)
        diff = sh("git", "-C", "/repo", "diff", f"{commit}~1", commit).stdout
        r = subprocess.run(["patch", "-R", "-p1", "-s", "--no-backup-if-mismatch", "-f"], input=diff, text=True, cwd=scratch, capture_output=True)
        subj = sh("git", "-C", "/repo", "log", "-1", "--format=%s", commit).stdout.strip()
        if r.returncode != 0:
            results[commit] = {"property": prop, "subject": subj, "outcome": "superseded", "detail": (r.stdout + r.stderr)[-200:]}
            print(f"{commit} {prop}: superseded (reverse patch does not apply)")
            continue
        t0 = time.time()
        env = dict(os.environ, VERIF_REPO_ROOT=scratch)
        c = sh(os.path.join(ROOT, "vcheck"), prop, "--tier", "quick", env=env, cwd=ROOT)
        mechs = sorted(set(re.findall(r"mechanism=(\S+)", c.stdout)))
        outcome = "reported" if c.returncode == 1 and "VIOLATION property=" + prop in c.stdout else f"NOT-REPORTED(exit {c.returncode})"
        results[commit] = {"property": prop, "subject": subj, "outcome": outcome, "mechanisms": mechs[:6], "wall_s": round(time.time() - t0, 1)}
        print(f"{commit} {prop}: {outcome} {mechs[:3]}")
        sys.stdout.flush()
        with open(rpath, "w") as f:
            json.dump(results, f, indent=1, sort_keys=True)
    shutil.rmtree(scratch, ignore_errors=True)
    with open(rpath, "w") as f:
        json.dump(results, f, indent=1, sort_keys=True)
    bad = [c for c, r in results.items() if r["outcome"].startswith("NOT")]
    print(f"{len(results)} fixes: {sum(r['outcome'] == 'reported' for r in results.values())} reported, "
          f"{sum(r['outcome'] == 'superseded' for r in results.values())} superseded, {len(bad)} not reported")
    return 1 if bad else 0


if __name__ == "__main__":
    sys.exit(main())
