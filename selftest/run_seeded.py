#!/venv/bin/python
"""Apply each seeded property-breaking change to /repo, run the property's check, restore /repo.

    selftest/run_seeded.py [--tier quick|thorough] [--also C06,C04] [id ...]      (default: every /verif/seeded/*)

For every seeded change the expected outcome is exit 1 (VIOLATION).  Results are written to
selftest/results.json (id -> {property, exit, mechanisms, wall_s}).  /repo is restored with
`git checkout -- .` after every change, also when the check crashes.
"""
import argparse
import json
import os
import subprocess
import sys
import time

ROOT = os.path.dirname(os.path.dirname(os.path.abspath(__file__)))
REPO = "/repo"


def sh(*cmd, **kw):
    return subprocess.run(cmd, capture_output=True, text=True, **kw)


def repo_clean():
    out = sh("git", "-C", REPO, "status", "--porcelain", "--untracked-files=no").stdout.strip()
    return out == ""


def main():
    ap = argparse.ArgumentParser()
    ap.add_argument("ids", nargs="*")
    ap.add_argument("--tier", default="quick")
    ap.add_argument("--also", default="", help="comma-separated extra properties to run against every change")
    ap.add_argument("--scratch", action="store_true",
                    help="work on a throw-away copy of /repo (VERIF_REPO_ROOT) instead of /repo itself - for use while "
                         "other runs are observing /repo; the copy is removed afterwards")
    args = ap.parse_args()
    global REPO
    env = dict(os.environ)
    env["VERIF_SELFTEST"] = "1"  # evidence of these runs goes to .work/evidence-scratch, never to evidence/
    if args.scratch:
        import shutil
        scratch = f"/tmp/selftest-repo-{os.getpid()}"
        shutil.copytree("/repo", scratch, symlinks=True, ignore=shutil.ignore_patterns("__pycache__", "*.egg-info"))
        REPO = scratch
        env["VERIF_REPO_ROOT"] = scratch
    try:
        return run(args, env)
    finally:
        if args.scratch:
            shutil.rmtree(REPO, ignore_errors=True)


def run(args, env):
    sdir = os.path.join(ROOT, "seeded")
    ids = args.ids or sorted(d for d in os.listdir(sdir) if os.path.isdir(os.path.join(sdir, d)))
    if not repo_clean():
        print("refusing to run: /repo has uncommitted changes to tracked files")
        return 2
    rpath = os.path.join(ROOT, "selftest", "results-scratch.json" if args.scratch else "results.json")
    results = json.load(open(rpath)) if os.path.exists(rpath) else {}
    for sid in ids:
        d = os.path.join(sdir, sid)
        meta = json.load(open(os.path.join(d, "meta.json")))
        props = [meta["property"]] + list(meta.get("also_check", [])) + [p for p in args.also.split(",") if p and p not in meta.get("also_check", [])]
        patch = os.path.join(d, "patch.diff")
        chk = sh("git", "-C", REPO, "apply", "--check", patch)
        if chk.returncode != 0:
            print(f"{sid}: patch does not apply: {chk.stderr.strip()[:200]}")
            results[sid] = {"property": meta["property"], "error": "patch does not apply"}
            continue
        try:
            sh("git", "-C", REPO, "apply", patch)
            for prop in props:
                t0 = time.time()
                r = sh(os.path.join(ROOT, "vcheck"), prop, "--tier", args.tier, cwd=ROOT, env=env)
                mechs = sorted({l.split("mechanism=")[1].split(" what=")[0] for l in r.stdout.splitlines() if "mechanism=" in l})
                key = sid if prop == meta["property"] else f"{sid}@{prop}"
                results[key] = {"property": prop, "tier": args.tier, "exit": r.returncode, "caught": r.returncode == 1,
                                "mechanisms": mechs[:8], "wall_s": round(time.time() - t0, 1),
                                "inconclusive": [l for l in r.stdout.splitlines() if l.startswith("INCONCLUSIVE")][:1]}
                print(f"{key}: exit {r.returncode} {'CAUGHT' if r.returncode == 1 else 'MISSED'} {mechs[:3]}")
        finally:
            sh("git", "-C", REPO, "checkout", "--", ".")
        json.dump(results, open(rpath, "w"), indent=1, sort_keys=True)
    if not repo_clean():
        print("WARNING: /repo not clean after run")
        return 2
    return 0


if __name__ == "__main__":
    sys.exit(main())
