#!/venv/bin/python
"""Confirm a sub-agent's seeded change before it is kept under /verif/seeded/.

    selftest/confirm_seed.py <dir with patch.diff demo.py meta.json> [...]

For each directory, on a throw-away `git archive HEAD` copy of /repo (never /repo itself):
  1. demo.py exits 0 on the unchanged copy;
  2. patch.diff applies (`git apply`), the package still imports;
  3. demo.py exits non-zero with the patch;
  4. the repository test modules that mention a changed module's name still pass (`-k "not socket_guard"`).
Prints one JSON line per directory; exit 0 iff every directory is confirmed.
"""
import json
import os
import re
import shutil
import subprocess
import sys

PY = "/venv/bin/python"


def sh(cmd, cwd=None, env=None, timeout=1500):
    try:
        p = subprocess.run(cmd, cwd=cwd, env=env, capture_output=True, text=True, timeout=timeout)
        return p.returncode, (p.stdout + p.stderr)[-1500:]
    except subprocess.TimeoutExpired:
        return 124, "timeout"


def confirm(d):
    d = os.path.abspath(d)
    work = f"/tmp/confirm-{os.getpid()}-{os.path.basename(os.path.dirname(d))}-{os.path.basename(d)}"
    shutil.rmtree(work, ignore_errors=True)
    os.makedirs(work)
    res = {"dir": d}
    try:
        subprocess.run(f"git -C /repo archive HEAD | tar -x -C {work}", shell=True, check=True)
        subprocess.run(["git", "init", "-q"], cwd=work, check=True)
        env = dict(os.environ, PYTHONPATH=work, PYTHONDONTWRITEBYTECODE="1")
        env.pop("BUIDL_VERIF", None)
        rc, out = sh([PY, os.path.join(d, "demo.py")], cwd=work, env=env, timeout=600)
        res["demo_unpatched"] = rc
        if rc != 0:
            res["why"] = out[-400:]
            return res
        rc, out = sh(["git", "apply", os.path.join(d, "patch.diff")], cwd=work)
        res["apply"] = rc
        if rc != 0:
            res["why"] = out[-400:]
            return res
        rc, out = sh([PY, "-c", "import buidl, sys; sys.exit(0 if buidl.__file__.startswith(%r) else 3)" % work],
                     cwd=work, env=env)
        res["import"] = rc
        rc, out = sh([PY, os.path.join(d, "demo.py")], cwd=work, env=env, timeout=600)
        res["demo_patched"] = rc
        files = re.findall(r"^\+\+\+ b/(\S+)", open(os.path.join(d, "patch.diff")).read(), re.M)
        res["files"] = files
        if any(not f.startswith("buidl/") or "/test/" in f for f in files):
            res["why"] = "patch touches tests or files outside buidl/"
            return res
        mods = {os.path.basename(f)[:-3] for f in files}
        tests = []
        for t in sorted(os.listdir(os.path.join(work, "buidl/test"))):
            if not (t.startswith("test_") and t.endswith(".py")):
                continue
            if t in ("test_multiwallet.py", "test_singlesweep.py"):
                continue  # pexpect CLI tests: 2 s timeouts, only meaningful on an idle machine
            src = open(os.path.join(work, "buidl/test", t)).read()
            if any(re.search(r"\b%s\b" % m, src) for m in mods):
                tests.append("buidl/test/" + t)
        res["test_modules"] = len(tests)
        rc, out = sh([PY, "-m", "pytest", "-q", "-p", "no:cacheprovider", "-p", "no:rerunfailures", "-n", "6",
                      "-k", "not socket_guard", "--deselect",
                      "buidl/test/test_taproot.py::TaprootTest::test_p2tr_validation"] + tests, cwd=work, env=env)
        res["tests"] = rc
        res["tests_tail"] = out.strip().splitlines()[-1] if out.strip() else ""
        res["confirmed"] = (res["demo_patched"] != 0 and res["import"] == 0 and rc == 0)
        return res
    finally:
        shutil.rmtree(work, ignore_errors=True)


def main():
    ok = True
    for d in sys.argv[1:]:
        r = confirm(d)
        print(json.dumps(r), flush=True)
        ok &= bool(r.get("confirmed"))
    return 0 if ok else 1


if __name__ == "__main__":
    sys.exit(main())
