"""C10: a partial signature that verifies under no digest is accepted on load when the
input is a P2SH output given as witness UTXO and carries no RedeemScript.
Exit 0 = junk signature rejected, exit 1 = defect present."""
import sys
from io import BytesIO

import buidl

assert buidl.__file__.startswith("/tmp/audit-h"), buidl.__file__
from buidl.ecc import PrivateKey
from buidl.hd import HDPrivateKey
from buidl.helper import encode_varint
from buidl.psbt import PSBT
from buidl.script import P2WPKHScriptPubKey, RedeemScript, Script
from buidl.tx import Tx, TxIn, TxOut


def kv(key, value):
    return encode_varint(len(key)) + key + encode_varint(len(value)) + value


# an ordinary p2sh-p2wpkh coin
root = HDPrivateKey.from_seed(b"audit-h p2sh junk sig", network="testnet")
key = root.traverse("m/49'/1'/0'/0/0")
redeem_script = RedeemScript([0, key.pub.hash160()])
funding = Tx(
    1,
    [TxIn(b"\x01" * 32, 0, script_sig=Script([b"\x01\x02\x03"]))],
    [TxOut(100000, redeem_script.script_pubkey())],
    0,
    network="testnet",
)
spend = Tx(
    2,
    [TxIn(funding.hash(), 0)],
    [TxOut(99000, P2WPKHScriptPubKey(b"\x11" * 20))],
    0,
    network="testnet",
)

# a signature by an unrelated key over an unrelated message
junk_key = PrivateKey(12345)
junk_sig = junk_key.sign(999).der() + b"\x01"

witness_utxo = kv(b"\x01", funding.tx_outs[0].serialize())
partial_sig = kv(b"\x02" + junk_key.point.sec(), junk_sig)
raw = (
    b"psbt\xff"
    + kv(b"\x00", spend.serialize_legacy())
    + b"\x00"
    # input map: witness UTXO (a P2SH output), partial signature, no RedeemScript
    + witness_utxo
    + partial_sig
    + b"\x00"
    # output map
    + b"\x00"
)

try:
    psbt = PSBT.parse(BytesIO(raw), network="testnet")
except ValueError as e:
    print("OK: junk partial signature rejected on load:", str(e)[:60])
    sys.exit(0)

# control: the same junk signature with the non-witness form of the same UTXO is refused
control = (
    b"psbt\xff"
    + kv(b"\x00", spend.serialize_legacy())
    + b"\x00"
    + kv(b"\x00", funding.serialize())
    + partial_sig
    + b"\x00"
    + b"\x00"
)
try:
    PSBT.parse(BytesIO(control), network="testnet")
    control_result = "accepted"
except ValueError:
    control_result = "rejected"

print(
    "DEFECT: PSBT.parse accepted a partial signature that verifies under neither the "
    "legacy nor the BIP143 digest (P2SH witness UTXO, no RedeemScript); it is kept and "
    f"re-serialised: {psbt.serialize() == raw}. Same signature with the non-witness UTXO: {control_result}."
)
sys.exit(1)
