"""C10 / regression of 5bb036b: a PSBT whose input carries a WitnessScript (and key
derivations) but no UTXO record yet - a legitimate intermediate Updater state - is refused
with "WitnessScript defined for non-witness input".
Exit 0 = parses and round-trips, exit 1 = defect present."""
import sys
from io import BytesIO

import buidl

assert buidl.__file__.startswith("/tmp/audit-h"), buidl.__file__
from buidl.hd import HDPrivateKey
from buidl.helper import encode_varint
from buidl.psbt import PSBT, serialize_binary_path
from buidl.script import P2WPKHScriptPubKey, WitnessScript
from buidl.tx import Tx, TxIn, TxOut


def kv(key, value):
    return encode_varint(len(key)) + key + encode_varint(len(value)) + value


roots = [HDPrivateKey.from_seed(b"audit-h no-utxo %d" % i, network="testnet") for i in range(2)]
path = "m/48'/1'/0'/2'/0/0"
pubs = [r.traverse(path).pub for r in roots]
secs = sorted(p.sec() for p in pubs)
witness_script = WitnessScript([0x52] + secs + [0x52, 0xAE])

spend = Tx(
    2,
    [TxIn(b"\x22" * 32, 0)],
    [TxOut(99000, P2WPKHScriptPubKey(b"\x11" * 20))],
    0,
    network="testnet",
)
derivs = b""
for r, p in sorted(zip(roots, pubs), key=lambda rp: rp[1].sec()):
    derivs += kv(b"\x06" + p.sec(), r.fingerprint() + serialize_binary_path(path))
raw = (
    b"psbt\xff"
    + kv(b"\x00", spend.serialize_legacy())
    + b"\x00"
    # input map: the Updater knows the script and the keys, not (yet) the UTXO
    + kv(b"\x05", witness_script.raw_serialize())
    + derivs
    + b"\x00"
    + b"\x00"
)
try:
    psbt = PSBT.parse(BytesIO(raw), network="testnet")
except Exception as e:
    print(f"DEFECT: valid PSBT (WitnessScript + derivations, UTXO not yet added) refused: {type(e).__name__}: {e}")
    sys.exit(1)
if psbt.serialize() != raw:
    print("DEFECT: round trip differs")
    sys.exit(1)
print("OK: parsed and round-tripped")
sys.exit(0)
