"""C10: a PSBT whose PSBT_IN_SIGHASH_TYPE value is longer than 4 bytes is accepted by
PSBT.parse but the parsed object cannot be serialised (OverflowError).
Exit 0 = refused on parse or serialises idempotently, exit 1 = defect present."""
import sys
from io import BytesIO

import buidl

assert buidl.__file__.startswith("/tmp/audit-h"), buidl.__file__
from buidl.helper import encode_varint
from buidl.psbt import PSBT
from buidl.script import P2WPKHScriptPubKey
from buidl.tx import Tx, TxIn, TxOut


def kv(key, value):
    return encode_varint(len(key)) + key + encode_varint(len(value)) + value


spend = Tx(
    2,
    [TxIn(b"\x22" * 32, 0)],
    [TxOut(99000, P2WPKHScriptPubKey(b"\x11" * 20))],
    0,
    network="testnet",
)
utxo = TxOut(100000, P2WPKHScriptPubKey(b"\x33" * 20))
raw = (
    b"psbt\xff"
    + kv(b"\x00", spend.serialize_legacy())
    + b"\x00"
    + kv(b"\x01", utxo.serialize())
    # sighash type: BIP174 says <32-bit little endian uint>; here 5 bytes
    + kv(b"\x03", bytes.fromhex("0100000001"))
    + b"\x00"
    + b"\x00"
)
try:
    psbt = PSBT.parse(BytesIO(raw), network="testnet")
except (ValueError, KeyError, SyntaxError, IOError) as e:
    print("OK: refused on parse:", e)
    sys.exit(0)
try:
    s1 = psbt.serialize()
except OverflowError as e:
    print(
        f"DEFECT: PSBT.parse accepted a 5-byte sighash type (hash_type={psbt.psbt_ins[0].hash_type:#x}) "
        f"and serialize() of the parsed object raises OverflowError: {e}"
    )
    sys.exit(1)
s2 = PSBT.parse(BytesIO(s1), network="testnet").serialize()
if s1 != s2:
    print("DEFECT: re-serialisation is not stable")
    sys.exit(1)
print("OK: serialises idempotently")
sys.exit(0)
