"""C07: OP_CHECKSEQUENCEVERIFY reads its operand as a script number of at most 5 bytes and masks it
with 0x0040ffff before comparing (BIP112)."""
import sys, io, contextlib, hashlib
import buidl
assert buidl.__file__.startswith('/tmp/audit-a'), buidl.__file__
from buidl.script import Script
from buidl.tx import Tx, TxIn, TxOut

CSV, SHA256, DROP = 0xB2, 0xA8, 0x75
problems = []

def run(commands, version, sequence):
    tx = Tx(version, [TxIn(b"\x00" * 32, 0, None, sequence)], [TxOut(1, Script([0x51]))], 0)
    with contextlib.redirect_stdout(io.StringIO()):
        try:
            return Script(list(commands)).evaluate(tx, 0)
        except Exception as e:
            return f"raised {e!r}"

# (a) operand longer than 5 bytes: consensus fails the script ("script number overflow"),
#     whatever the bits are.  A 32-byte hash with bit 31 set and the sign bit clear is treated as a NOP here.
preimage = None
for i in range(1000):
    h = hashlib.sha256(bytes([i & 0xFF, i >> 8])).digest()
    if h[-1] < 0x80 and h[3] & 0x80:  # positive, bit 31 set
        preimage = bytes([i & 0xFF, i >> 8])
        break
got = run([preimage, SHA256, CSV], 2, 5)
if got is not False and not str(got).startswith("raised"):
    problems.append(f"<32-byte operand> CSV: library {got}, consensus False (operand > 5 bytes)")

# (b) 5-byte operand 2^32+5 (bytes 05 00 00 00 01): disable flag clear, masked value = 5 blocks.
#     version 2, nSequence 5 -> consensus: satisfied, script result True.
got = run([bytes.fromhex("0500000001"), CSV], 2, 5)
if got is not True:
    problems.append(f"<0500000001> CSV with nSequence=5, version 2: library {got}, consensus True")

if problems:
    print("DEFECT (CSV operand width / masking):")
    for p in problems:
        print("  -", p)
    sys.exit(1)
print("ok")
