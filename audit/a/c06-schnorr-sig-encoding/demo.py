"""C06/C05 (BIP341 "Signature validation rules"): a taproot signature is 64 bytes (SIGHASH_DEFAULT) or
65 bytes with a final hash_type byte in {01,02,03,81,82,83}; any other size, a 65-byte signature ending
in 00 and any other hash_type byte FAIL validation.  verify_input must not report such spends valid."""
import sys, io, contextlib
import buidl
assert buidl.__file__.startswith('/tmp/audit-a'), buidl.__file__
from buidl.ecc import PrivateKey
from buidl.script import P2PKHScriptPubKey
from buidl.taproot import MultiSigTapScript
from buidl.tx import Tx, TxIn, TxOut
from buidl.witness import Witness

def make_tx(script_pubkey):
    tx_in = TxIn(b"\x01" * 32, 0, None, 0xFFFFFFFE)
    tx_in._value = 100000
    tx_in._script_pubkey = script_pubkey
    return Tx(2, [tx_in], [TxOut(99000, P2PKHScriptPubKey(b"\x11" * 20))], 0, segwit=True)

def verify(tx):
    with contextlib.redirect_stdout(io.StringIO()):
        try:
            return tx.verify_input(0)
        except Exception as e:
            return f"raised {type(e).__name__}"

problems = []
key = PrivateKey(1000)

# key path
tx = make_tx(key.point.p2tr_script())
sig = tx.get_sig_taproot(0, key.tweaked_key())  # 64 bytes, SIGHASH_DEFAULT
tx.tx_ins[0].witness = Witness([sig])
assert verify(tx) is True
for name, bad in [
    ("64-byte sig + explicit hash_type 00 (65 bytes)", sig + b"\x00"),
    ("66 bytes (sig + 00 00)", sig + b"\x00\x00"),
    ("74 bytes (sig + 10 junk bytes)", sig + b"\xaa" * 10),
]:
    tx.tx_ins[0].witness = Witness([bad])
    res = verify(tx)
    if res is True:
        problems.append(f"key path, {name}: verify_input True, BIP341: fail")
for ht in (0x04, 0x80, 0x84, 0x41):
    tx.tx_ins[0].witness = Witness([])
    sig_ht = tx.get_sig_taproot(0, key.tweaked_key(), hash_type=ht)
    tx.tx_ins[0].witness = Witness([sig_ht])
    res = verify(tx)
    if res is True:
        problems.append(f"key path, undefined hash_type {ht:#04x}: verify_input True, BIP341: fail")

# script path (tapscript CHECKSIG), BIP342 uses the same signature rules
leaf_script = MultiSigTapScript([key.point], 1)
leaf = leaf_script.tap_leaf()
internal = PrivateKey(5).point
tx = make_tx(internal.p2tr_script(leaf.hash()))
cb = leaf.control_block(internal).serialize()
tx.tx_ins[0].witness = Witness([leaf_script.raw_serialize(), cb])
sig = tx.get_sig_taproot(0, key, ext_flag=1)
tx.tx_ins[0].witness = Witness([sig, leaf_script.raw_serialize(), cb])
assert verify(tx) is True
for name, bad in [("sig + 00", sig + b"\x00"), ("sig + 3 junk bytes", sig + b"\x01\x02\x03")]:
    tx.tx_ins[0].witness = Witness([bad, leaf_script.raw_serialize(), cb])
    if verify(tx) is True:
        problems.append(f"script path, {name}: verify_input True, BIP342: fail")

if problems:
    print("DEFECT (malformed taproot signatures accepted):")
    for p in problems:
        print("  -", p)
    sys.exit(1)
print("ok")
