"""C07: every OP_ELSE of an IF block toggles execution (IF A ELSE B ELSE C ENDIF runs A and C when true, B when false)."""
import sys, io, contextlib
import buidl
assert buidl.__file__.startswith('/tmp/audit-a'), buidl.__file__
from buidl.script import Script
from buidl.tx import Tx, TxIn, TxOut

tx = Tx(2, [TxIn(b"\x00" * 32, 0)], [TxOut(1, Script([0x51]))], 0)
IF, NOTIF, ELSE, ENDIF = 99, 100, 103, 104
cases = [
    # (commands, consensus result, description)
    ([0x51, IF, 0x00, ELSE, 0x00, ELSE, 0x51, ENDIF], True, "1 IF 0 ELSE 0 ELSE 1 ENDIF"),
    ([0x00, IF, 0x00, ELSE, 0x00, ELSE, 0x51, ENDIF], False, "0 IF 0 ELSE 0 ELSE 1 ENDIF"),
    ([0x00, NOTIF, 0x00, ELSE, 0x00, ELSE, 0x51, ENDIF], True, "0 NOTIF 0 ELSE 0 ELSE 1 ENDIF"),
    ([0x51, NOTIF, 0x00, ELSE, 0x00, ELSE, 0x51, ENDIF], False, "1 NOTIF 0 ELSE 0 ELSE 1 ENDIF"),
    # three ELSEs: true -> A, C ; false -> B, D
    ([0x51, IF, 0x00, ELSE, 0x00, ELSE, 0x51, ELSE, 0x00, ENDIF], True, "1 IF 0 ELSE 0 ELSE 1 ELSE 0 ENDIF"),
]
problems = []
for commands, expected, text in cases:
    with contextlib.redirect_stdout(io.StringIO()):
        try:
            got = Script(list(commands)).evaluate(tx, 0)
        except Exception as e:  # an error counts as rejection
            got = False
    if bool(got) != expected:
        problems.append(f"{text}: library {got}, consensus {expected}")
if problems:
    print("DEFECT (second and later OP_ELSE do not toggle execution):")
    for p in problems:
        print("  -", p)
    sys.exit(1)
print("ok")
