"""C04: parse + re-serialise reproduces the input bytes and Tx.id() is the double-SHA256 of the
witness-stripped serialisation that was parsed.  Scripts whose pushes are not in the shortest form
(consensus-valid, present on mainnet) are silently rewritten; pushes longer than 520 bytes make
serialisation raise."""
import sys, hashlib
from io import BytesIO
import buidl
assert buidl.__file__.startswith('/tmp/audit-a'), buidl.__file__
from buidl.tx import Tx

def h256(b):
    return hashlib.sha256(hashlib.sha256(b).digest()).digest()

def legacy_tx(script_sig, script_pubkey):
    def vs(b):
        assert len(b) < 0xFD or True
        n = len(b)
        return (bytes([n]) if n < 0xFD else b"\xfd" + n.to_bytes(2, "little")) + b
    return (
        (1).to_bytes(4, "little") + b"\x01" + b"\x11" * 32 + (0).to_bytes(4, "little")
        + vs(script_sig) + b"\xff\xff\xff\xff" + b"\x01" + (1000).to_bytes(8, "little")
        + vs(script_pubkey) + (0).to_bytes(4, "little")
    )

problems = []
cases = {
    "PUSHDATA1 of 3 bytes in the scriptSig": legacy_tx(bytes.fromhex("4c03aabbcc"), b"\x51"),
    "PUSHDATA2 of 80 bytes in the scriptSig": legacy_tx(b"\x4d\x50\x00" + b"\x07" * 80, b"\x51"),
    "PUSHDATA4 of 1 byte in the scriptPubKey": legacy_tx(b"", b"\x6a\x4e\x01\x00\x00\x00\x42"),
    "521-byte push in an OP_RETURN scriptPubKey": legacy_tx(b"", b"\x6a\x4d\x09\x02" + b"\x00" * 521),
}
for name, raw in cases.items():
    true_id = h256(raw)[::-1].hex()
    try:
        tx = Tx.parse(BytesIO(raw))
        out = tx.serialize()
        got_id = tx.id()
    except Exception as e:
        problems.append(f"{name}: {e!r}")
        continue
    if out != raw or got_id != true_id:
        problems.append(f"{name}: re-serialisation differs ({len(raw)} -> {len(out)} bytes), id {got_id[:16]}.. instead of {true_id[:16]}..")
if problems:
    print("DEFECT (push opcode form is not preserved by parse/serialise):")
    for p in problems:
        print("  -", p)
    sys.exit(1)
print("ok")
