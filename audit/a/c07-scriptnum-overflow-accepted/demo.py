"""C07: numeric opcodes fail the script when an operand is longer than 4 bytes (CScriptNum nMaxNumSize = 4).
Results may overflow to 5 bytes, but such a result cannot be used as a numeric operand again."""
import sys, io, contextlib
import buidl
assert buidl.__file__.startswith('/tmp/audit-a'), buidl.__file__
from buidl.script import Script
from buidl.tx import Tx, TxIn, TxOut

tx = Tx(2, [TxIn(b"\x00" * 32, 0)], [TxOut(1, Script([0x51]))], 0)
MAXINT = bytes.fromhex("ffffff7f")  # 2^31-1, a legal 4-byte operand
cases = [
    ([MAXINT, 0x76, 0x93, 0x8B], "2147483647 DUP ADD 1ADD"),          # ADD result is 5 bytes, 1ADD must fail
    ([MAXINT, 0x76, 0x93, 0x92], "2147483647 DUP ADD 0NOTEQUAL"),
    ([MAXINT, 0x76, 0x93, MAXINT, 0xA0], "2147483647 DUP ADD 2147483647 GREATERTHAN"),
    ([bytes.fromhex("0000000001"), 0x92], "<0000000001> 0NOTEQUAL"),
    ([0x51, bytes.fromhex("0000000000"), 0x79], "1 <0000000000> PICK"),
]
problems = []
for commands, text in cases:
    with contextlib.redirect_stdout(io.StringIO()):
        try:
            got = Script(list(commands)).evaluate(tx, 0)
        except Exception:
            got = False
    if got:
        problems.append(f"{text}: library True, consensus False (operand longer than 4 bytes)")
if problems:
    print("DEFECT (5-byte numeric operands accepted):")
    for p in problems:
        print("  -", p)
    sys.exit(1)
print("ok")
