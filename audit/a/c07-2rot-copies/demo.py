"""C07: OP_2ROT must MOVE the 5th/6th items to the top (x1 x2 x3 x4 x5 x6 -> x3 x4 x5 x6 x1 x2)."""
import sys, io, contextlib
import buidl
assert buidl.__file__.startswith('/tmp/audit-a'), buidl.__file__
from buidl.op import op_2rot, OP_CODE_FUNCTIONS, TAPROOT_OP_CODE_FUNCTIONS
from buidl.script import Script
from buidl.tx import Tx, TxIn, TxOut

problems = []
stack = [b"\x01", b"\x02", b"\x03", b"\x04", b"\x05", b"\x06"]
ok = op_2rot(stack)
expected = [b"\x03", b"\x04", b"\x05", b"\x06", b"\x01", b"\x02"]
if not ok or stack != expected:
    problems.append(f"op_2rot([1..6]) -> {stack}, consensus -> {expected}")
assert OP_CODE_FUNCTIONS[113] is op_2rot and TAPROOT_OP_CODE_FUNCTIONS[113] is op_2rot

# whole-script consequence: 1 2 3 4 5 6 2ROT DEPTH 6 NUMEQUAL is TRUE under consensus
tx = Tx(2, [TxIn(b"\x00" * 32, 0)], [TxOut(1, Script([0x51]))], 0)
script = Script([0x51, 0x52, 0x53, 0x54, 0x55, 0x56, 113, 116, 0x56, 156])
with contextlib.redirect_stdout(io.StringIO()):
    res = script.evaluate(tx, 0)
if res is not True:
    problems.append(f"'1 2 3 4 5 6 2ROT DEPTH 6 NUMEQUAL' evaluates to {res}, consensus: True")

if problems:
    print("DEFECT (OP_2ROT copies instead of moving):")
    for p in problems:
        print("  -", p)
    sys.exit(1)
print("ok")
