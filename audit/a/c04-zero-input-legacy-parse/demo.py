"""C04: serialising then parsing a transaction built through the API reproduces every field,
for input counts 0..300.  A legacy (segwit=False) transaction without inputs does not survive Tx.parse."""
import sys
from io import BytesIO
import buidl
assert buidl.__file__.startswith('/tmp/audit-a'), buidl.__file__
from buidl.script import Script
from buidl.tx import Tx, TxOut

problems = []
for n_out in (0, 2, 3, 253):
    tx = Tx(1, [], [TxOut(5000 + i, Script([0x51])) for i in range(n_out)], 17, segwit=False)
    raw = tx.serialize()
    try:
        back = Tx.parse(BytesIO(raw))
        same = (
            back.serialize() == raw
            and len(back.tx_ins) == 0
            and len(back.tx_outs) == n_out
            and back.locktime == 17
            and back.id() == tx.id()
        )
        if not same:
            problems.append(f"0 inputs / {n_out} outputs: parsed transaction differs")
    except Exception as e:
        problems.append(f"0 inputs / {n_out} outputs: Tx.parse(tx.serialize()) raised {e!r}")
if problems:
    print("DEFECT (zero-input legacy transactions cannot be parsed back):")
    for p in problems:
        print("  -", p)
    sys.exit(1)
print("ok")
