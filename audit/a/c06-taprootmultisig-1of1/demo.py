"""C06: a 1-of-1 tapscript multisig (1 <= m <= n <= 5) must be constructible and spendable through the
TapRootMultiSig helper, like every other m-of-n."""
import sys, io, contextlib
import buidl
assert buidl.__file__.startswith('/tmp/audit-a'), buidl.__file__
from buidl.ecc import PrivateKey
from buidl.script import P2PKHScriptPubKey
from buidl.taproot import TapRootMultiSig, MuSigTapScript
from buidl.tx import Tx, TxIn, TxOut

key = PrivateKey(4242)
problems = []
try:
    multisig = TapRootMultiSig([key.point], 1)
except Exception as e:
    multisig = None
    problems.append(f"TapRootMultiSig([point], 1) raised {e!r}")
try:
    MuSigTapScript([key.point])
except Exception as e:
    problems.append(f"MuSigTapScript([point]) raised {e!r}")

if multisig is not None:
    leaf = multisig.single_leaf()
    internal = multisig.default_internal_pubkey
    tx_in = TxIn(b"\x01" * 32, 0, None, 0xFFFFFFFE)
    tx_in._value = 100000
    tx_in._script_pubkey = internal.p2tr_script(leaf.hash())
    tx = Tx(2, [tx_in], [TxOut(99000, P2PKHScriptPubKey(b"\x11" * 20))], 0, segwit=True)
    tx.initialize_p2tr_multisig(0, leaf.control_block(internal), leaf.tap_script)
    sig = tx.get_sig_taproot(0, key, ext_flag=1)
    with contextlib.redirect_stdout(io.StringIO()):
        ok = tx.finalize_p2tr_multisig(0, [sig])
    if ok is not True:
        problems.append(f"1-of-1 single-leaf spend verifies as {ok}")

if problems:
    print("DEFECT (1-of-1 taproot multisig cannot be built):")
    for p in problems:
        print("  -", p)
    sys.exit(1)
print("ok")
