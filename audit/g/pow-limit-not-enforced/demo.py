"""C17: Block.check_pow / HeadersMessage.is_valid accept a compact target above the
proof-of-work limit (consensus CheckProofOfWork rejects it whatever the hash is)."""
import inspect
import struct
import sys

import buidl

assert buidl.__file__.startswith("/tmp/audit-g"), buidl.__file__

from buidl.block import Block, GENESIS_BLOCK_MAINNET_HEX
from buidl.helper import hash256
from buidl.network import HeadersMessage

# powLimit of each network (chainparams.cpp)
POW_LIMIT = {
    "mainnet": 0xFFFF << 208,  # 00000000ffff...  (bits 1d00ffff)
    "testnet": 0xFFFF << 208,
    "signet": 0x377AE << 216,  # 00000377ae00...  (bits 1e0377ae)
    "regtest": 0x7FFFFF << 232,  # 7fffff00...      (bits 207fffff)
}


def core_check_pow(header80, network):
    """Bitcoin Core pow.cpp CheckProofOfWork"""
    n = int.from_bytes(header80[72:76], "little")
    size, word = n >> 24, n & 0x007FFFFF
    target = word >> 8 * (3 - size) if size <= 3 else word << 8 * (size - 3)
    negative = word != 0 and (n & 0x00800000) != 0
    overflow = word != 0 and (
        size > 34 or (word > 0xFF and size > 33) or (word > 0xFFFF and size > 32)
    )
    if negative or target == 0 or overflow or target > POW_LIMIT[network]:
        return False
    return int.from_bytes(hash256(header80), "little") <= target


def call(method, network):
    """pass the network if a fixed library grew such a parameter"""
    if "network" in inspect.signature(method).parameters:
        return method(network=network)
    return method()


failures = []
genesis = bytes.fromhex(GENESIS_BLOCK_MAINNET_HEX)
# (bits as they appear in the header, networks on which consensus rejects them)
cases = [
    ("ffff7f20", ["mainnet", "testnet", "signet"]),  # regtest limit on another network
    ("ffff0021", ["mainnet", "testnet", "signet", "regtest"]),  # above every limit
    ("ff000022", ["mainnet", "testnet", "signet", "regtest"]),  # above every limit
]
for bits_hex, networks in cases:
    raw = bytearray(genesis)
    raw[72:76] = bytes.fromhex(bits_hex)
    for nonce in range(1 << 20):
        raw[76:80] = struct.pack("<I", nonce)
        block = Block.parse_header(hex=bytes(raw).hex())
        if int.from_bytes(hash256(bytes(raw)), "little") <= block.target():
            break
    assert block.serialize() == bytes(raw)
    for network in networks:
        expected = core_check_pow(bytes(raw), network)
        assert expected is False
        got = call(block.check_pow, network)
        got_chain = call(HeadersMessage([block]).is_valid, network)
        if got != expected or got_chain != expected:
            failures.append(
                f"bits {bits_hex} target {block.target():#x} > {network} powLimit: "
                f"consensus CheckProofOfWork=False, check_pow()={got}, HeadersMessage.is_valid()={got_chain}"
            )

if failures:
    print("DEFECT: targets above the proof-of-work limit satisfy check_pow")
    for f in failures:
        print("  " + f)
    sys.exit(1)
print("ok: targets above the proof-of-work limit are refused")
