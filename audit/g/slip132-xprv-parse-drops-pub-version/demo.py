"""C08: an extended private key with SLIP-132 version bytes does not survive xprv() -> parse():
the parsed key serialises its public half under the plain xpub/tpub version."""
import sys

import buidl

assert buidl.__file__.startswith("/tmp/audit-g"), buidl.__file__

from buidl.hd import HDPrivateKey, HDPublicKey
from buidl.helper import raw_decode_base58

# SLIP-0132 pairs (private version, public version)
PAIRS = {
    "mainnet": [
        ("0488ade4", "0488b21e"),  # xprv / xpub
        ("049d7878", "049d7cb2"),  # yprv / ypub
        ("04b2430c", "04b24746"),  # zprv / zpub
        ("0295b005", "0295b43f"),  # Yprv / Ypub
        ("02aa7a99", "02aa7ed3"),  # Zprv / Zpub
    ],
    "testnet": [
        ("04358394", "043587cf"),  # tprv / tpub
        ("044a4e28", "044a5262"),  # uprv / upub
        ("045f18bc", "045f1cf6"),  # vprv / vpub
        ("024285b5", "024289ef"),  # Uprv / Upub
        ("02575048", "02575483"),  # Vprv / Vpub
    ],
}

failures = []
for network, pairs in PAIRS.items():
    for priv_hex, pub_hex in pairs:
        priv_version, pub_version = bytes.fromhex(priv_hex), bytes.fromhex(pub_hex)
        key = HDPrivateKey.from_seed(
            b"\x01" * 32, network=network, priv_version=priv_version, pub_version=pub_version
        ).traverse("m/84'/0'/0'")
        text = key.xprv()
        pub_text = key.xpub()
        assert raw_decode_base58(text)[:4] == priv_version
        assert raw_decode_base58(pub_text)[:4] == pub_version
        # the public key alone survives
        assert HDPublicKey.parse(pub_text).xpub() == pub_text
        parsed = HDPrivateKey.parse(text)
        assert parsed.xprv() == text
        if parsed.xpub() != pub_text or parsed.child(0).xpub() != key.child(0).xpub():
            failures.append(
                f"{text[:4]}: original .xpub() = {pub_text[:4]}..., after xprv()->parse() .xpub() = {parsed.xpub()[:4]}... "
                f"(version {raw_decode_base58(parsed.xpub())[:4].hex()} instead of {pub_hex})"
            )

if failures:
    print("DEFECT: SLIP-132 version bytes of an extended private key are not kept for its public half")
    for f in failures:
        print("  " + f)
    sys.exit(1)
print("ok: parsed extended private keys keep the SLIP-132 version pair")
