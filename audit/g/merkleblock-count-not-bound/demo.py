"""C17 (informational, protocol-inherent): a partial merkle tree that lies about the transaction
count validates against the real header and "proves" interior nodes as transaction ids."""
import sys

import buidl

assert buidl.__file__.startswith("/tmp/audit-g"), buidl.__file__

from buidl.block import Block
from buidl.helper import hash256, merkle_parent, merkle_root
from buidl.merkleblock import MerkleBlock

# a block with four transactions (ids in internal byte order)
txids = [hash256(bytes([i])) for i in range(4)]
root = merkle_root(list(txids))
header = Block(1, b"\x00" * 32, root[::-1], 0, bytes.fromhex("ffff001d"), b"\x00" * 4)

# honest proof of all four
honest = MerkleBlock(header, 4, [t[::-1] for t in txids], bytes([0b1111111]))
assert honest.is_valid() and honest.proved_txs() == [t[::-1] for t in txids]

# forged proof: says the block has TWO transactions, whose "ids" are the two interior nodes
left, right = merkle_parent(txids[0], txids[1]), merkle_parent(txids[2], txids[3])
forged = MerkleBlock(header, 2, [left[::-1], right[::-1]], bytes([0b111]))
valid = forged.is_valid()
yielded = forged.proved_txs() if valid else []
block_ids = {t[::-1] for t in txids}
foreign = [t for t in yielded if t not in block_ids]
if valid and foreign:
    print("DEFECT (protocol-inherent): forged proof validates and yields ids that are not transactions of the block")
    for t in foreign:
        print("  " + t.hex())
    sys.exit(1)
print("ok: forged transaction count is not accepted")
