"""C19: GetHeadersMessage serialises a hash count that does not describe the hashes that follow."""
import sys
from io import BytesIO

import buidl

assert buidl.__file__.startswith("/tmp/audit-g"), buidl.__file__

from buidl.helper import read_varint
from buidl.network import GetHeadersMessage


def protocol_decode(payload):
    """getheaders: version(4 LE) | hash count (compact size) | count x 32-byte locator | 32-byte stop"""
    s = BytesIO(payload)
    version = int.from_bytes(s.read(4), "little")
    count = read_varint(s)
    rest = s.read()
    if len(rest) != 32 * count + 32:
        raise ValueError(
            f"hash count {count} announces {32 * count + 32} bytes of hashes, payload carries {len(rest)}"
        )
    locator = [rest[32 * i : 32 * i + 32][::-1] for i in range(count)]
    return version, locator, rest[32 * count :][::-1]


start = bytes(range(32))
stop = bytes(range(32, 64))
failures = []
for num_hashes in (0, 1, 2, 3, 0xFC, 0xFD, 500):
    try:
        msg = GetHeadersMessage(version=70015, num_hashes=num_hashes, start_block=start, end_block=stop)
        payload = msg.serialize()
    except (ValueError, RuntimeError, TypeError):
        continue  # refusing a count the message cannot carry is fine
    try:
        version, locator, got_stop = protocol_decode(payload)
    except ValueError as e:
        failures.append(f"num_hashes={num_hashes}: {len(payload)}-byte payload is not a getheaders message: {e}")
        continue
    if version != 70015 or locator[:1] != [start] or got_stop != stop:
        failures.append(f"num_hashes={num_hashes}: fields do not decode back")

if failures:
    print("DEFECT: GetHeadersMessage emits a malformed getheaders payload")
    for f in failures:
        print("  " + f)
    sys.exit(1)
print("ok: every getheaders payload carries as many locator hashes as its count says")
