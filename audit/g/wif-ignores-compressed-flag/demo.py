"""C09: PrivateKey.wif() does not encode the key's own `compressed` flag, so an uncompressed
key does not survive wif() -> parse() (nor parse() -> wif())."""
import sys

import buidl

assert buidl.__file__.startswith("/tmp/audit-g"), buidl.__file__

from buidl.ecc import N, PrivateKey
from buidl.helper import encode_base58_checksum

failures = []
for network, prefix in (("mainnet", b"\x80"), ("testnet", b"\xef"), ("signet", b"\xef"), ("regtest", b"\xef")):
    for secret in (1, 2**128, N - 1):
        for compressed in (True, False):
            payload = prefix + secret.to_bytes(32, "big") + (b"\x01" if compressed else b"")
            expected = encode_base58_checksum(payload)
            # 1. key object -> WIF -> key object
            key = PrivateKey(secret, network=network, compressed=compressed)
            text = key.wif()
            back = PrivateKey.parse(text)
            if text != expected or back.compressed != key.compressed:
                failures.append(
                    f"{network} secret={secret:#x}: PrivateKey(compressed={compressed}).wif() = {text[:6]}... "
                    f"({'un' if text != expected else ''}expected), parses back with compressed={back.compressed}"
                )
            # 2. WIF -> key object -> WIF
            again = PrivateKey.parse(expected)
            assert again.secret == secret and again.compressed == compressed
            if again.wif() != expected:
                failures.append(
                    f"{network} secret={secret:#x}: parse({expected[:6]}...) has compressed={again.compressed} "
                    f"but .wif() = {again.wif()[:6]}..."
                )

if failures:
    print("DEFECT: WIF of an uncompressed key is the compressed WIF")
    for f in failures[:8]:
        print("  " + f)
    print(f"  ({len(failures)} failing cases)")
    sys.exit(1)
print("ok: WIF encodes the key's own compression flag")
