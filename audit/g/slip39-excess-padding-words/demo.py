"""C15: Share.parse accepts share mnemonics with more than 8 padding bits (21 / 34 words);
they do not survive parse -> mnemonic and give a second spelling of the same share."""
import sys

import buidl

assert buidl.__file__.startswith("/tmp/audit-g"), buidl.__file__

from buidl.shamir import SLIP39, Share, ShareSet, rs1024_create_checksum


def build(share, extra_words):
    """Spell `share` with `extra_words` additional all-zero words in front of its value"""
    good = [SLIP39[w] for w in share.mnemonic().split()]
    indices = good[:4] + [0] * extra_words + good[4:-3]
    checksum = rs1024_create_checksum(b"shamir", indices)
    return " ".join(SLIP39[i] for i in indices + checksum)


failures = []
for bits, value in ((128, 0x0123456789ABCDEF0123456789ABCDEF), (256, (1 << 255) + 12345)):
    share = Share(bits, 0x1234, 0, 0, 1, 1, 0, 1, value)
    canonical = share.mnemonic()
    assert Share.parse(canonical).mnemonic() == canonical
    longer = build(share, 1)  # 21 or 34 words: 12 resp. 14 leading zero bits of "padding"
    n_words = len(longer.split())
    # SLIP-0039: "The padding of the share value ... must not exceed 8 bits"; reference
    # implementation: padding_len = 10 * len(value_words) % 16; if padding_len > 8: invalid length
    padding = 10 * (n_words - 7) % 16
    assert padding > 8
    try:
        parsed = Share.parse(longer)
    except (ValueError, SyntaxError):
        continue
    again = parsed.mnemonic()
    recovered = ShareSet.recover_mnemonic([longer])
    failures.append(
        f"{n_words}-word mnemonic with {padding} padding bits accepted as a {parsed.share_bit_length}-bit share; "
        f"parse -> mnemonic gives {len(again.split())} words (round trip {again == longer}); "
        f"recover_mnemonic returned a secret: {recovered == ShareSet.recover_mnemonic([canonical])}"
    )

if failures:
    print("DEFECT: over-long SLIP39 share mnemonics are accepted")
    for f in failures:
        print("  " + f)
    sys.exit(1)
print("ok: share mnemonics with more than 8 padding bits are refused")
