"""C10: PSBTIn.finalize for a legacy P2SH m-of-n input compares the number of
signatures that are for keys of the RedeemScript with m off by one
(len(script_sig_commands) counts the leading OP_0). With m-1 cosigner
signatures plus one valid signature by a key that is NOT in the RedeemScript
(accepted at load because it verifies) finalize() succeeds, wipes the partial
signatures and leaves a final scriptSig with m-1 signatures. The finalised
PSBT serialises to bytes that PSBT.parse refuses. The P2WSH branch has the
check right and raises.

exit 0: finalize refuses (or the result re-parses), exit 1: defect present.
"""
import sys
from io import BytesIO

import buidl

assert buidl.__file__.startswith("/tmp/audit-e"), buidl.__file__

from buidl.ecc import PrivateKey
from buidl.hd import HDPrivateKey
from buidl.psbt import PSBT, NamedHDPublicKey
from buidl.script import P2WPKHScriptPubKey, RedeemScript, WitnessScript
from buidl.tx import Tx, TxIn, TxOut

NET = "testnet"
BASE = "m/48'/1'/0'/2'"


def ev(n):
    if n < 0xFD:
        return bytes([n])
    if n < 0x10000:
        return b"\xfd" + n.to_bytes(2, "little")
    return b"\xfe" + n.to_bytes(4, "little")


def rv(b, o):
    x = b[o]
    if x < 0xFD:
        return x, o + 1
    w = {0xFD: 2, 0xFE: 4, 0xFF: 8}[x]
    return int.from_bytes(b[o + 1 : o + 1 + w], "little"), o + 1 + w


def read_map(b, o):
    m = []
    while True:
        kl, o = rv(b, o)
        if kl == 0:
            return m, o
        k = b[o : o + kl]
        o += kl
        vl, o = rv(b, o)
        m.append((k, b[o : o + vl]))
        o += vl


def encode(maps):
    r = b"psbt\xff"
    for m in maps:
        for k, v in m:
            r += ev(len(k)) + k + ev(len(v)) + v
        r += b"\x00"
    return r


roots = [HDPrivateKey.from_seed(b"off-by-one" + bytes([i]), network=NET) for i in range(3)]
attacker = PrivateKey(secret=0xA77AC4E5)


def run(kind):
    lookup, redeem_lookup, witness_lookup = {}, {}, {}
    for r in roots:
        kid = NamedHDPublicKey.from_hd_priv(r, BASE).child(0).child(0)
        lookup[kid.sec()] = kid
    secs = sorted(k for k in lookup)
    if kind == "p2sh":
        script = RedeemScript([0x52] + secs + [0x53, 0xAE])
        redeem_lookup[script.hash160()] = script
    else:
        script = WitnessScript([0x52] + secs + [0x53, 0xAE])
        witness_lookup[script.sha256()] = script
    prev = Tx(1, [TxIn(b"\x03" * 32, 0)], [TxOut(1_000_000, script.script_pubkey())], 0, network=NET)
    tx = Tx(1, [TxIn(prev.hash(), 0)], [TxOut(990_000, P2WPKHScriptPubKey(b"\x11" * 20))], 0, network=NET)
    psbt = PSBT.create(
        tx,
        tx_lookup={prev.hash(): prev},
        pubkey_lookup=lookup,
        redeem_lookup=redeem_lookup,
        witness_lookup=witness_lookup,
    )
    assert psbt.sign(roots[0])  # ONE of the two required cosigners signs
    # a signature over the same sighash by a key that is not in the script
    if kind == "p2sh":
        foreign = psbt.tx_obj.get_sig_legacy(0, attacker, script)
    else:
        foreign = psbt.tx_obj.get_sig_segwit(0, attacker, None, script)
    raw = psbt.serialize()
    g, o = read_map(raw, 5)
    i0, o = read_map(raw, o)
    o0, o = read_map(raw, o)
    i0.insert(1, (b"\x02" + attacker.point.sec(), foreign))
    loaded = PSBT.parse(BytesIO(encode([g, i0, o0])))  # accepted: the signature verifies
    assert len(loaded.psbt_ins[0].sigs) == 2
    try:
        loaded.finalize()
    except RuntimeError as e:
        return f"finalize refused: {e}"
    final = loaded.serialize()
    try:
        PSBT.parse(BytesIO(final))
    except Exception as e:
        n = len(loaded.psbt_ins[0].script_sig.commands) - 2 if kind == "p2sh" else len(loaded.psbt_ins[0].witness) - 2
        return (
            f"DEFECT finalize() succeeded with {n} of 2 required cosigner signatures, partial sigs wiped "
            f"({len(loaded.psbt_ins[0].sigs)} left); re-parse of the finalised PSBT: {type(e).__name__}: {e}"
        )
    return "finalised PSBT re-parses"


bad = False
for kind in ("p2wsh", "p2sh"):
    res = run(kind)
    print(f"{kind}: {res}")
    bad |= res.startswith("DEFECT")
if bad:
    print("DEFECT (C10): P2SH finaliser threshold check is off by one; built PSBT cannot be parsed again")
    sys.exit(1)
print("ok")
sys.exit(0)
