"""C11: the hardened prefix of a BIP32 derivation path is never compared with the
path of the declared cosigner xpub. A PSBT whose global xpubs say
[xfp/48'/1'/0'/2'] but whose input and change derivation records say
xfp/99'/7'/7'/7'/<branch>/<index> is summarised, the change output is labelled
change "at" paths where the keys are not, and root_paths tells the signer to
sign at those wrong paths.

exit 0: refused, exit 1: summarised.
"""
import sys
from io import BytesIO

import buidl

assert buidl.__file__.startswith("/tmp/audit-e"), buidl.__file__

from buidl.hd import HDPrivateKey
from buidl.psbt import PSBT, NamedHDPublicKey
from buidl.script import P2WPKHScriptPubKey, WitnessScript
from buidl.tx import Tx, TxIn, TxOut

NET = "testnet"
BASE = "m/48'/1'/0'/2'"
H = 0x80000000


def ev(n):
    if n < 0xFD:
        return bytes([n])
    if n < 0x10000:
        return b"\xfd" + n.to_bytes(2, "little")
    return b"\xfe" + n.to_bytes(4, "little")


def encode(g, ins, outs):
    r = b"psbt\xff"
    for m in [g] + ins + outs:
        for k, v in m:
            r += ev(len(k)) + k + ev(len(v)) + v
        r += b"\x00"
    return r


roots = [HDPrivateKey.from_seed(b"path-prefix" + bytes([i]), network=NET) for i in range(3)]
accounts = [NamedHDPublicKey.from_hd_priv(r, BASE) for r in roots]


def wallet_script(branch, index):
    kids = [a.child(branch).child(index) for a in accounts]
    script = WitnessScript([0x52] + sorted(k.sec() for k in kids) + [0x53, 0xAE])
    return script, kids


def le(n):
    return n.to_bytes(4, "little")


def record(kid, prefix, branch, index, key_type):
    """derivation record: fingerprint, then `prefix` instead of 48'/1'/0'/2'"""
    path = b"".join(le(x) for x in prefix) + le(branch) + le(index)
    return (key_type + kid.sec(), kid.raw_path[:4] + path)


in_ws, in_kids = wallet_script(0, 0)
ch_ws, ch_kids = wallet_script(1, 0)
prev = Tx(2, [TxIn(b"\x05" * 32, 0)], [TxOut(1_000_000, in_ws.script_pubkey())], 0, network=NET)
tx = Tx(
    2,
    [TxIn(prev.hash(), 0)],
    [TxOut(300_000, P2WPKHScriptPubKey(b"\x11" * 20)), TxOut(699_000, ch_ws.script_pubkey())],
    0,
    network=NET,
)
g = [(b"\x00", tx.serialize_legacy())] + sorted((b"\x01" + a.raw_serialize(), a.raw_path) for a in accounts)


def psbt_with_prefix(prefix):
    in_map = (
        [(b"\x01", prev.tx_outs[0].serialize()), (b"\x05", in_ws.raw_serialize())]
        + sorted(record(k, prefix, 0, 0, b"\x06") for k in in_kids)
    )
    out_map = [(b"\x01", ch_ws.raw_serialize())] + sorted(record(k, prefix, 1, 0, b"\x02") for k in ch_kids)
    return encode(g, [in_map], [[], out_map])


honest_prefix = [H + 48, H + 1, H + 0, H + 2]
wrong_prefix = [H + 99, H + 7, H + 7, H + 7]

# sanity: the honest PSBT is summarised with the right paths
honest = PSBT.parse(BytesIO(psbt_with_prefix(honest_prefix))).describe_basic_multisig()
assert honest["change_sats"] == 699_000
assert all(p == {BASE + "/0/0"} for p in honest["root_paths"].values()), honest["root_paths"]

try:
    psbt = PSBT.parse(BytesIO(psbt_with_prefix(wrong_prefix)))
    desc = psbt.describe_basic_multisig()
except Exception as e:
    print(f"ok: refused: {type(e).__name__}: {str(e)[:100]}")
    sys.exit(0)

declared = sorted(f"{a.root_fingerprint.hex()}{a.root_path[1:]}" for a in accounts)
print("declared cosigner xpubs :", declared)
print("root_paths returned     :", {k: sorted(v) for k, v in desc["root_paths"].items()})
change = [o for o in desc["outputs_desc"] if o["is_change"]]
print("change output           :", change[0]["addr"], change[0]["sats"], "sats, is_change=True")
# the keys are NOT at the stated paths: derive from the roots and compare
stated_ok = all(
    r.traverse(next(iter(desc["root_paths"][r.fingerprint().hex()]))).pub.sec() in in_ws.commands for r in roots
)
print("keys found at the stated paths:", stated_ok)
print("DEFECT (C11): derivation records that contradict the declared xpub paths were summarised")
sys.exit(1)
