"""C11: describe_basic_multisig summarises inputs whose attached redeem/witness
script was never compared with the scriptPubKey of the UTXO that is spent.

Case A: witness UTXO paying to a foreign P2WSH program + PSBT_IN_REDEEM_SCRIPT
        holding the wallet's 2-of-3 multisig script.
Case B: non-witness UTXO whose spent output is a foreign P2SH / P2TR / bare
        script + PSBT_IN_WITNESS_SCRIPT holding the wallet's 2-of-3 script.

In all of them the input does not belong to the wallet, yet it is listed as a
2-of-3 wallet input with the wallet's address and counted into the totals.

exit 0: every case is refused, exit 1: at least one case is summarised.
"""
import sys
from io import BytesIO

import buidl

assert buidl.__file__.startswith("/tmp/audit-e"), buidl.__file__

from buidl.hd import HDPrivateKey
from buidl.psbt import PSBT, NamedHDPublicKey
from buidl.script import (
    P2SHScriptPubKey,
    P2TRScriptPubKey,
    P2WPKHScriptPubKey,
    P2WSHScriptPubKey,
    Script,
    WitnessScript,
)
from buidl.tx import Tx, TxIn, TxOut

NET = "testnet"
BASE = "m/48'/1'/0'/2'"


def ev(n):
    if n < 0xFD:
        return bytes([n])
    if n < 0x10000:
        return b"\xfd" + n.to_bytes(2, "little")
    return b"\xfe" + n.to_bytes(4, "little")


def kv(k, v):
    return ev(len(k)) + k + ev(len(v)) + v


def encode(g, ins, outs):
    r = b"psbt\xff"
    for m in [g] + ins + outs:
        for k, v in m:
            r += kv(k, v)
        r += b"\x00"
    return r


# ---- the wallet: 2-of-3, account xpubs at m/48'/1'/0'/2' ---------------------
roots = [HDPrivateKey.from_seed(b"input-script" + bytes([i]), network=NET) for i in range(3)]
accounts = [NamedHDPublicKey.from_hd_priv(r, BASE) for r in roots]


def wallet_script(branch, index):
    kids = [a.child(branch).child(index) for a in accounts]
    script = WitnessScript([0x52] + sorted(k.sec() for k in kids) + [0x53, 0xAE])
    derivs = [(b"\x06" + k.sec(), k.raw_path) for k in kids]
    return script, derivs


wallet_ws, in_derivs = wallet_script(0, 0)
change_ws, out_derivs = wallet_script(1, 0)
global_xpubs = [(b"\x01" + a.raw_serialize(), a.raw_path) for a in accounts]


def malicious_psbt(foreign_spk, utxo_form, script_key, claimed_amount):
    prev = Tx(2, [TxIn(b"\x09" * 32, 0)], [TxOut(claimed_amount, foreign_spk)], 0, network=NET)
    tx = Tx(
        2,
        [TxIn(prev.hash(), 0)],
        [
            TxOut(300_000, P2WPKHScriptPubKey(b"\x11" * 20)),
            TxOut(claimed_amount - 301_000, change_ws.script_pubkey()),
        ],
        0,
        network=NET,
    )
    g = [(b"\x00", tx.serialize_legacy())] + sorted(global_xpubs)
    if utxo_form == "witness":
        utxo = (b"\x01", prev.tx_outs[0].serialize())
    else:
        utxo = (b"\x00", prev.serialize())
    # the wallet's script, attached under the key that buidl does not check for this UTXO
    in_map = [utxo, (script_key, wallet_ws.raw_serialize())] + sorted(in_derivs)
    out_change = [(b"\x01", change_ws.raw_serialize())] + sorted((b"\x02" + k[1:], v) for k, v in out_derivs)
    return encode(g, [in_map], [[], out_change])


REDEEM, WITNESS = b"\x04", b"\x05"
cases = [
    ("A  witness UTXO -> foreign P2WSH, wallet script as RedeemScript", P2WSHScriptPubKey(b"\x33" * 32), "witness", REDEEM),
    ("B1 non-witness UTXO -> foreign P2SH, wallet script as WitnessScript", P2SHScriptPubKey(b"\x22" * 20), "non-witness", WITNESS),
    ("B2 non-witness UTXO -> P2TR output, wallet script as WitnessScript", P2TRScriptPubKey(b"\x44" * 32), "non-witness", WITNESS),
    ("B3 non-witness UTXO -> bare OP_TRUE output, wallet script as WitnessScript", Script([0x51]), "non-witness", WITNESS),
]

summarised = []
for label, spk, form, key in cases:
    raw = malicious_psbt(spk, form, key, 5_000_000_000)
    try:
        psbt = PSBT.parse(BytesIO(raw))
        desc = psbt.describe_basic_multisig()
    except Exception as e:
        print(f"refused     {label}: {type(e).__name__}: {str(e)[:70]}")
        continue
    i0 = desc["inputs_desc"][0]
    print(f"SUMMARISED  {label}")
    print(f"            input shown as {i0['quorum']} at {i0['addr']} with {i0['sats']:,} sats;")
    print(f"            the spent scriptPubKey is {spk} -- not that address")
    print(f"            {desc['tx_summary_text']}")
    summarised.append(label)

if summarised:
    print(f"DEFECT (C11): {len(summarised)} PSBT(s) whose input script does not match the spent output were summarised")
    sys.exit(1)
print("ok: every input whose script does not match the UTXO is refused")
sys.exit(0)
