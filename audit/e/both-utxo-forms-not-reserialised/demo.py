"""C10: a PSBT whose segwit input carries BOTH PSBT_IN_NON_WITNESS_UTXO and
PSBT_IN_WITNESS_UTXO (the shape Bitcoin Core >= 0.20.1 and hardware-wallet
coordinators emit) is accepted by PSBT.parse, but PSBT.serialize drops the
witness UTXO and the resulting bytes are refused by PSBT.parse.

exit 0: library behaves correctly, exit 1: defect present.
"""
import sys
from io import BytesIO

import buidl

assert buidl.__file__.startswith("/tmp/audit-e"), buidl.__file__

from buidl.hd import HDPrivateKey
from buidl.helper import hash160
from buidl.psbt import PSBT, NamedHDPublicKey
from buidl.script import P2WPKHScriptPubKey, WitnessScript
from buidl.tx import Tx, TxIn, TxOut

NET = "testnet"
BASE = "m/48'/1'/0'/2'"


# ---- tiny independent BIP174 key-value codec -------------------------------
def rv(b, o):
    x = b[o]
    if x < 0xFD:
        return x, o + 1
    w = {0xFD: 2, 0xFE: 4, 0xFF: 8}[x]
    return int.from_bytes(b[o + 1 : o + 1 + w], "little"), o + 1 + w


def ev(n):
    if n < 0xFD:
        return bytes([n])
    if n < 0x10000:
        return b"\xfd" + n.to_bytes(2, "little")
    return b"\xfe" + n.to_bytes(4, "little")


def read_map(b, o):
    m = []
    while True:
        kl, o = rv(b, o)
        if kl == 0:
            return m, o
        k = b[o : o + kl]
        o += kl
        vl, o = rv(b, o)
        m.append((k, b[o : o + vl]))
        o += vl


def decode(raw, n_in, n_out):
    assert raw[:5] == b"psbt\xff"
    g, o = read_map(raw, 5)
    ins, outs = [], []
    for _ in range(n_in):
        m, o = read_map(raw, o)
        ins.append(m)
    for _ in range(n_out):
        m, o = read_map(raw, o)
        outs.append(m)
    assert o == len(raw)
    return g, ins, outs


def encode(g, ins, outs):
    r = b"psbt\xff"
    for m in [g] + ins + outs:
        for k, v in m:
            r += ev(len(k)) + k + ev(len(v)) + v
        r += b"\x00"
    return r


# ---- an honest 2-of-3 P2WSH PSBT and an honest P2WPKH PSBT ------------------
def build(kind):
    n = 3 if kind == "p2wsh" else 1
    roots = [HDPrivateKey.from_seed(b"both-utxo" + bytes([i]), network=NET) for i in range(n)]
    pubkey_lookup, witness_lookup = {}, {}
    secs = []
    for r in roots:
        child = NamedHDPublicKey.from_hd_priv(r, BASE).child(0).child(0)
        pubkey_lookup[child.sec()] = child
        pubkey_lookup[child.hash160()] = child
        secs.append(child.sec())
    if kind == "p2wsh":
        ws = WitnessScript([0x52] + sorted(secs) + [0x53, 0xAE])
        witness_lookup[ws.sha256()] = ws
        spk = ws.script_pubkey()
    else:
        spk = P2WPKHScriptPubKey(hash160(secs[0]))
    # the funding transaction is itself a segwit transaction, as on the network
    prev = Tx(2, [TxIn(b"\x07" * 32, 0)], [TxOut(1_000_000, spk)], 0, network=NET)
    tx = Tx(
        2,
        [TxIn(prev.hash(), 0)],
        [TxOut(990_000, P2WPKHScriptPubKey(b"\x11" * 20))],
        0,
        network=NET,
    )
    psbt = PSBT.create(
        tx,
        tx_lookup={prev.hash(): prev},
        pubkey_lookup=pubkey_lookup,
        witness_lookup=witness_lookup,
    )
    return psbt, prev, roots


failures = []
for kind in ("p2wsh", "p2wpkh"):
    psbt, prev, roots = build(kind)
    honest = psbt.serialize()
    g, ins, outs = decode(honest, 1, 1)
    assert [k[:1] for k, _ in ins[0]][0] == b"\x01", "builder gives the witness UTXO"
    # add the full previous transaction next to the witness UTXO (BIP174 allows
    # both; Core adds both to protect signers against the fee-lying attack)
    ins[0].insert(0, (b"\x00", prev.serialize()))
    core_shaped = encode(g, ins, outs)

    parsed = PSBT.parse(BytesIO(core_shaped))  # accepted: the two forms agree
    first = parsed.serialize()
    _, ins1, _ = decode(first, 1, 1)
    kept = sorted(k[:1].hex() for k, _ in ins1[0] if k[:1] in (b"\x00", b"\x01"))
    try:
        again = PSBT.parse(BytesIO(first))
        second = again.serialize()
        if second != first:
            failures.append(f"{kind}: re-serialisation differs")
    except Exception as e:
        failures.append(
            f"{kind}: PSBT.parse accepted the PSBT, PSBT.serialize wrote UTXO fields {kept} "
            f"(witness UTXO 01 dropped), and PSBT.parse refuses those bytes: {type(e).__name__}: {e}"
        )

if failures:
    print("DEFECT (C10): serialise -> parse is not possible for a PSBT the library parsed")
    for f in failures:
        print("  -", f)
    sys.exit(1)
print("ok: PSBT with both UTXO forms survives serialise -> parse -> serialise")
sys.exit(0)
