"""C06 (positive half): a p2wpkh / p2sh-p2wpkh output made by the library for a
key cannot be spent through Tx.sign_input when the PrivateKey object carries
compressed=False (e.g. parsed from an uncompressed WIF)."""
import contextlib
import io
import sys

import buidl

assert buidl.__file__.startswith("/tmp/audit-f"), buidl.__file__
from buidl.ecc import PrivateKey
from buidl.script import P2PKHScriptPubKey
from buidl.tx import Tx, TxIn, TxOut


def make_tx(script_pubkey):
    tx_in = TxIn(b"\x01" * 32, 0)
    tx_in._value = 100000
    tx_in._script_pubkey = script_pubkey
    return Tx(
        2, [tx_in], [TxOut(90000, P2PKHScriptPubKey(b"\x11" * 20))], 0, segwit=True
    )


def run(f, *args):
    with contextlib.redirect_stdout(io.StringIO()):
        try:
            return f(*args)
        except Exception as e:
            return repr(e)


bad = []
# an uncompressed WIF (5...) parses to compressed=False
wif = PrivateKey(0xC0FFEE, compressed=False).wif(compressed=False)
key = PrivateKey.parse(wif)
assert key.compressed is False
control = PrivateKey(0xC0FFEE, compressed=True)

# outputs as the library derives them from the public key (always hash160 of the
# compressed SEC: S256Point.p2wpkh_script / p2sh_p2wpkh_redeem_script)
spk = key.point.p2wpkh_script()
assert run(make_tx(spk).sign_input, 0, control) is True
r = run(make_tx(spk).sign_input, 0, key)
if r is not True:
    bad.append(f"p2wpkh: sign_input -> {r}")
redeem = key.point.p2sh_p2wpkh_redeem_script()
assert run(make_tx(redeem.script_pubkey()).sign_input, 0, control, redeem) is True
r = run(make_tx(redeem.script_pubkey()).sign_input, 0, key, redeem)
if r is not True:
    bad.append(f"p2sh-p2wpkh: sign_input -> {r}")

if bad:
    print("DEFECT: correctly keyed segwit spend reported invalid for compressed=False key")
    for b in bad:
        print("  " + b)
    sys.exit(1)
print("ok")
