"""C06 (positive half) / C13: finalize_p2tr_multisig builds an invalid witness for a
k-of-n tapscript leaf when it is handed valid signatures from more than k of
the n keys."""
import contextlib
import io
import sys

import buidl

assert buidl.__file__.startswith("/tmp/audit-f"), buidl.__file__
from buidl.ecc import PrivateKey
from buidl.script import P2PKHScriptPubKey
from buidl.taproot import TapRootMultiSig
from buidl.tx import Tx, TxIn, TxOut

privs = [PrivateKey(s) for s in (1001, 2002, 3003)]
points = [p.point for p in privs]
multisig = TapRootMultiSig(points, 2)  # 2-of-3
leaf = multisig.single_leaf()
internal = multisig.default_internal_pubkey
script_pubkey = internal.p2tr_script(leaf.hash())
control_block = leaf.control_block(internal)


def spend(signers):
    tx_in = TxIn(b"\x01" * 32, 0)
    tx_in._value = 100000
    tx_in._script_pubkey = script_pubkey
    tx = Tx(
        2, [tx_in], [TxOut(90000, P2PKHScriptPubKey(b"\x11" * 20))], 0, segwit=True
    )
    tx.initialize_p2tr_multisig(0, control_block, leaf.tap_script)
    sigs = [tx.get_sig_taproot(0, p, ext_flag=1) for p in signers]
    with contextlib.redirect_stdout(io.StringIO()):
        return tx.finalize_p2tr_multisig(0, sigs), tx


ok2, _ = spend(privs[:2])
assert ok2 is True, "2 of 3 signers must verify"
ok3, tx = spend(privs)
if ok3 is not True:
    print(
        "DEFECT: 2-of-3 leaf, signatures of all 3 keys supplied -> "
        f"finalize_p2tr_multisig returned {ok3}; witness carries "
        f"{sum(1 for i in tx.tx_ins[0].witness.items[:-2] if i)} signatures, script wants exactly 2"
    )
    sys.exit(1)
print("ok")
