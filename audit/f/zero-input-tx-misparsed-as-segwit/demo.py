"""C04: a legacy transaction with no inputs and one output whose amount is a
multiple of 65536 (e.g. 0) does not survive serialize -> parse."""
import sys
from io import BytesIO

import buidl

assert buidl.__file__.startswith("/tmp/audit-f"), buidl.__file__
from buidl.script import Script
from buidl.tx import Tx, TxOut

failures = []
for amount in (0, 65536, 3 * 65536, 0x0000_0100_0000_0000):
    tx = Tx(1, [], [TxOut(amount, Script([0x51]))], 0, segwit=False)
    raw = tx.serialize()
    try:
        parsed = Tx.parse(BytesIO(raw))
    except Exception as e:  # an error would also be a codec failure
        failures.append(f"amount {amount}: parse raised {e!r}")
        continue
    stream = BytesIO(raw)
    Tx.parse(stream)
    leftover = len(raw) - stream.tell()
    if (
        parsed.serialize() != raw
        or parsed.id() != tx.id()
        or len(parsed.tx_outs) != 1
        or parsed.segwit
        or leftover
    ):
        failures.append(
            f"amount {amount}: raw={raw.hex()} parsed as segwit={parsed.segwit} "
            f"ins={len(parsed.tx_ins)} outs={len(parsed.tx_outs)} "
            f"locktime={int(parsed.locktime)} unread_bytes={leftover} "
            f"id {parsed.id()} != {tx.id()}"
        )

if failures:
    print("DEFECT: zero-input legacy transaction is silently parsed as a segwit transaction")
    for f in failures:
        print("  " + f)
    sys.exit(1)
print("ok")
