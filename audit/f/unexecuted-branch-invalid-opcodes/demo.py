"""C07: opcodes that make a script invalid wherever they appear (OP_VERIF,
OP_VERNOTIF, the disabled opcodes) and oversized pushes are accepted by the
interpreter when they sit in a branch that is not executed."""
import contextlib
import io
import sys

import buidl

assert buidl.__file__.startswith("/tmp/audit-f"), buidl.__file__
from buidl.script import P2PKHScriptPubKey, Script
from buidl.tx import Tx, TxIn, TxOut


def accepts(script_sig_cmds, script_pubkey_cmds):
    tx_in = TxIn(b"\x01" * 32, 0, Script(script_sig_cmds), 0xFFFFFFFE)
    tx_in._value = 100000
    tx_in._script_pubkey = Script(script_pubkey_cmds)
    tx = Tx(2, [tx_in], [TxOut(90000, P2PKHScriptPubKey(b"\x11" * 20))], 0)
    with contextlib.redirect_stdout(io.StringIO()):
        try:
            return tx.verify_input(0) is True
        except Exception:
            return False


NAMES = {
    0x65: "OP_VERIF", 0x66: "OP_VERNOTIF", 0x7E: "OP_CAT", 0x7F: "OP_SUBSTR",
    0x80: "OP_LEFT", 0x81: "OP_RIGHT", 0x83: "OP_INVERT", 0x84: "OP_AND",
    0x85: "OP_OR", 0x86: "OP_XOR", 0x8D: "OP_2MUL", 0x8E: "OP_2DIV",
    0x95: "OP_MUL", 0x96: "OP_DIV", 0x97: "OP_MOD", 0x98: "OP_LSHIFT",
    0x99: "OP_RSHIFT",
}
bad = []
# sanity: the same opcode in the executed branch is refused
assert not accepts([], [0x51, 0x63, 0x7E, 0x68, 0x51])
for op, name in NAMES.items():
    # scriptPubKey: OP_0 OP_IF <op> OP_ENDIF OP_1   (interpreter.cpp: disabled
    # opcodes fail before the fExec test; VERIF/VERNOTIF are evaluated even when
    # !fExec because OP_IF <= opcode <= OP_ENDIF, and hit `default: BAD_OPCODE`)
    if accepts([], [0x00, 0x63, op, 0x68, 0x51]):
        bad.append(f"OP_0 OP_IF {name} OP_ENDIF OP_1")
    # same inside the ELSE part of a taken IF
    if accepts([], [0x51, 0x63, 0x51, 0x67, op, 0x68]):
        bad.append(f"OP_1 OP_IF OP_1 OP_ELSE {name} OP_ENDIF")
# a push of more than 520 bytes fails the script even when not executed
if accepts([], [0x00, 0x63, b"\x00" * 521, 0x68, 0x51]):
    bad.append("OP_0 OP_IF <521 bytes> OP_ENDIF OP_1")
if accepts([], [b"\x00" * 521, 0x75, 0x51]):
    bad.append("<521 bytes> OP_DROP OP_1")

if bad:
    print("DEFECT: consensus-invalid scripts evaluate to True:")
    for b in bad:
        print("  " + b)
    sys.exit(1)
print("ok")
