"""C05 (outside the literal hash-type quantifier, see NOTE.md): for the legacy and BIP143
digests the library selects the NONE / SINGLE behaviour with `hash_type & 3`, consensus
uses `hash_type & 0x1f`.  Every hash type whose low two bits are 2 or 3 but whose bits
2..4 are not all zero (0x06, 0x07, 0x0a, ... 112 of the 256 byte values) is hashed with
the NONE / SINGLE output and sequence rules although consensus hashes it like ALL.
Exits 0 when the digests for 0x06 / 0x07 / 0x86 / 0x87 equal the reference, 1 otherwise."""
import hashlib
import struct
import sys
from io import BytesIO

import buidl

assert buidl.__file__.startswith("/tmp/audit-i"), buidl.__file__
from buidl.script import P2PKHScriptPubKey, P2WPKHScriptPubKey
from buidl.tx import Tx


def vi(n):
    return bytes([n])


def vs(b):
    return vi(len(b)) + b


def dsha(b):
    return hashlib.sha256(hashlib.sha256(b).digest()).digest()


version, locktime = 2, 0
ins = [(bytes([0x10 + i]) * 32, i, 0xFFFFFFFE - i) for i in range(3)]
outs = [(1000 * i + 5, b"\x00\x14" + bytes([0x40 + i]) * 20) for i in range(3)]
h160 = b"\x77" * 20
code = b"\x76\xa9\x14" + h160 + b"\x88\xac"
amount = 777
raw = struct.pack("<I", version) + vi(3)
for txid, idx, seq in ins:
    raw += txid + struct.pack("<I", idx) + b"\x00" + struct.pack("<I", seq)
raw += vi(3) + b"".join(struct.pack("<q", a) + vs(s) for a, s in outs) + struct.pack("<I", locktime)


def ref_legacy(i, ht):
    """SignatureHash() of Bitcoin Core, SigVersion::BASE (masks with 0x1f)"""
    base, acp = ht & 0x1F, ht & 0x80
    if base == 3 and i >= len(outs):
        return 1 << 248
    sel = [i] if acp else range(len(ins))
    s = struct.pack("<I", version) + vi(len(sel))
    for j in sel:
        txid, idx, seq = ins[j]
        if j != i and base in (2, 3):
            seq = 0
        s += txid + struct.pack("<I", idx) + (vs(code) if j == i else b"\x00") + struct.pack("<I", seq)
    if base == 2:
        s += vi(0)
    elif base == 3:
        s += vi(i + 1) + (b"\xff" * 8 + b"\x00") * i + struct.pack("<q", outs[i][0]) + vs(outs[i][1])
    else:
        s += vi(len(outs)) + b"".join(struct.pack("<q", a) + vs(p) for a, p in outs)
    s += struct.pack("<I", locktime) + struct.pack("<I", ht)
    return int.from_bytes(dsha(s), "big")


def ref_bip143(i, ht):
    """BIP143 reference code: (nHashType & 0x1f) != SIGHASH_SINGLE / SIGHASH_NONE"""
    base, acp = ht & 0x1F, ht & 0x80
    hp = hs = ho = b"\x00" * 32
    if not acp:
        hp = dsha(b"".join(t + struct.pack("<I", n) for t, n, _ in ins))
    if not acp and base not in (2, 3):
        hs = dsha(b"".join(struct.pack("<I", q) for _, _, q in ins))
    if base not in (2, 3):
        ho = dsha(b"".join(struct.pack("<q", a) + vs(p) for a, p in outs))
    elif base == 3 and i < len(outs):
        ho = dsha(struct.pack("<q", outs[i][0]) + vs(outs[i][1]))
    s = struct.pack("<I", version) + hp + hs + ins[i][0] + struct.pack("<I", ins[i][1]) + vs(code)
    s += struct.pack("<q", amount) + struct.pack("<I", ins[i][2]) + ho + struct.pack("<I", locktime)
    s += struct.pack("<I", ht)
    return int.from_bytes(dsha(s), "big")


def lib(i, ht, spk):
    tx = Tx.parse(BytesIO(raw))
    tx.tx_ins[i]._value = amount
    tx.tx_ins[i]._script_pubkey = spk
    return tx.sig_hash(i, ht)


bad = []
# sanity: the standard types agree, so the reference and the set-up are right
for ht in (0, 1, 2, 3, 0x81, 0x82, 0x83):
    assert lib(1, ht, P2PKHScriptPubKey(h160)) == ref_legacy(1, ht), hex(ht)
    assert lib(1, ht, P2WPKHScriptPubKey(h160)) == ref_bip143(1, ht), hex(ht)
for ht in (0x04, 0x05, 0x06, 0x07, 0x86, 0x87, 0x1E, 0x23):
    if lib(1, ht, P2PKHScriptPubKey(h160)) != ref_legacy(1, ht):
        bad.append(f"legacy  hash type {ht:#04x}: digest differs from consensus SignatureHash")
    if lib(1, ht, P2WPKHScriptPubKey(h160)) != ref_bip143(1, ht):
        bad.append(f"BIP143  hash type {ht:#04x}: digest differs from the BIP143 reference")
if bad:
    print("DEFECT: NONE/SINGLE selected with `hash_type & 3` instead of `hash_type & 0x1f`")
    for line in bad:
        print("  -", line)
    sys.exit(1)
print("ok")
