"""C05: the signature hash of a transaction that has an output script with a data
push longer than 520 bytes (a large OP_RETURN carrier) cannot be computed:
Tx.sig_hash / sig_hash_legacy / sig_hash_bip143 / sig_hash_bip341 raise
ValueError('too long a command') instead of returning the Satoshi / BIP143 / BIP341
digest.  Exits 0 when all three digests equal the reference, 1 otherwise."""
import hashlib
import struct
import sys
from io import BytesIO

import buidl

assert buidl.__file__.startswith("/tmp/audit-i"), buidl.__file__
from buidl.script import P2PKHScriptPubKey, P2TRScriptPubKey, P2WPKHScriptPubKey
from buidl.tx import Tx
from buidl.witness import Witness


def vi(n):
    return bytes([n]) if n < 0xFD else b"\xfd" + struct.pack("<H", n)


def vs(b):
    return vi(len(b)) + b


def sha(b):
    return hashlib.sha256(b).digest()


def dsha(b):
    return sha(sha(b))


def th(tag, m):
    t = sha(tag)
    return sha(t + t + m)


# --- the transaction, as raw bytes (consensus-valid layout) -------------------
# output 0: OP_RETURN OP_PUSHDATA2 <600 bytes>  (output scripts are never executed
# when they are created; consensus only limits the script to 10 000 bytes)
carrier = b"\x6a\x4d" + struct.pack("<H", 600) + bytes(range(256)) * 2 + b"\xab" * 88
assert len(carrier) == 604
pay = b"\x00\x14" + b"\x33" * 20
version, locktime = 2, 0
ins = [(b"\x11" * 32, 0, 0xFFFFFFFE), (b"\x22" * 32, 1, 0xFFFFFFFD), (b"\x44" * 32, 2, 0xFFFFFFFF)]
outs = [(0, carrier), (70000, pay)]
raw = struct.pack("<I", version) + vi(len(ins))
for txid, idx, seq in ins:
    raw += txid + struct.pack("<I", idx) + b"\x00" + struct.pack("<I", seq)
raw += vi(len(outs))
for amount, spk in outs:
    raw += struct.pack("<q", amount) + vs(spk)
raw += struct.pack("<I", locktime)

h160_a, h160_b, xonly = b"\x55" * 20, b"\x66" * 20, b"\x77" * 32
spent = [
    (50000, b"\x76\xa9\x14" + h160_a + b"\x88\xac"),  # p2pkh   -> legacy digest
    (60000, b"\x00\x14" + h160_b),  # p2wpkh  -> BIP143 digest
    (40000, b"\x51\x20" + xonly),  # p2tr    -> BIP341 digest
]

# --- reference digests (SIGHASH_ALL / ALL / DEFAULT) --------------------------
outs_ser = b"".join(struct.pack("<q", a) + vs(s) for a, s in outs)
# legacy, input 0
s = struct.pack("<I", version) + vi(3)
for j, (txid, idx, seq) in enumerate(ins):
    s += txid + struct.pack("<I", idx) + (vs(spent[0][1]) if j == 0 else b"\x00") + struct.pack("<I", seq)
s += vi(2) + outs_ser + struct.pack("<I", locktime) + struct.pack("<I", 1)
ref_legacy = int.from_bytes(dsha(s), "big")
# BIP143, input 1
prevouts = b"".join(t + struct.pack("<I", i) for t, i, _ in ins)
seqs = b"".join(struct.pack("<I", q) for _, _, q in ins)
s = struct.pack("<I", version) + dsha(prevouts) + dsha(seqs) + ins[1][0] + struct.pack("<I", ins[1][1])
s += vs(b"\x76\xa9\x14" + h160_b + b"\x88\xac") + struct.pack("<q", spent[1][0]) + struct.pack("<I", ins[1][2])
s += dsha(outs_ser) + struct.pack("<I", locktime) + struct.pack("<I", 1)
ref_bip143 = int.from_bytes(dsha(s), "big")
# BIP341, input 2, key path, SIGHASH_DEFAULT
s = b"\x00\x00" + struct.pack("<I", version) + struct.pack("<I", locktime)
s += sha(prevouts) + sha(b"".join(struct.pack("<q", a) for a, _ in spent))
s += sha(b"".join(vs(p) for _, p in spent)) + sha(seqs) + sha(outs_ser)
s += b"\x00" + struct.pack("<I", 2)
ref_bip341 = th(b"TapSighash", s)

# --- the library --------------------------------------------------------------
tx = Tx.parse(BytesIO(raw))
tx.segwit = True
for tx_in, (amount, spk), cls, arg in zip(
    tx.tx_ins, spent, (P2PKHScriptPubKey, P2WPKHScriptPubKey, P2TRScriptPubKey), (h160_a, h160_b, xonly)
):
    tx_in._value = amount
    tx_in._script_pubkey = cls(arg)
tx.tx_ins[2].witness = Witness([b"\x01" * 64])

bad = []
for name, index, hash_type, ref in (
    ("legacy", 0, 1, ref_legacy),
    ("BIP143", 1, 1, ref_bip143),
    ("BIP341", 2, 0, ref_bip341),
):
    try:
        got = tx.sig_hash(index, hash_type)
    except Exception as e:  # noqa
        bad.append(f"{name}: sig_hash raised {e!r}")
        continue
    if got != ref:
        bad.append(f"{name}: digest differs from the reference")
try:
    if tx.serialize_legacy() != raw:
        bad.append("serialize_legacy() differs from the parsed bytes")
except Exception as e:  # noqa
    bad.append(f"serialize_legacy() raised {e!r}")

if bad:
    print("DEFECT: transaction with a 600-byte push in an output script")
    for line in bad:
        print("  -", line)
    sys.exit(1)
print("ok: all three digests equal the reference")
