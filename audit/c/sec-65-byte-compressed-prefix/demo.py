"""C03: byte strings that do not encode a curve point must be rejected.
A 65-byte string with prefix 02/03 is not a SEC encoding.  Exit 1 = defect present."""
import sys
import buidl

assert buidl.__file__.startswith("/tmp/audit-c"), buidl.__file__
from buidl.ecc import G, PrivateKey, S256Point, Signature

accepted = []
for point in (G, PrivateKey(12345).point):
    for prefix in (b"\x02", b"\x03"):
        blob = prefix + b"\x00" * 32 + point.xonly()  # 65 bytes, not a SEC encoding
        assert len(blob) == 65
        try:
            got = S256Point.parse(blob)
        except (ValueError, RuntimeError):
            continue
        accepted.append((blob.hex(), got))
if accepted:
    print("DEFECT: 65-byte strings with a compressed-key prefix are parsed as points")
    for h, got in accepted:
        print("  ", h, "->", got)
    # consequence: an ECDSA signature verifies under the malformed key encoding
    pk = PrivateKey(12345)
    blob = pk.point.sec()[:1] + b"\x00" * 32 + pk.point.xonly()
    sig = pk.sign(7)
    print("   signature verifies under the 65-byte blob:", S256Point.parse(blob).verify(7, sig))
    sys.exit(1)
print("ok: malformed 65-byte strings are rejected")
sys.exit(0)
