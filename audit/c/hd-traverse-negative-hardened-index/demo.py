"""C08: path parsing.  A hardened component with a negative number ("-1'") is not a BIP32 path
(is_valid_bip32_path says so); traverse must refuse it and in no case hand back a
NON-hardened child for a component written as hardened.  Exit 1 = defect present."""
import sys
import buidl

assert buidl.__file__.startswith("/tmp/audit-c"), buidl.__file__
from buidl.hd import HDPrivateKey, is_valid_bip32_path

root = HDPrivateKey.from_seed(bytes(range(16)))
bad = []
for path in ["m/-1'", "m/-1h", "m/44'/-5H", "m/-2147483648'"]:
    assert not is_valid_bip32_path(path)
    try:
        node = root.traverse(path)
    except (ValueError, OverflowError):
        continue
    hardened = node.child_number >= 0x80000000
    bad.append(
        f"{path!r}: accepted, derived child_number={node.child_number} "
        f"({'hardened' if hardened else 'NON-hardened'})"
    )
if bad:
    print("DEFECT: HDPrivateKey.traverse accepts negative hardened components")
    for b in bad:
        print("  ", b)
    same = root.traverse("m/-1'").xprv() == root.child(0x7FFFFFFF).xprv()
    print("   traverse(\"m/-1'\") == child(2**31-1) (non-hardened):", same)
    print("   so the public parent can derive it:",
          root.pub.child(0x7FFFFFFF).xpub() == root.traverse("m/-1'").xpub())
    sys.exit(1)
print("ok")
sys.exit(0)
