"""C01: S256Point.verify must report (never crash on) a tuple whose R = u*G + v*P is the
point at infinity.  Exit 0 = correct (False returned), exit 1 = defect present."""
import sys
import buidl

assert buidl.__file__.startswith("/tmp/audit-c"), buidl.__file__
from buidl.ecc import N, PrivateKey, Signature

d = 12345
pub = PrivateKey(d).point
bad = []
for r, s in [(5, 1), (5, 7), (N - 1, N - 1), (2**255, 3)]:
    # z + r*d == 0 (mod n)  =>  u*G + v*P = (z + r*d)/s * G = infinity for every s
    z = (-r * d) % N
    try:
        res = pub.verify(z, Signature(r, s))
    except Exception as e:  # noqa
        bad.append(f"r={r:#x} s={s:#x} z={z:#x}: raised {type(e).__name__}: {e}")
        continue
    if res is not False:
        bad.append(f"r={r:#x} s={s:#x} z={z:#x}: returned {res!r}")
if bad:
    print("DEFECT: ECDSA verify does not answer False when R is the point at infinity")
    for b in bad:
        print("  ", b)
    sys.exit(1)
print("ok: tuples with R = infinity are reported invalid")
sys.exit(0)
