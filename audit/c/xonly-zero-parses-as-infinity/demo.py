"""C03 (and C01 soundness): 32 zero bytes do not encode a curve point (x = 0 is not on
secp256k1) and must be rejected.  Exit 1 = defect present."""
import sys
import buidl

assert buidl.__file__.startswith("/tmp/audit-c"), buidl.__file__
from buidl.ecc import G, N, S256Point, Signature

blob = b"\x00" * 32
try:
    point = S256Point.parse(blob)
except (ValueError, RuntimeError) as e:
    print("ok: 32 zero bytes rejected:", e)
    sys.exit(0)
print(f"DEFECT: S256Point.parse(00*32) returned {point!r} instead of raising")
# consequence: the 'key' at infinity accepts a forged ECDSA signature for ANY digest,
# produced without any secret:  u*G + v*O = (z/s)*G, so r = x((z/s)*G)
z = 0xDEADBEEF
s = 1
r = (z * G).x.num % N
print("   forged ECDSA signature accepted under that key:", point.verify(z, Signature(r, s)))
sys.exit(1)
