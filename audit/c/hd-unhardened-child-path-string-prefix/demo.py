"""C08 (path folding helpers in buidl/hd.py): get_unhardened_child_path(base, root) must only
return a child path when `base` is a prefix of `root` component by component.
Exit 1 = defect present."""
import sys
import buidl

assert buidl.__file__.startswith("/tmp/audit-c"), buidl.__file__
from buidl.hd import HDPrivateKey, get_unhardened_child_path

bad = []
for base, root, want in [
    ("m/4", "m/45/1", None),            # m/45/1 is not below m/4
    ("m/48'/0'/0'/2", "m/48'/0'/0'/21/7", None),
    ("m/1", "m/1/2/3", "m/2/3"),        # genuine descendant, for reference
    ("m/1", "m/1", "m"),
]:
    got = get_unhardened_child_path(base, root)
    if got != want:
        bad.append((base, root, got, want))
if bad:
    print("DEFECT: get_unhardened_child_path compares paths as strings, not by component")
    for base, root, got, want in bad:
        print(f"   base={base!r} root={root!r}: returned {got!r}, expected {want!r}")
    base, root, got, _ = bad[0]
    node = HDPrivateKey.from_seed(bytes(range(16))).traverse(base).pub
    try:
        derived = node.traverse(got)
        print(f"   HDPublicKey.traverse({got!r}) is accepted and yields child_number="
              f"{derived.child_number} at depth {derived.depth} (silently a wrong key)")
    except ValueError as e:
        print("   traverse rejects the bogus path:", e)
    sys.exit(1)
print("ok")
sys.exit(0)
