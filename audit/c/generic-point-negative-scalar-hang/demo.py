"""C03: scalar multiplication on the generic Point class with a negative scalar must return
the group-law result ((-k)*P == k*(-P)).  Exit 1 = defect present (here: it never returns)."""
import signal
import sys
import buidl

assert buidl.__file__.startswith("/tmp/audit-c"), buidl.__file__
from buidl.pecc import FieldElement, Point

prime = 223
a, b = FieldElement(0, prime), FieldElement(7, prime)
pt = Point(FieldElement(47, prime), FieldElement(71, prime), a, b)
neg = Point(FieldElement(47, prime), FieldElement(prime - 71, prime), a, b)


class Hang(Exception):
    pass


def on_alarm(*_):
    raise Hang()


signal.signal(signal.SIGALRM, on_alarm)
for k in (-1, -2, -5):
    signal.alarm(5)
    try:
        got = k * pt
    except Hang:
        print(f"DEFECT: {k} * Point(47,71)_223 did not return within 5 s (infinite loop)")
        sys.exit(1)
    finally:
        signal.alarm(0)
    want = (-k) * neg
    if got != want:
        print(f"DEFECT: {k} * P = {got}, expected {want}")
        sys.exit(1)
print("ok")
sys.exit(0)
