"""C08: extended keys, including SLIP-132 version bytes, survive serialise/parse exactly.
HDPublicKey.raw_parse / raw_serialize is the 78-byte binary codec.  Exit 1 = defect present."""
import sys
from io import BytesIO
import buidl

assert buidl.__file__.startswith("/tmp/audit-c"), buidl.__file__
from buidl.hd import HDPrivateKey, HDPublicKey
from buidl.helper import raw_decode_base58

root = HDPrivateKey.from_seed(bytes(range(16)))
account = root.traverse("m/48'/0'/0'/2'")
bad = []
for name, version in [
    ("xpub", "0488b21e"), ("ypub", "049d7cb2"), ("zpub", "04b24746"),
    ("Ypub", "0295b43f"), ("Zpub", "02aa7ed3"),
    ("tpub", "043587cf"), ("upub", "044a5262"), ("vpub", "045f1cf6"),
    ("Upub", "024289ef"), ("Vpub", "02575483"),
]:
    raw = raw_decode_base58(account.xpub(bytes.fromhex(version)))
    assert len(raw) == 78 and raw[:4].hex() == version
    again = HDPublicKey.raw_parse(BytesIO(raw)).raw_serialize()
    if again != raw:
        bad.append(f"{name}: version {raw[:4].hex()} came back as {again[:4].hex()}")
if bad:
    print("DEFECT: HDPublicKey.raw_parse(...).raw_serialize() does not reproduce the 78 bytes")
    for b in bad:
        print("  ", b)
    sys.exit(1)
print("ok")
sys.exit(0)
