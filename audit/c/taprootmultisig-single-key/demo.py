"""C13: tree generators for all (k, n) with 1 <= k <= n <= 5.  (k, n) = (1, 1) only needs the
plain tapscript leaf (no MuSig aggregate involved) but the object cannot even be constructed.
Exit 1 = defect present."""
import sys
import buidl

assert buidl.__file__.startswith("/tmp/audit-c"), buidl.__file__
from buidl.ecc import PrivateKey
from buidl.taproot import TapRootMultiSig

point = PrivateKey(0x1234).point
try:
    multisig = TapRootMultiSig([point], 1)
    leaf = multisig.single_leaf()
    tree = multisig.multi_leaf_tree()
except Exception as e:  # noqa
    print(f"DEFECT: TapRootMultiSig([P], 1) -> {type(e).__name__}: {e}")
    sys.exit(1)
assert leaf.tap_script.commands == [point.xonly(), 0xAC]
assert tree.leaves() == [leaf]
print("ok")
sys.exit(0)
