"""C13: in a generated k-of-n tree fewer than k keys must never be able to spend (before a
delay).  TapRootMultiSig.degrading_multisig_tree() called without (or with a zero) interval
must refuse, not emit lower-threshold leaves without any timelock.  Exit 1 = defect present."""
import contextlib
import io
import sys
import buidl

assert buidl.__file__.startswith("/tmp/audit-c"), buidl.__file__
from buidl.ecc import G, PrivateKey
from buidl.script import P2TRScriptPubKey
from buidl.taproot import TapRootMultiSig
from buidl.tx import Tx, TxIn, TxOut

keys = [PrivateKey(s) for s in (0x1111, 0x2222, 0x3333)]
points = [k.point for k in keys]
K = 2
multisig = TapRootMultiSig(points, K)

problems = []
for kwargs in ({}, {"sequence_block_interval": 0}, {"sequence_time_interval": 0}):
    try:
        tree = multisig.degrading_multisig_tree(**kwargs)
    except (ValueError, TypeError):
        continue
    for leaf in tree.leaves():
        cmds = leaf.tap_script.commands
        n_keys = sum(1 for c in cmds if isinstance(c, bytes) and len(c) == 32)
        has_csv = 0xB2 in cmds
        if n_keys < K and not has_csv:
            problems.append((kwargs, tree, leaf))

if not problems:
    print("ok: no lower-threshold leaf without a relative timelock")
    sys.exit(0)

kwargs, tree, leaf = problems[0]
count = sum(1 for p in problems if p[0] == kwargs)
print(f"DEFECT: {count} leaves of a {K}-of-3 degrading tree need fewer than {K} "
      "signatures and carry no OP_CHECKSEQUENCEVERIFY")
print("   arguments:", kwargs, " leaf:", leaf)
# spend the output right away with ONE key of the 2-of-3
internal = multisig.default_internal_pubkey
tx_in = TxIn(bytes(32), 0)  # default sequence 0xffffffff: no relative lock satisfied
tx_in._value = 100000
tx_in._script_pubkey = internal.p2tr_script(tree.hash())
tx = Tx(2, [tx_in], [TxOut(99000, P2TRScriptPubKey(G))], 0, network="mainnet", segwit=True)
tx.initialize_p2tr_multisig(0, tree.control_block(internal, leaf), leaf.tap_script)
signer = next(k for k in keys if k.point.xonly() == leaf.tap_script.commands[0])
sig = tx.get_sig_taproot(0, signer, ext_flag=1)
with contextlib.redirect_stdout(io.StringIO()):
    ok = tx.finalize_p2tr_multisig(0, [sig])
print("   output spent immediately with a single signature, verify_input ->", ok)
sys.exit(1)
