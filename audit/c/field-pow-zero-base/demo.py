"""C03: the generic FieldElement class must satisfy the field axioms for every element of
every small prime field; a**k is the k-fold product, so 0**k == 0 for every k >= 1.
Exit 1 = defect present."""
import sys
import buidl

assert buidl.__file__.startswith("/tmp/audit-c"), buidl.__file__
from buidl.pecc import FieldElement, S256Field, P

bad = []
for prime in (3, 5, 7, 11, 13, 31):
    for a in range(prime):
        for k in range(0, 3 * prime):
            got = (FieldElement(a, prime) ** k).num
            want = pow(a, k, prime)
            if got != want:
                bad.append((prime, a, k, got, want))
if (S256Field(0) ** (P - 1)).num != 0:
    bad.append(("secp256k1 P", 0, "P-1", (S256Field(0) ** (P - 1)).num, 0))
if bad:
    print("DEFECT: FieldElement.__pow__ wrong for base 0 and exponents that are multiples of p-1")
    for prime, a, k, got, want in bad[:12]:
        print(f"   F_{prime}: {a}**{k} = {got}, expected {want}")
    print(f"   ... {len(bad)} mismatches in total")
    sys.exit(1)
print("ok")
sys.exit(0)
