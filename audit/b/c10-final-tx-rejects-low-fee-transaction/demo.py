import sys, io, hashlib, contextlib
import buidl
assert buidl.__file__.startswith("/tmp/audit-b"), buidl.__file__
from io import BytesIO
from buidl.hd import HDPrivateKey, HDPublicKey
from buidl.psbt import PSBT, PSBTIn, PSBTOut, NamedHDPublicKey
from buidl.tx import Tx, TxIn, TxOut
from buidl.script import (RedeemScript, WitnessScript, P2WPKHScriptPubKey, P2TRScriptPubKey)
from buidl.op import number_to_op_code
from buidl.helper import serialize_key_value, encode_varint

NET = "testnet"
BASE = "m/48'/1'/0'/2'"


class Wallet:
    """m-of-n wallet: n seeds, account xpubs at BASE, scripts over <xpub>/branch/index (BIP67 order)"""

    def __init__(self, m, n):
        self.m, self.n = m, n
        self.roots = [HDPrivateKey.from_seed(bytes([1 + i]) * 32, network=NET) for i in range(n)]
        self.accts = [NamedHDPublicKey.from_hd_priv(r, BASE) for r in self.roots]

    def commands(self, branch, idx, m=None):
        kids = [a.child(branch).child(idx) for a in self.accts]
        secs = sorted(k.sec() for k in kids)
        return [number_to_op_code(m or self.m)] + secs + [number_to_op_code(self.n), 174], kids

    def hd_pubs(self):
        return {a.raw_serialize(): a for a in self.accts}


def named(kids):
    return {k.sec(): k.point for k in kids}


def lookup(*kid_lists):
    return {key: k for kids in kid_lists for k in kids for key in (k.sec(), k.hash160())}


def fund(script_pubkey, amount):
    """a (fake) confirmed transaction paying `amount` to script_pubkey at output 0"""
    return Tx(1, [TxIn(hashlib.sha256(b"funding").digest(), 0)], [TxOut(amount, script_pubkey)], 0, network=NET)


def summary(d):
    return {k: d[k] for k in ("tx_fee_sats", "total_input_sats", "spend_sats", "change_sats", "change_addr")}

w = Wallet(2, 3)
c_in, kids_in = w.commands(0, 0)
ws_in = WitnessScript(c_in)
f = fund(ws_in.script_pubkey(), 100_000)
dest = P2WPKHScriptPubKey(b"\x11" * 20)
results = {}
for fee in (0, 100, 1000):
    tx = Tx(2, [TxIn(f.hash(), 0)], [TxOut(100_000 - fee, dest)], 0, network=NET, segwit=True)
    p = PSBT.create(tx, tx_lookup={f.hash(): f}, pubkey_lookup=lookup(kids_in), witness_lookup={ws_in.sha256(): ws_in})
    assert p.sign(w.roots[0]) and p.sign(w.roots[1])           # threshold reached
    p.finalize()
    # consensus validity of the finalised input, checked directly
    c = p.tx_obj.clone(); c.segwit = True
    c.tx_ins[0].script_sig, c.tx_ins[0].witness = p.psbt_ins[0].script_sig, p.psbt_ins[0].witness
    with contextlib.redirect_stdout(io.StringIO()):
        input_ok = c.verify_input(0)
        try:
            p.final_tx(); extracted = True
        except RuntimeError:
            extracted = False
    results[fee] = (input_ok, extracted)
    print(f"fee {fee:5d} sats: finalised input verifies = {input_ok}; final_tx() succeeds = {extracted}")
if any(ok and not ex for ok, ex in results.values()):
    print("DEFECT: 2 of 3 cosigners signed and the input script verifies, yet final_tx() says 'transaction invalid' (fee < vsize relay policy)")
    sys.exit(1)
print("ok")
