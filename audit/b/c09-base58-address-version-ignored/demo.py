import sys
import buidl
assert buidl.__file__.startswith("/tmp/audit-b"), buidl.__file__

from buidl.helper import encode_base58_checksum
from buidl.script import address_to_script_pubkey, P2SHScriptPubKey, P2PKHScriptPubKey
from buidl.tx import TxOut

h = bytes.fromhex("11" * 20)
problems = []

def accepted(fn, addr):
    try:
        return fn(addr)
    except Exception:
        return None

# 1. version byte 0x06 is not a Bitcoin address version, yet the string starts with "3"
good = P2SHScriptPubKey(h).address("mainnet")
alias = encode_base58_checksum(b"\x06" + h)          # 3Sarqj5MB6UiVhNzYp64sm7qgjATV7X288
assert alias[0] == "3" and alias != good
r = accepted(address_to_script_pubkey, alias)
if r is not None:
    problems.append(f"address_to_script_pubkey accepted version-0x06 string {alias} -> {r} (same script as {good})")
r = accepted(lambda a: TxOut.to_address(a, 1), alias)
if r is not None:
    problems.append(f"TxOut.to_address accepted version-0x06 string {alias}")

# 2. version byte 0x70 gives a string starting with 'n' that is not a testnet p2pkh address
alias2 = encode_base58_checksum(b"\x70" + h)
assert alias2[0] == "n"
r = accepted(address_to_script_pubkey, alias2)
if r is not None:
    problems.append(f"address_to_script_pubkey accepted version-0x70 string {alias2} -> {r}")

# 3. wrong payload length (19-byte hash) gives a non-standard 'p2pkh'
short = encode_base58_checksum(b"\x00" + h[:19])
r = accepted(address_to_script_pubkey, short)
if r is not None:
    problems.append(f"address_to_script_pubkey accepted 19-byte payload {short} -> {r.raw_serialize().hex()}")

if problems:
    print("DEFECT: Base58 addresses with a foreign version byte / wrong length are accepted")
    for p in problems:
        print(" -", p)
    sys.exit(1)
print("ok")
