import sys, io, hashlib, contextlib
import buidl
assert buidl.__file__.startswith("/tmp/audit-b"), buidl.__file__
from io import BytesIO
from buidl.hd import HDPrivateKey, HDPublicKey
from buidl.psbt import PSBT, PSBTIn, PSBTOut, NamedHDPublicKey
from buidl.tx import Tx, TxIn, TxOut
from buidl.script import (RedeemScript, WitnessScript, P2WPKHScriptPubKey, P2TRScriptPubKey)
from buidl.op import number_to_op_code
from buidl.helper import serialize_key_value, encode_varint

NET = "testnet"
BASE = "m/48'/1'/0'/2'"


class Wallet:
    """m-of-n wallet: n seeds, account xpubs at BASE, scripts over <xpub>/branch/index (BIP67 order)"""

    def __init__(self, m, n):
        self.m, self.n = m, n
        self.roots = [HDPrivateKey.from_seed(bytes([1 + i]) * 32, network=NET) for i in range(n)]
        self.accts = [NamedHDPublicKey.from_hd_priv(r, BASE) for r in self.roots]

    def commands(self, branch, idx, m=None):
        kids = [a.child(branch).child(idx) for a in self.accts]
        secs = sorted(k.sec() for k in kids)
        return [number_to_op_code(m or self.m)] + secs + [number_to_op_code(self.n), 174], kids

    def hd_pubs(self):
        return {a.raw_serialize(): a for a in self.accts}


def named(kids):
    return {k.sec(): k.point for k in kids}


def lookup(*kid_lists):
    return {key: k for kids in kid_lists for k in kids for key in (k.sec(), k.hash160())}


def fund(script_pubkey, amount):
    """a (fake) confirmed transaction paying `amount` to script_pubkey at output 0"""
    return Tx(1, [TxIn(hashlib.sha256(b"funding").digest(), 0)], [TxOut(amount, script_pubkey)], 0, network=NET)


def summary(d):
    return {k: d[k] for k in ("tx_fee_sats", "total_input_sats", "spend_sats", "change_sats", "change_addr")}

w = Wallet(2, 3)
c_in, kids_in = w.commands(0, 0)
rs_in = RedeemScript(c_in)
f = fund(rs_in.script_pubkey(), 100_000)
dest = P2WPKHScriptPubKey(b"\x11" * 20)


def unsigned_tx():
    return Tx(1, [TxIn(f.hash(), 0)], [TxOut(98_000, dest)], 0, network=NET)


good = PSBT.create(unsigned_tx(), tx_lookup={f.hash(): f}, pubkey_lookup=lookup(kids_in), redeem_lookup={rs_in.hash160(): rs_in})
good.sign(w.roots[0]); good.sign(w.roots[1])                      # 2 of 3 signed: enough
GOOD = good.serialize()

# A PSBT for the same transaction, no UTXO information, carrying a "partial signature" for cosigner 0's key that is a
# valid DER signature of an unrelated message
key0 = w.roots[0].traverse(BASE + "/0/0").private_key
junk_sig = key0.sign(12345).der() + b"\x01"
txb = unsigned_tx().serialize_legacy()
BAD = (b"psbt\xff" + b"\x01\x00" + encode_varint(len(txb)) + txb + b"\x00"
       + serialize_key_value(b"\x02" + key0.point.sec(), junk_sig) + b"\x00" + b"\x00")
try:
    PSBT.parse(BytesIO(BAD), network=NET)
except Exception as e:
    print("ok - PSBT with the non-verifying partial signature is rejected on load:", type(e).__name__, str(e)[:80])
    sys.exit(0)


def extract(first, second):
    p = PSBT.parse(BytesIO(first), network=NET)
    p.combine(PSBT.parse(BytesIO(second), network=NET))
    # re-load the combined PSBT so that this demo does not depend on finding c10-combine-into-bare-psbt-breaks-extraction
    try:
        p = PSBT.parse(BytesIO(p.serialize()), network=NET)
    except Exception as e:
        return f"combined PSBT does not re-load: {type(e).__name__}: {str(e)[:60]}"
    try:
        with contextlib.redirect_stdout(io.StringIO()):
            p.finalize()
            return "tx " + p.final_tx().id()
    except Exception as e:
        return f"{type(e).__name__}: {e}"


r1, r2 = extract(GOOD, BAD), extract(BAD, GOOD)
print("DEFECT: a PSBT whose partial signature does not verify was loaded")
print(" - good.combine(bad) ->", r1)
print(" - bad.combine(good) ->", r2)
sys.exit(1)
