import sys, io, hashlib, contextlib
import buidl
assert buidl.__file__.startswith("/tmp/audit-b"), buidl.__file__
from io import BytesIO
from buidl.hd import HDPrivateKey, HDPublicKey
from buidl.psbt import PSBT, PSBTIn, PSBTOut, NamedHDPublicKey
from buidl.tx import Tx, TxIn, TxOut
from buidl.script import (RedeemScript, WitnessScript, P2WPKHScriptPubKey, P2TRScriptPubKey)
from buidl.op import number_to_op_code
from buidl.helper import serialize_key_value, encode_varint

NET = "testnet"
BASE = "m/48'/1'/0'/2'"


class Wallet:
    """m-of-n wallet: n seeds, account xpubs at BASE, scripts over <xpub>/branch/index (BIP67 order)"""

    def __init__(self, m, n):
        self.m, self.n = m, n
        self.roots = [HDPrivateKey.from_seed(bytes([1 + i]) * 32, network=NET) for i in range(n)]
        self.accts = [NamedHDPublicKey.from_hd_priv(r, BASE) for r in self.roots]

    def commands(self, branch, idx, m=None):
        kids = [a.child(branch).child(idx) for a in self.accts]
        secs = sorted(k.sec() for k in kids)
        return [number_to_op_code(m or self.m)] + secs + [number_to_op_code(self.n), 174], kids

    def hd_pubs(self):
        return {a.raw_serialize(): a for a in self.accts}


def named(kids):
    return {k.sec(): k.point for k in kids}


def lookup(*kid_lists):
    return {key: k for kids in kid_lists for k in kids for key in (k.sec(), k.hash160())}


def fund(script_pubkey, amount):
    """a (fake) confirmed transaction paying `amount` to script_pubkey at output 0"""
    return Tx(1, [TxIn(hashlib.sha256(b"funding").digest(), 0)], [TxOut(amount, script_pubkey)], 0, network=NET)


def summary(d):
    return {k: d[k] for k in ("tx_fee_sats", "total_input_sats", "spend_sats", "change_sats", "change_addr")}


from buidl.psbt_helper import create_multisig_psbt
BASEP = "m/45h/0"          # Unchained/Caravan style p2sh path (used throughout buidl/test/test_psbt_helper.py)
roots = [HDPrivateKey.from_seed(bytes([1 + i]) * 32, network=NET) for i in range(3)]
accts = [r.traverse(BASEP).pub for r in roots]
records = [[r.fingerprint().hex(), a.xpub(), BASEP] for r, a in zip(roots, accts)]
rs = RedeemScript.create_p2sh_multisig(2, [a.child(0).child(0).sec().hex() for a in accts])
f = fund(rs.script_pubkey(), 100_000)
inputs = [{"quorum_m": 2, "path_dict": {rec[0]: BASEP + "/0/0" for rec in records},
           "prev_tx_dict": {"hex": f.serialize().hex(), "hash_hex": f.hash().hex(), "output_idx": 0, "output_sats": 100_000}}]
DEST = "mkHS9ne12qx9pS9VojpwU5xtRd4T7X7ZUt"
outputs = [{"sats": 99_000, "address": DEST}]
psbt = create_multisig_psbt(records, inputs, outputs, 1_000)

assert accts[0].xpub().startswith("tpub") and psbt.network == "testnet"
s0 = psbt.serialize_base64()
reparsed = PSBT.parse_base64(s0)              # default arguments
s1 = reparsed.serialize_base64()
problems = []
if s1 != s0:
    b0, b1 = psbt.serialize(), reparsed.serialize()
    problems.append(f"re-serialisation differs: PSBT_GLOBAL_XPUB keys with tpub version 043587cf: {b0.count(bytes.fromhex('4f01043587cf'))} -> "
                    f"{b1.count(bytes.fromhex('4f01043587cf'))}; with xpub version 0488b21e: {b0.count(bytes.fromhex('4f010488b21e'))} -> "
                    f"{b1.count(bytes.fromhex('4f010488b21e'))}")
if reparsed.network != "testnet":
    problems.append(f"network of the re-parsed PSBT: {reparsed.network}")
addr = reparsed.describe_basic_multisig()["spend_addr"]
if addr != DEST:
    problems.append(f"summary shows destination {addr}, the builder was given {DEST}")
if problems:
    print("DEFECT: a testnet PSBT built by create_multisig_psbt does not survive serialise -> parse -> serialise")
    for p in problems:
        print(" -", p)
    sys.exit(1)
print("ok")
