import sys, io, hashlib, contextlib
import buidl
assert buidl.__file__.startswith("/tmp/audit-b"), buidl.__file__
from io import BytesIO
from buidl.hd import HDPrivateKey, HDPublicKey
from buidl.psbt import PSBT, PSBTIn, PSBTOut, NamedHDPublicKey
from buidl.tx import Tx, TxIn, TxOut
from buidl.script import (RedeemScript, WitnessScript, P2WPKHScriptPubKey, P2TRScriptPubKey)
from buidl.op import number_to_op_code
from buidl.helper import serialize_key_value, encode_varint

NET = "testnet"
BASE = "m/48'/1'/0'/2'"


class Wallet:
    """m-of-n wallet: n seeds, account xpubs at BASE, scripts over <xpub>/branch/index (BIP67 order)"""

    def __init__(self, m, n):
        self.m, self.n = m, n
        self.roots = [HDPrivateKey.from_seed(bytes([1 + i]) * 32, network=NET) for i in range(n)]
        self.accts = [NamedHDPublicKey.from_hd_priv(r, BASE) for r in self.roots]

    def commands(self, branch, idx, m=None):
        kids = [a.child(branch).child(idx) for a in self.accts]
        secs = sorted(k.sec() for k in kids)
        return [number_to_op_code(m or self.m)] + secs + [number_to_op_code(self.n), 174], kids

    def hd_pubs(self):
        return {a.raw_serialize(): a for a in self.accts}


def named(kids):
    return {k.sec(): k.point for k in kids}


def lookup(*kid_lists):
    return {key: k for kids in kid_lists for k in kids for key in (k.sec(), k.hash160())}


def fund(script_pubkey, amount):
    """a (fake) confirmed transaction paying `amount` to script_pubkey at output 0"""
    return Tx(1, [TxIn(hashlib.sha256(b"funding").digest(), 0)], [TxOut(amount, script_pubkey)], 0, network=NET)


def summary(d):
    return {k: d[k] for k in ("tx_fee_sats", "total_input_sats", "spend_sats", "change_sats", "change_addr")}

w = Wallet(2, 3)
c_in, kids_in = w.commands(0, 0)
rs_in = RedeemScript(c_in)
f = fund(rs_in.script_pubkey(), 100_000)
dest = P2WPKHScriptPubKey(b"\x11" * 20)

c_ch, kids_ch = w.commands(1, 0)
c_ch[-2] = 0x6A                         # OP_2 <k1> <k2> <k3> OP_RETURN OP_CHECKMULTISIG : can never be satisfied
rs_fake = RedeemScript(c_ch)
tx = Tx(1, [TxIn(f.hash(), 0)], [TxOut(30_000, dest), TxOut(69_000, rs_fake.script_pubkey())], 0, network=NET)
tx.tx_ins[0]._value, tx.tx_ins[0]._script_pubkey = 100_000, f.tx_outs[0].script_pubkey
try:
    psbt = PSBT(
        tx,
        [PSBTIn(tx.tx_ins[0], prev_tx=f, redeem_script=rs_in, named_pubs=named(kids_in))],
        [PSBTOut(tx.tx_outs[0]), PSBTOut(tx.tx_outs[1], redeem_script=rs_fake, named_pubs=named(kids_ch))],
        hd_pubs=w.hd_pubs(), network=NET)
    psbt = PSBT.parse(BytesIO(psbt.serialize()), network=NET)
    d = psbt.describe_basic_multisig()
except Exception as e:
    print("ok - rejected:", type(e).__name__, str(e)[:100])
    sys.exit(0)
out = d["outputs_desc"][1]
if out["is_change"]:
    print("DEFECT: an output paying to a script that is not m-of-n multisig is reported as change")
    print("  redeem script:", out["redeem_script"])
    print("  summary      :", summary(d))
    sys.exit(1)
print("ok - not labelled change")
