import sys
import buidl
assert buidl.__file__.startswith("/tmp/audit-b"), buidl.__file__

from buidl.script import P2WPKHScriptPubKey, P2WSHScriptPubKey, P2TRScriptPubKey, address_to_script_pubkey
from buidl.tx import TxOut

problems = []
for spk in (P2WPKHScriptPubKey(bytes(range(20))), P2WSHScriptPubKey(bytes(range(32))), P2TRScriptPubKey(bytes(range(32)))):
    addr = spk.address("regtest")
    assert address_to_script_pubkey(addr) == spk      # the other decoder handles it
    try:
        out = TxOut.to_address(addr, 1000)
        assert out.script_pubkey == spk
    except Exception as e:
        problems.append(f"{type(spk).__name__}.address('regtest') = {addr} -> TxOut.to_address raises {type(e).__name__}: {e}")
if problems:
    print("DEFECT: TxOut.to_address cannot invert the library's own regtest segwit addresses")
    for p in problems:
        print(" -", p)
    sys.exit(1)
print("ok")
