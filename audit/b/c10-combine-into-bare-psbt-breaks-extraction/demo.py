import sys, io, hashlib, contextlib
import buidl
assert buidl.__file__.startswith("/tmp/audit-b"), buidl.__file__
from io import BytesIO
from buidl.hd import HDPrivateKey, HDPublicKey
from buidl.psbt import PSBT, PSBTIn, PSBTOut, NamedHDPublicKey
from buidl.tx import Tx, TxIn, TxOut
from buidl.script import (RedeemScript, WitnessScript, P2WPKHScriptPubKey, P2TRScriptPubKey)
from buidl.op import number_to_op_code
from buidl.helper import serialize_key_value, encode_varint

NET = "testnet"
BASE = "m/48'/1'/0'/2'"


class Wallet:
    """m-of-n wallet: n seeds, account xpubs at BASE, scripts over <xpub>/branch/index (BIP67 order)"""

    def __init__(self, m, n):
        self.m, self.n = m, n
        self.roots = [HDPrivateKey.from_seed(bytes([1 + i]) * 32, network=NET) for i in range(n)]
        self.accts = [NamedHDPublicKey.from_hd_priv(r, BASE) for r in self.roots]

    def commands(self, branch, idx, m=None):
        kids = [a.child(branch).child(idx) for a in self.accts]
        secs = sorted(k.sec() for k in kids)
        return [number_to_op_code(m or self.m)] + secs + [number_to_op_code(self.n), 174], kids

    def hd_pubs(self):
        return {a.raw_serialize(): a for a in self.accts}


def named(kids):
    return {k.sec(): k.point for k in kids}


def lookup(*kid_lists):
    return {key: k for kids in kid_lists for k in kids for key in (k.sec(), k.hash160())}


def fund(script_pubkey, amount):
    """a (fake) confirmed transaction paying `amount` to script_pubkey at output 0"""
    return Tx(1, [TxIn(hashlib.sha256(b"funding").digest(), 0)], [TxOut(amount, script_pubkey)], 0, network=NET)


def summary(d):
    return {k: d[k] for k in ("tx_fee_sats", "total_input_sats", "spend_sats", "change_sats", "change_addr")}

w = Wallet(2, 3)
c_in, kids_in = w.commands(0, 0)
ws_in = WitnessScript(c_in)
f = fund(ws_in.script_pubkey(), 100_000)
dest = P2WPKHScriptPubKey(b"\x11" * 20)


def unsigned_tx():
    return Tx(2, [TxIn(f.hash(), 0)], [TxOut(98_000, dest)], 0, network=NET, segwit=True)


def updated():
    return PSBT.create(unsigned_tx(), tx_lookup={f.hash(): f}, pubkey_lookup=lookup(kids_in), witness_lookup={ws_in.sha256(): ws_in})


a = updated(); a.sign(w.roots[0])
b = updated(); b.sign(w.roots[1])
A, B = a.serialize(), b.serialize()
creator_psbt = PSBT.create(unsigned_tx()).serialize()        # what the Creator role produced: no metadata yet


def extract(order):
    blobs = {"creator": creator_psbt, "A": A, "B": B}
    first = PSBT.parse(BytesIO(blobs[order[0]]), network=NET)
    for name in order[1:]:
        first.combine(PSBT.parse(BytesIO(blobs[name]), network=NET))
    combined = first.serialize()
    try:
        with contextlib.redirect_stdout(io.StringIO()):
            first.finalize()
            return combined, "tx " + first.final_tx().id()
    except Exception as e:
        return combined, f"{type(e).__name__}: {e}"


c1, r1 = extract(["A", "B", "creator"])
c2, r2 = extract(["creator", "A", "B"])
if c1 == c2 and r1 != r2:
    print("DEFECT: same PSBTs, same combined bytes, but finalise/extract depends on which PSBT was the combine target")
    print(" - A.combine(B).combine(creator)  ->", r1)
    print(" - creator.combine(A).combine(B)  ->", r2[:110])
    sys.exit(1)
print("ok", r1, r2)
