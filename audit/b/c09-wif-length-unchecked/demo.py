import sys
import buidl
assert buidl.__file__.startswith("/tmp/audit-b"), buidl.__file__

from buidl.helper import encode_base58_checksum
from buidl.pecc import PrivateKey

problems = []
for payload in (b"\x80" + b"\x01" * 31, b"\x80" + b"\x01" * 5, b"\x80" + b"\x00" * 3 + b"\x01" * 32, b"\xef" + b"\x07" * 40):
    s = encode_base58_checksum(payload)
    try:
        k = PrivateKey.parse(s)
    except Exception:
        continue
    back = {k.wif(compressed=True), k.wif(compressed=False)}
    problems.append(f"{s} ({len(payload)}-byte payload) parsed as secret {k.secret:x}; re-encodes to {sorted(back)[0][:12]}.. (no round trip: {s not in back})")
if problems:
    print("DEFECT: PrivateKey.parse accepts WIF strings whose payload is not 33/34 bytes")
    for p in problems:
        print(" -", p)
    sys.exit(1)
print("ok")
