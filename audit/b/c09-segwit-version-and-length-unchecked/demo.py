import sys
import buidl
assert buidl.__file__.startswith("/tmp/audit-b"), buidl.__file__

from buidl.bech32 import bech32_create_checksum, bech32m_create_checksum, encode_bech32, group_32, decode_bech32
from buidl.script import address_to_script_pubkey

def mk(hrp, ver, groups):
    data = [ver] + groups
    chk = bech32_create_checksum(hrp, data) if ver == 0 else bech32m_create_checksum(hrp, data)
    return hrp + "1" + encode_bech32(data + chk)

problems = []
for ver in (17, 31):
    a = mk("bc", ver, group_32(bytes(range(32))))
    try:
        r = decode_bech32(a)
        problems.append(f"witness version {ver} accepted: {a} -> {r[1]}")
    except Exception:
        pass
a = mk("bc", 0, group_32(bytes(25)))
try:
    r = decode_bech32(a)
    problems.append(f"version 0 with 25-byte program accepted by decode_bech32: {a}")
except Exception:
    pass
a = mk("bc", 0, group_32(bytes(range(21))))
try:
    spk = address_to_script_pubkey(a)
    problems.append(f"address_to_script_pubkey({a}) -> {type(spk).__name__} {spk.raw_serialize().hex()} (21-byte v0 program, unspendable)")
except Exception:
    pass
if problems:
    print("DEFECT: witness version / program length rules of BIP141/BIP173 are not enforced")
    for p in problems:
        print(" -", p)
    sys.exit(1)
print("ok")
