import sys
import buidl
assert buidl.__file__.startswith("/tmp/audit-b"), buidl.__file__
from buidl.descriptor import P2WSHSortedMulti, parse_full_key_record, calc_core_checksum
from buidl.hd import HDPrivateKey

roots = [HDPrivateKey.from_seed(bytes([1 + i]) * 32, network="testnet") for i in range(2)]
key_records = [parse_full_key_record(r.generate_p2wsh_key_record() + "/0/*") for r in roots]
desc = P2WSHSortedMulti(2, key_records)
text = str(desc)
assert str(P2WSHSortedMulti.parse(text)) == text and text[-9] == "#"

problems = []
# (1) single-character substitution at the position of '#': all of the descriptor charset
accepted = []
for ch in "0123456789()[],'/*abcdefgh@:$%{}IJKLMNOPQRSTUVWXYZ&+-.;<=>?!^_|~ijklmnopqrstuvwxyzABCDEFGH`\"\\ ":
    mutated = text[:-9] + ch + text[-8:]
    try:
        P2WSHSortedMulti.parse(mutated)
        accepted.append(ch)
    except ValueError:
        pass
if accepted:
    problems.append(f"'#' replaced by any of {len(accepted)} characters ({''.join(accepted[:12])}...) -> parse() succeeds")
# (2) consequence: with the separator damaged the checksum is not compared at all
wrong = text[:-9] + "X" + "qqqqqqqq"
assert calc_core_checksum(text[:-9]) != "qqqqqqqq"
try:
    P2WSHSortedMulti.parse(wrong)
    problems.append("...))Xqqqqqqqq (wrong checksum behind a damaged separator) -> parse() succeeds")
except ValueError:
    pass
# (3) trailing garbage after a correct checksum
try:
    P2WSHSortedMulti.parse(text + "zz9")
    problems.append("valid descriptor + 'zz9' appended -> parse() succeeds")
except ValueError:
    pass
if problems:
    print("DEFECT: corruption at/after the checksum separator is not detected")
    for p in problems:
        print(" -", p)
    sys.exit(1)
print("ok")
