import sys
import buidl
assert buidl.__file__.startswith("/tmp/audit-b"), buidl.__file__

from buidl.bech32 import decode_bech32
from buidl.script import P2WPKHScriptPubKey

good = P2WPKHScriptPubKey(bytes(range(20))).address("regtest")
assert good.startswith("bcrt1")
problems = []
for sep in "!xq0 ":
    s = "bcrt" + sep + good[5:]
    try:
        r = decode_bech32(s)
        problems.append(f"{s!r} accepted -> {r[0]} v{r[1]} {r[2].hex()}")
    except Exception:
        pass
if problems:
    print("DEFECT: the separator of a regtest address is never looked at")
    for p in problems:
        print(" -", p)
    sys.exit(1)
print("ok")
