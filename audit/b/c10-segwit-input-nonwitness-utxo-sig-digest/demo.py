import sys, io, hashlib, contextlib
import buidl
assert buidl.__file__.startswith("/tmp/audit-b"), buidl.__file__
from io import BytesIO
from buidl.hd import HDPrivateKey, HDPublicKey
from buidl.psbt import PSBT, PSBTIn, PSBTOut, NamedHDPublicKey
from buidl.tx import Tx, TxIn, TxOut
from buidl.script import (RedeemScript, WitnessScript, P2WPKHScriptPubKey, P2TRScriptPubKey)
from buidl.op import number_to_op_code
from buidl.helper import serialize_key_value, encode_varint

NET = "testnet"
BASE = "m/48'/1'/0'/2'"


class Wallet:
    """m-of-n wallet: n seeds, account xpubs at BASE, scripts over <xpub>/branch/index (BIP67 order)"""

    def __init__(self, m, n):
        self.m, self.n = m, n
        self.roots = [HDPrivateKey.from_seed(bytes([1 + i]) * 32, network=NET) for i in range(n)]
        self.accts = [NamedHDPublicKey.from_hd_priv(r, BASE) for r in self.roots]

    def commands(self, branch, idx, m=None):
        kids = [a.child(branch).child(idx) for a in self.accts]
        secs = sorted(k.sec() for k in kids)
        return [number_to_op_code(m or self.m)] + secs + [number_to_op_code(self.n), 174], kids

    def hd_pubs(self):
        return {a.raw_serialize(): a for a in self.accts}


def named(kids):
    return {k.sec(): k.point for k in kids}


def lookup(*kid_lists):
    return {key: k for kids in kid_lists for k in kids for key in (k.sec(), k.hash160())}


def fund(script_pubkey, amount):
    """a (fake) confirmed transaction paying `amount` to script_pubkey at output 0"""
    return Tx(1, [TxIn(hashlib.sha256(b"funding").digest(), 0)], [TxOut(amount, script_pubkey)], 0, network=NET)


def summary(d):
    return {k: d[k] for k in ("tx_fee_sats", "total_input_sats", "spend_sats", "change_sats", "change_addr")}

w = Wallet(2, 3)
c_in, kids_in = w.commands(0, 0)
ws_in = WitnessScript(c_in)
f = fund(ws_in.script_pubkey(), 100_000)
dest = P2WPKHScriptPubKey(b"\x11" * 20)
key0 = w.roots[0].traverse(BASE + "/0/0").private_key


def load(kind):
    tx = Tx(2, [TxIn(f.hash(), 0)], [TxOut(99_000, dest)], 0, network=NET, segwit=True)
    tx.tx_ins[0]._value, tx.tx_ins[0]._script_pubkey = 100_000, f.tx_outs[0].script_pubkey
    if kind == "bip143":
        sig = tx.get_sig_segwit(0, key0, None, ws_in)                     # the signature the network will accept
    else:
        sig = key0.sign(tx.sig_hash_legacy(0, None)).der() + b"\x01"      # pre-segwit digest: worthless for a P2WSH coin
    # build the bytes by hand: non-witness UTXO + partial sig + witness script + derivations
    txb = tx.serialize_legacy()
    raw = b"psbt\xff" + b"\x01\x00" + encode_varint(len(txb)) + txb + b"\x00"
    raw += serialize_key_value(b"\x00", f.serialize())
    raw += serialize_key_value(b"\x02" + key0.point.sec(), sig)
    raw += serialize_key_value(b"\x05", ws_in.raw_serialize())
    for k in sorted(kids_in, key=lambda k: k.sec()):
        raw += k.point.serialize(b"\x06")
    raw += b"\x00" + b"\x00"
    # independent check of the signature against the real (BIP143) digest
    from buidl.ecc import Signature
    really_valid = key0.point.verify(tx.sig_hash_bip143(0, None, ws_in), Signature.parse(sig[:-1]))
    try:
        PSBT.parse(BytesIO(raw), network=NET)
        return really_valid, True
    except Exception as e:
        return really_valid, False


problems = []
for kind in ("bip143", "legacy-digest"):
    valid, loaded = load(kind)
    print(f"{kind:14s} signature: valid for spending the P2WSH coin = {valid}; PSBT loads = {loaded}")
    if valid != loaded:
        problems.append(kind)
if problems:
    print("DEFECT: for a P2WSH input supplied with PSBT_IN_NON_WITNESS_UTXO the wrong digest is used to vet partial signatures")
    sys.exit(1)
print("ok")
