import sys
import buidl
assert buidl.__file__.startswith("/tmp/audit-b"), buidl.__file__

from buidl.bech32 import bech32_create_checksum, bech32m_create_checksum, encode_bech32, group_32, decode_bech32
from buidl.script import address_to_script_pubkey, P2WSHScriptPubKey, P2WPKHScriptPubKey

def mk(hrp, ver, groups):
    data = [ver] + groups
    chk = bech32_create_checksum(hrp, data) if ver == 0 else bech32m_create_checksum(hrp, data)
    return hrp + "1" + encode_bech32(data + chk)

problems = []
h32 = bytes(range(32))
good = P2WSHScriptPubKey(h32).address("mainnet")
g = group_32(h32)
assert mk("bc", 0, g) == good
# (a) non-zero padding bits: flip the lowest (padding) bit of the last data group, recompute a valid checksum
alias = mk("bc", 0, g[:-1] + [g[-1] | 1])
assert alias != good
try:
    spk = address_to_script_pubkey(alias)
    problems.append(f"non-zero padding accepted: {alias} -> same script as {good}: {spk == P2WSHScriptPubKey(h32)}")
except Exception:
    pass
# (b) a whole extra group of padding (5 bits > 4): 20-byte program followed by an all-zero group
h20 = bytes(range(20))
alias2 = mk("bc", 0, group_32(h20) + [0])
try:
    net, ver, prog = decode_bech32(alias2)
    problems.append(f"5 padding bits accepted by decode_bech32: {alias2} -> v{ver} {prog.hex()}")
except Exception:
    pass
if problems:
    print("DEFECT: segwit address decoder does not validate padding (BIP173)")
    for p in problems:
        print(" -", p)
    sys.exit(1)
print("ok")
