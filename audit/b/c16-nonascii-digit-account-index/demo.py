import sys
import buidl
assert buidl.__file__.startswith("/tmp/audit-b"), buidl.__file__
from buidl.descriptor import P2WSHSortedMulti, parse_full_key_record, calc_core_checksum
from buidl.hd import HDPrivateKey

roots = [HDPrivateKey.from_seed(bytes([1 + i]) * 32, network="testnet") for i in range(2)]
key_records = [parse_full_key_record(r.generate_p2wsh_key_record() + "/0/*") for r in roots]
desc = P2WSHSortedMulti(2, key_records)
text = str(desc)
assert str(P2WSHSortedMulti.parse(text)) == text and text[-9] == "#"

problems = []
for name, digit in (("FULLWIDTH DIGIT ZERO U+FF10", "０"), ("ARABIC-INDIC DIGIT ZERO U+0660", "٠")):
    mutated = text.replace("/0/*", "/" + digit + "/*", 1)      # one character of the body altered, checksum untouched
    assert mutated != text and len(mutated) == len(text)
    try:
        got = P2WSHSortedMulti.parse(mutated)
        problems.append(f"{name}: accepted; checksum {got.checksum} 'verified' although the text it covers was altered")
    except ValueError:
        pass
if problems:
    print("DEFECT: a substituted character in the descriptor body is not detected")
    for p in problems:
        print(" -", p)
    sys.exit(1)
print("ok")
