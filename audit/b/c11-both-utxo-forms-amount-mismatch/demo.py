import sys, io, hashlib, contextlib
import buidl
assert buidl.__file__.startswith("/tmp/audit-b"), buidl.__file__
from io import BytesIO
from buidl.hd import HDPrivateKey, HDPublicKey
from buidl.psbt import PSBT, PSBTIn, PSBTOut, NamedHDPublicKey
from buidl.tx import Tx, TxIn, TxOut
from buidl.script import (RedeemScript, WitnessScript, P2WPKHScriptPubKey, P2TRScriptPubKey)
from buidl.op import number_to_op_code
from buidl.helper import serialize_key_value, encode_varint

NET = "testnet"
BASE = "m/48'/1'/0'/2'"


class Wallet:
    """m-of-n wallet: n seeds, account xpubs at BASE, scripts over <xpub>/branch/index (BIP67 order)"""

    def __init__(self, m, n):
        self.m, self.n = m, n
        self.roots = [HDPrivateKey.from_seed(bytes([1 + i]) * 32, network=NET) for i in range(n)]
        self.accts = [NamedHDPublicKey.from_hd_priv(r, BASE) for r in self.roots]

    def commands(self, branch, idx, m=None):
        kids = [a.child(branch).child(idx) for a in self.accts]
        secs = sorted(k.sec() for k in kids)
        return [number_to_op_code(m or self.m)] + secs + [number_to_op_code(self.n), 174], kids

    def hd_pubs(self):
        return {a.raw_serialize(): a for a in self.accts}


def named(kids):
    return {k.sec(): k.point for k in kids}


def lookup(*kid_lists):
    return {key: k for kids in kid_lists for k in kids for key in (k.sec(), k.hash160())}


def fund(script_pubkey, amount):
    """a (fake) confirmed transaction paying `amount` to script_pubkey at output 0"""
    return Tx(1, [TxIn(hashlib.sha256(b"funding").digest(), 0)], [TxOut(amount, script_pubkey)], 0, network=NET)


def summary(d):
    return {k: d[k] for k in ("tx_fee_sats", "total_input_sats", "spend_sats", "change_sats", "change_addr")}

w = Wallet(2, 3)
c_in, kids_in = w.commands(0, 0)
ws_in = WitnessScript(c_in)
c_ch, kids_ch = w.commands(1, 0)
ws_ch = WitnessScript(c_ch)
f = fund(ws_in.script_pubkey(), 5_000_000)        # the coin really holds 5,000,000 sats
dest = P2WPKHScriptPubKey(b"\x11" * 20)
tx = Tx(2, [TxIn(f.hash(), 0)], [TxOut(30_000, dest), TxOut(69_000, ws_ch.script_pubkey())], 0, network=NET, segwit=True)
psbt = PSBT.create(tx, tx_lookup={f.hash(): f}, pubkey_lookup=lookup(kids_in, kids_ch),
                   witness_lookup={ws_in.sha256(): ws_in, ws_ch.sha256(): ws_ch}, hd_pubs=w.hd_pubs())
raw = psbt.serialize()
honest_utxo = serialize_key_value(b"\x01", f.tx_outs[0].serialize())
assert raw.count(honest_utxo) == 1
# the input map gets BOTH the full previous transaction (5,000,000 sats) and a witness UTXO claiming 100,000 sats
lying_utxo = serialize_key_value(b"\x01", TxOut(100_000, f.tx_outs[0].script_pubkey).serialize())
tampered = raw.replace(honest_utxo, serialize_key_value(b"\x00", f.serialize()) + lying_utxo)
try:
    p = PSBT.parse(BytesIO(tampered), network=NET)
    d = p.describe_basic_multisig()
except Exception as e:
    print("ok - rejected:", type(e).__name__, str(e)[:100])
    sys.exit(0)
true_fee = 5_000_000 - 30_000 - 69_000
if d["tx_fee_sats"] != true_fee:
    print("DEFECT: PSBT input carries a non-witness UTXO (5,000,000 sats) and a contradicting witness UTXO (100,000 sats); it is summarised")
    print("  summary :", summary(d))
    print("  true fee:", true_fee, "sats; reported:", d["tx_fee_sats"])
    print("  after one serialise/parse cycle the same object reports:",
          PSBT.parse(BytesIO(p.serialize()), network=NET).describe_basic_multisig()["tx_fee_sats"])
    sys.exit(1)
print("ok")
