import sys, io, hashlib, contextlib
import buidl
assert buidl.__file__.startswith("/tmp/audit-b"), buidl.__file__
from io import BytesIO
from buidl.hd import HDPrivateKey, HDPublicKey
from buidl.psbt import PSBT, PSBTIn, PSBTOut, NamedHDPublicKey
from buidl.tx import Tx, TxIn, TxOut
from buidl.script import (RedeemScript, WitnessScript, P2WPKHScriptPubKey, P2TRScriptPubKey)
from buidl.op import number_to_op_code
from buidl.helper import serialize_key_value, encode_varint

NET = "testnet"
BASE = "m/48'/1'/0'/2'"


class Wallet:
    """m-of-n wallet: n seeds, account xpubs at BASE, scripts over <xpub>/branch/index (BIP67 order)"""

    def __init__(self, m, n):
        self.m, self.n = m, n
        self.roots = [HDPrivateKey.from_seed(bytes([1 + i]) * 32, network=NET) for i in range(n)]
        self.accts = [NamedHDPublicKey.from_hd_priv(r, BASE) for r in self.roots]

    def commands(self, branch, idx, m=None):
        kids = [a.child(branch).child(idx) for a in self.accts]
        secs = sorted(k.sec() for k in kids)
        return [number_to_op_code(m or self.m)] + secs + [number_to_op_code(self.n), 174], kids

    def hd_pubs(self):
        return {a.raw_serialize(): a for a in self.accts}


def named(kids):
    return {k.sec(): k.point for k in kids}


def lookup(*kid_lists):
    return {key: k for kids in kid_lists for k in kids for key in (k.sec(), k.hash160())}


def fund(script_pubkey, amount):
    """a (fake) confirmed transaction paying `amount` to script_pubkey at output 0"""
    return Tx(1, [TxIn(hashlib.sha256(b"funding").digest(), 0)], [TxOut(amount, script_pubkey)], 0, network=NET)


def summary(d):
    return {k: d[k] for k in ("tx_fee_sats", "total_input_sats", "spend_sats", "change_sats", "change_addr")}

w = Wallet(2, 3)
c_in, kids_in = w.commands(0, 0)
ws_in = WitnessScript(c_in)
c_ch, kids_ch = w.commands(1, 0)
ws_ch = WitnessScript(c_ch)
f = fund(ws_in.script_pubkey(), 100_000)
dest = P2WPKHScriptPubKey(b"\x11" * 20)
tx = Tx(2, [TxIn(f.hash(), 0)], [TxOut(30_000, dest), TxOut(69_000, ws_ch.script_pubkey())], 0, network=NET, segwit=True)
psbt = PSBT.create(tx, tx_lookup={f.hash(): f}, pubkey_lookup=lookup(kids_in, kids_ch),
                   witness_lookup={ws_in.sha256(): ws_in, ws_ch.sha256(): ws_ch}, hd_pubs=w.hd_pubs())
raw = psbt.serialize()


def loads(data):
    try:
        PSBT.parse(BytesIO(data), network=NET)
        return True
    except Exception:
        return False


assert loads(raw)
problems = []
# 1. the same PSBT_IN_BIP32_DERIVATION key twice, with two different values (fingerprints deadbeef vs. real)
k0 = kids_in[0].point
rec = k0.serialize(b"\x06")
assert raw.count(rec) == 1
conflicting = serialize_key_value(b"\x06" + k0.sec(), bytes.fromhex("deadbeef") + k0.raw_path[4:])
if loads(raw.replace(rec, conflicting + rec)):
    problems.append("input map: PSBT_IN_BIP32_DERIVATION key present twice with different values")
# 2. the same PSBT_OUT_BIP32_DERIVATION record twice
k1 = kids_ch[0].point
rec_out = k1.serialize(b"\x02")
i = raw.rindex(rec_out)
if loads(raw[:i] + rec_out + raw[i:]):
    problems.append("output map: PSBT_OUT_BIP32_DERIVATION record present twice")
# 3. the same PSBT_GLOBAL_XPUB record twice
g = w.accts[0].serialize()
assert raw.count(g) == 1
if loads(raw.replace(g, g + g)):
    problems.append("global map: PSBT_GLOBAL_XPUB record present twice")
# 4. unknown key twice when the first value is empty
i = raw.index(g)
u_empty, u_val = serialize_key_value(b"\xfc\x01", b""), serialize_key_value(b"\xfc\x01", b"AA")
assert not loads(raw[:i] + u_val + u_empty + raw[i:])          # this order is caught
if loads(raw[:i] + u_empty + u_val + raw[i:]):
    problems.append("global map: unknown key fc01 present twice (first value empty)")
# 5. PSBT_IN_SIGHASH_TYPE twice (0 then 1)
j = raw.index(serialize_key_value(b"\x05", ws_in.raw_serialize()))
sh = lambda n: serialize_key_value(b"\x03", n.to_bytes(4, "little"))
if loads(raw[:j] + sh(0) + sh(1) + raw[j:]):
    problems.append("input map: PSBT_IN_SIGHASH_TYPE present twice (0, then 1)")
if problems:
    print("DEFECT: PSBTs with duplicate keys are accepted (BIP174: must be rejected)")
    for p in problems:
        print(" -", p)
    sys.exit(1)
print("ok")
