import sys
import buidl
assert buidl.__file__.startswith("/tmp/audit-b"), buidl.__file__
from buidl.descriptor import P2WSHSortedMulti, parse_full_key_record, calc_core_checksum
from buidl.hd import HDPrivateKey

roots = [HDPrivateKey.from_seed(bytes([1 + i]) * 32, network="testnet") for i in range(2)]
key_records = [parse_full_key_record(r.generate_p2wsh_key_record() + "/0/*") for r in roots]
desc = P2WSHSortedMulti(2, key_records)
text = str(desc)
assert str(P2WSHSortedMulti.parse(text)) == text and text[-9] == "#"

records = [dict(kr) for kr in key_records]
records[0]["xfp"] = records[0]["xfp"].upper()             # e.g. 4BA43603 - hex is case-insensitive
d2 = P2WSHSortedMulti(2, records)                          # accepted by the constructor
text2 = str(d2)
try:
    again = P2WSHSortedMulti.parse(text2)
    assert str(again) == text2
    print("ok")
except ValueError as e:
    print("DEFECT: the library cannot parse a descriptor it generated itself")
    print(" - text    :", text2[:60], "...", text2[-10:])
    print(" - parse() :", str(e)[:90])
    sys.exit(1)
