"""C15 (share mnemonics round-trip through parsing and encoding): a valid SLIP39 share of a
160-bit secret has 23 words and no padding. Share.parse accepts it, but Share.mnemonic()
re-encodes it with 10 bits of padding as a 24-word mnemonic (padding = 10 - bits % 10 is 10,
not 0, when bits is a multiple of 10)."""
import sys
import buidl

assert buidl.__file__.startswith("/tmp/audit-d"), buidl.__file__
from buidl.shamir import Share, ShareSet

WORDS = open(buidl.__file__.rsplit("/", 1)[0] + "/slip39_words.txt").read().split()
GEN = (0xE0E040, 0x1C1C080, 0x3838100, 0x7070200, 0xE0E0009, 0x1C0C2412, 0x38086C24, 0x3090FC48, 0x21B1F890, 0x3F3F120)


def rs1024_polymod(values):
    chk = 1
    for v in values:
        b = chk >> 20
        chk = ((chk & 0xFFFFF) << 10) ^ v
        for i in range(10):
            if (b >> i) & 1:
                chk ^= GEN[i]
    return chk


def slip39_encode(ident, exp, gi, gt, gc, mi, mt, value):
    """Share encoding straight from SLIP-0039 'Format of the share mnemonic'."""
    bits = (
        format(ident, "015b") + format(exp, "05b") + format(gi, "04b") + format(gt - 1, "04b")
        + format(gc - 1, "04b") + format(mi, "04b") + format(mt - 1, "04b")
    )
    vbits = format(int.from_bytes(value, "big"), "0%db" % (8 * len(value)))
    bits += "0" * (-len(vbits) % 10) + vbits  # left-pad the value to a multiple of 10 bits
    idx = [int(bits[i:i + 10], 2) for i in range(0, len(bits), 10)]
    pm = rs1024_polymod(list(b"shamir") + idx + [0, 0, 0]) ^ 1
    idx += [(pm >> 10 * (2 - i)) & 1023 for i in range(3)]
    return " ".join(WORDS[i] for i in idx)


bad = []
for nbytes in (16, 20, 32):
    value = bytes(range(1, nbytes + 1))
    m = slip39_encode(0x1234, 0, 0, 1, 1, 0, 1, value)
    share = Share.parse(m)
    assert share.bytes == value and share.share_bit_length == nbytes * 8
    again = share.mnemonic()
    if again != m:
        bad.append(
            f"{nbytes * 8}-bit share: {len(m.split())} words in, {len(again.split())} words out of Share.mnemonic()"
        )
if bad:
    print("DEFECT: Share.parse(m).mnemonic() != m for a valid 160-bit share")
    print("\n".join(bad))
    sys.exit(1)
print("ok")
