"""C15: 1-of-n SLIP39 split must yield n shares, each of which recovers the secret alone."""
import sys
import buidl

assert buidl.__file__.startswith("/tmp/audit-d"), buidl.__file__
from buidl.mnemonic import bytes_to_mnemonic
from buidl.shamir import ShareSet, Share

secret = bytes(range(16))
mnemonic = bytes_to_mnemonic(secret, 128)
bad = []
for n in (2, 3, 16):
    shares = ShareSet.generate_shares(mnemonic, 1, n, passphrase=b"pw", exponent=0)
    if len(shares) != n:
        bad.append(f"generate_shares(k=1, n={n}) returned {len(shares)} share(s), expected {n}")
        hdr = Share.parse(shares[0])
        bad.append(
            f"  the only share announces group {hdr.group_threshold}-of-{hdr.group_count}, index {hdr.group_index}"
        )
    for s in shares:
        if ShareSet.recover_mnemonic([s], b"pw") != mnemonic:
            bad.append("a single share of a 1-of-n split did not recover the mnemonic")
data = ShareSet.split_secret(secret, 1, 5)
if len(data) != 5:
    bad.append(f"split_secret(secret, 1, 5) returned {len(data)} point(s), expected 5")
if bad:
    print("DEFECT: 1-of-n split does not produce n shares")
    print("\n".join(bad))
    sys.exit(1)
print("ok")
