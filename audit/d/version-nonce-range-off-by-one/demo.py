"""C19: the version message's nonce is a uint64. VersionMessage() draws it with
randint(0, 2**64), whose upper bound is inclusive and does not fit into 8 bytes."""
import sys
import buidl

assert buidl.__file__.startswith("/tmp/audit-d"), buidl.__file__
import buidl.network as network

calls = []


def top_of_range(a, b):
    """a legal outcome of random.randint(a, b): the inclusive upper bound"""
    calls.append((a, b))
    return b


orig = network.randint
network.randint = top_of_range
try:
    try:
        msg = network.VersionMessage(timestamp=0)
        nonce_ok = len(msg.nonce) == 8 and len(msg.serialize()) == 86 + len(msg.user_agent)
        err = None
    except OverflowError as e:
        nonce_ok, err = False, e
finally:
    network.randint = orig

if not nonce_ok:
    print("DEFECT: VersionMessage() can draw a nonce that does not fit in 64 bits")
    print(f"randint called with bounds {calls}; upper bound 2**64 is inclusive -> {err!r}")
    sys.exit(1)
print("ok")
