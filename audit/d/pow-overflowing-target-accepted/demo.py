"""C17: a header whose compact target overflows 256 bits (or exceeds every network's
pow limit) must fail the proof-of-work test; buidl accepts it for any hash."""
import sys
from io import BytesIO
import buidl

assert buidl.__file__.startswith("/tmp/audit-d"), buidl.__file__
from buidl.block import Block
from buidl.helper import encode_varint, hash256
from buidl.network import HeadersMessage

M256 = (1 << 256) - 1
REGTEST_POW_LIMIT = (1 << 255) - 1  # the laxest limit of any Bitcoin network


def core_check_pow(header80):
    """CheckProofOfWork from Bitcoin Core's pow.cpp with arith_uint256::SetCompact."""
    compact = int.from_bytes(header80[72:76], "little")
    size = compact >> 24
    word = compact & 0x007FFFFF
    if size <= 3:
        target = word >> (8 * (3 - size))
    else:
        target = (word << (8 * (size - 3))) & M256
    negative = word != 0 and (compact & 0x00800000) != 0
    overflow = word != 0 and (
        size > 34 or (word > 0xFF and size > 33) or (word > 0xFFFF and size > 32)
    )
    if negative or target == 0 or overflow or target > REGTEST_POW_LIMIT:
        return False
    return int.from_bytes(hash256(header80), "little") <= target


bad = []
prev = b"\x00" * 32
chain = b""
count = 0
# compact values: exponent 0x23 (35) -> overflow; 0x21 with 3-byte mantissa -> overflow;
# 0xff exponent; 0x2100ffff: no overflow flag but target >= 2^255 > every network's limit
for compact in (0x23000001, 0x217FFFFF, 0xFF7FFFFF, 0x2200FFFF, 0x2100FFFF):
    bits = compact.to_bytes(4, "little")
    for nonce in range(3):
        header = (
            (1).to_bytes(4, "little")
            + prev
            + bytes(32)
            + (1231006505).to_bytes(4, "little")
            + bits
            + nonce.to_bytes(4, "little")
        )
        blk = Block.parse_header(BytesIO(header))
        assert blk.serialize() == header
        want = core_check_pow(header)
        got = blk.check_pow()
        if got != want:
            bad.append(
                f"bits=0x{compact:08x} nonce={nonce}: check_pow()={got}, consensus={want}"
            )
    chain += header + b"\x00"
    count += 1
    prev = hash256(header)
msg = HeadersMessage.parse(BytesIO(encode_varint(count) + chain))
if msg.is_valid():
    bad.append("HeadersMessage.is_valid() accepts a chain of zero-work headers")

if bad:
    print("DEFECT: overflowing / over-limit compact targets pass the proof-of-work test")
    print("\n".join(bad))
    sys.exit(1)
print("ok")
