"""C18: a BIP158 filter is built over the *set* of elements (duplicates removed, N = number of
distinct elements). buidl counts every occurrence, so any block that pays the same script twice
gets a filter (and filter hash / header) different from the one the network serves."""
import struct
import sys
from io import BytesIO
import buidl

assert buidl.__file__.startswith("/tmp/audit-d"), buidl.__file__
from buidl.block import Block
from buidl.compactfilter import encode_gcs, hashed_items
from buidl.helper import filter_null, hash256

M64 = (1 << 64) - 1
P, M = 19, 784931


def rotl(x, b):
    return ((x << b) | (x >> (64 - b))) & M64


def siphash24(key, data):
    """SipHash-2-4 written from the reference paper."""
    k0, k1 = struct.unpack("<QQ", key)
    v = [0x736F6D6570736575 ^ k0, 0x646F72616E646F6D ^ k1, 0x6C7967656E657261 ^ k0, 0x7465646279746573 ^ k1]

    def rnd():
        v[0] = (v[0] + v[1]) & M64; v[1] = rotl(v[1], 13); v[1] ^= v[0]; v[0] = rotl(v[0], 32)
        v[2] = (v[2] + v[3]) & M64; v[3] = rotl(v[3], 16); v[3] ^= v[2]
        v[0] = (v[0] + v[3]) & M64; v[3] = rotl(v[3], 21); v[3] ^= v[0]
        v[2] = (v[2] + v[1]) & M64; v[1] = rotl(v[1], 17); v[1] ^= v[2]; v[2] = rotl(v[2], 32)

    n = len(data)
    for i in range(0, n - n % 8, 8):
        m = struct.unpack_from("<Q", data, i)[0]
        v[3] ^= m; rnd(); rnd(); v[0] ^= m
    b = ((n & 0xFF) << 56) | int.from_bytes(data[n - n % 8:], "little")
    v[3] ^= b; rnd(); rnd(); v[0] ^= b
    v[2] ^= 0xFF
    rnd(); rnd(); rnd(); rnd()
    return v[0] ^ v[1] ^ v[2] ^ v[3]


def compact_size(n):
    assert n < 0xFD
    return bytes([n])


def bip158_filter(key, elements):
    """BIP158 / Bitcoin Core GCSFilter: elements form a set (GCSFilter::ElementSet)."""
    elements = set(elements)
    n = len(elements)
    f = n * M
    values = sorted((siphash24(key, e) * f) >> 64 for e in elements)
    bits, last = "", 0
    for val in values:
        delta, last = val - last, val
        bits += "1" * (delta >> P) + "0" + format(delta & ((1 << P) - 1), "019b")
    bits += "0" * (-len(bits) % 8)
    body = int(bits, 2).to_bytes(len(bits) // 8, "big") if bits else b""
    return compact_size(n) + body


assert siphash24(bytes(range(16)), b"") == 0x726FDB47DD0E0E31  # reference vector
# sanity: reference reproduces the BIP158 testnet genesis vector 019dfca8
GEN_SPK = bytes.fromhex(
    "4104678afdb0fe5548271967f1a67130b7105cd6a828e03909a67962e0ea1f61deb649f6"
    "bc3f4cef38c4f35504e51ec112de5c384df7ba0b8d578a4c702b6bf11d5fac"
)
GEN_HASH = bytes.fromhex("000000000933ea01ad0ee984209779baaec3ced90fa3f408719526f8d77f4943")
assert bip158_filter(GEN_HASH[::-1][:16], [GEN_SPK]).hex() == "019dfca8"

# a block whose only transaction pays the same p2pkh script twice and another script once
spk_a = bytes.fromhex("76a914") + bytes(range(20)) + bytes.fromhex("88ac")
spk_b = bytes.fromhex("76a914") + bytes(range(20, 40)) + bytes.fromhex("88ac")


def txout(amount, spk):
    return amount.to_bytes(8, "little") + bytes([len(spk)]) + spk


raw_tx = (
    (1).to_bytes(4, "little")
    + b"\x01" + bytes(32) + b"\xff\xff\xff\xff" + b"\x02\x01\x01" + b"\xff\xff\xff\xff"
    + b"\x03" + txout(1000, spk_a) + txout(2000, spk_b) + txout(3000, spk_a)
    + bytes(4)
)
header = (1).to_bytes(4, "little") + bytes(32) + hash256(raw_tx) + bytes(4) + bytes.fromhex("ffff7f20") + bytes(4)
block = Block.parse(BytesIO(header + b"\x01" + raw_tx))
assert block.validate_merkle_root()
key = block.hash()[::-1][:16]

# the library's documented pipeline (see buidl/test/test_compactfilter.py)
items = filter_null(list(block.get_outpoints()))
got = encode_gcs(key, items)
want = bip158_filter(key, [spk_a, spk_b, spk_a])

bad = []
if got != want:
    bad.append(f"filter of a block paying the same script twice: buidl {got.hex()} != BIP158 {want.hex()}")
    bad.append(f"  N byte: buidl {got[0]}, BIP158 {want[0]} (two distinct scripts)")
# the same at the lowest level
k = bytes(range(16))
if encode_gcs(k, [b"a", b"b", b"a"]) != bip158_filter(k, [b"a", b"b"]):
    bad.append(
        "encode_gcs(key, [a, b, a]) = %s, BIP158 filter of {a, b} = %s"
        % (encode_gcs(k, [b"a", b"b", b"a"]).hex(), bip158_filter(k, [b"a", b"b"]).hex())
    )
if bad:
    print("DEFECT: duplicate filter elements are not removed before GCS construction")
    print("\n".join(bad))
    sys.exit(1)
print("ok")
