"""C20: the CBOR byte-string wrapper must use the RFC 8949 header 0x5a for 4-byte lengths
(payloads of 65536 bytes and more); buidl writes 0x60 and cannot read 0x5a."""
import sys
import buidl

assert buidl.__file__.startswith("/tmp/audit-d"), buidl.__file__
from buidl.bech32 import cbor_encode, cbor_decode


def rfc8949_bytes(data):
    """CBOR major type 2 (byte string), definite length, shortest form."""
    n = len(data)
    if n <= 23:
        return bytes([0x40 | n]) + data
    if n <= 0xFF:
        return bytes([0x58, n]) + data
    if n <= 0xFFFF:
        return b"\x59" + n.to_bytes(2, "big") + data
    if n <= 0xFFFFFFFF:
        return b"\x5a" + n.to_bytes(4, "big") + data
    return b"\x5b" + n.to_bytes(8, "big") + data


bad = []
for n in (0, 23, 24, 255, 256, 65535, 65536, 65537, 70000):
    data = bytes([n % 251]) * n
    want = rfc8949_bytes(data)
    got = cbor_encode(data)
    if got != want:
        bad.append(f"cbor_encode(len={n}) header {got[:5].hex()} != RFC 8949 header {want[:5].hex()}")
    back = cbor_decode(want)
    if back != data:
        bad.append(
            f"cbor_decode of the standard encoding (len={n}, header {want[:5].hex()}) returned "
            f"{'None' if back is None else 'wrong data'}"
        )
if bad:
    print("DEFECT: CBOR byte strings of 65536+ bytes use a non-CBOR header")
    print("\n".join(bad))
    sys.exit(1)
print("ok")
