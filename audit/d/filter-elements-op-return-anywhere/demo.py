"""C18 (element selection for the basic filter): BIP158 leaves out only output scripts that
*start* with OP_RETURN. Block.get_outpoints() leaves out every script that contains an OP_RETURN
opcode anywhere, so such outputs are missing from buidl-built filters (false negative)."""
import sys
from io import BytesIO
import buidl

assert buidl.__file__.startswith("/tmp/audit-d"), buidl.__file__
from buidl.block import Block
from buidl.helper import hash256

OP_RETURN = 0x6A
spk_plain = bytes.fromhex("76a914") + bytes(range(20)) + bytes.fromhex("88ac")
spk_null_data = bytes([OP_RETURN, 0x04]) + b"data"  # genuine OP_RETURN output: excluded by BIP158
# spendable scripts that merely contain the opcode later on: included by BIP158 / Core / btcd
spk_branch = bytes.fromhex("63") + bytes([0x51]) + bytes.fromhex("67") + bytes([OP_RETURN]) + bytes.fromhex("68")
#            OP_IF                   OP_1            OP_ELSE           OP_RETURN         OP_ENDIF
spk_tail = bytes.fromhex("51") + bytes([OP_RETURN])  # OP_1 OP_RETURN


def txout(amount, spk):
    return amount.to_bytes(8, "little") + bytes([len(spk)]) + spk


outs = [spk_plain, spk_null_data, spk_branch, spk_tail]
raw_tx = (
    (1).to_bytes(4, "little")
    + b"\x01" + bytes(32) + b"\xff\xff\xff\xff" + b"\x02\x01\x01" + b"\xff\xff\xff\xff"
    + bytes([len(outs)]) + b"".join(txout(1000 + i, s) for i, s in enumerate(outs))
    + bytes(4)
)
header = (1).to_bytes(4, "little") + bytes(32) + hash256(raw_tx) + bytes(4) + bytes.fromhex("ffff7f20") + bytes(4)
block = Block.parse(BytesIO(header + b"\x01" + raw_tx))
assert block.validate_merkle_root()
assert [o.script_pubkey.raw_serialize() for o in block.txs[0].tx_outs] == outs

# Bitcoin Core blockfilter.cpp BasicFilterElements: `if (script.empty() || script[0] == OP_RETURN) continue;`
want = [s for s in outs if len(s) > 0 and s[0] != OP_RETURN]
got = list(block.get_outpoints())
missing = [s for s in want if s not in got]
if missing:
    print("DEFECT: output scripts that contain OP_RETURN after the first byte are dropped from the filter elements")
    for s in missing:
        print("  missing element:", s.hex())
    sys.exit(1)
print("ok")
