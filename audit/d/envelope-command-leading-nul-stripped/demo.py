"""C19: the envelope's command field is NUL-*padded* (trailing NULs). NetworkEnvelope.parse strips
NULs from both ends, so a command field that starts with NUL bytes is silently turned into a
different command (and NetworkEnvelope(b"\\x00ab") does not round-trip)."""
import sys
from io import BytesIO
import buidl

assert buidl.__file__.startswith("/tmp/audit-d"), buidl.__file__
from buidl.helper import hash256
from buidl.network import MAGIC, NetworkEnvelope

bad = []
# 1. round trip of a command whose first byte is NUL
env = NetworkEnvelope(b"\x00ab", b"payload")
back = NetworkEnvelope.parse(BytesIO(env.serialize()))
if back.command != env.command:
    bad.append(f"round trip: command {env.command!r} came back as {back.command!r}")

# 2. a malformed header (NULs *before* the text) is accepted and read as 'verack'
payload = b""
raw = MAGIC["mainnet"] + b"\x00" * 6 + b"verack" + (0).to_bytes(4, "little") + hash256(payload)[:4] + payload
try:
    got = NetworkEnvelope.parse(BytesIO(raw)).command
except (RuntimeError, ValueError):
    got = None  # rejecting is what Bitcoin Core does
if got == b"verack":
    bad.append("command field 00 00 00 00 00 00 'verack' was accepted and interpreted as b'verack'")

if bad:
    print("DEFECT: leading NUL bytes are stripped from the command field")
    print("\n".join(bad))
    sys.exit(1)
print("ok")
