"""C04 regression: Tx.parse swallows the error of the segwit parser and returns a made-up
legacy transaction (0 inputs, 1 output) for a segwit transaction that is cut short."""
import contextlib
import io
import sys
from io import BytesIO

import buidl

assert buidl.__file__.startswith("/tmp/audit-j"), buidl.__file__
from buidl.script import P2PKHScriptPubKey, P2WPKHScriptPubKey, Script
from buidl.tx import Tx, TxIn, TxOut
from buidl.witness import Witness

# an honest 2-input segwit transaction built through the API
tx_in_0 = TxIn(b"\x07" * 32, 1)
tx_in_0.witness = Witness([b"\x30" * 71, b"\x02" * 33])
tx_in_1 = TxIn(b"\x08" * 32, 0, Script([b"\x00\x14" + b"\xaa" * 20]))
tx_in_1.witness = Witness([b"\x30" * 72, b"\x03" * 33])
tx = Tx(
    2,
    [tx_in_0, tx_in_1],
    [TxOut(49000, P2WPKHScriptPubKey(b"\x22" * 20)), TxOut(1, P2PKHScriptPubKey(b"\x23" * 20))],
    0,
    segwit=True,
)
raw = tx.serialize()
assert Tx.parse(BytesIO(raw)).serialize() == raw

swallowed = []
for cut in range(6, len(raw)):
    piece = raw[:cut]
    with contextlib.redirect_stdout(io.StringIO()):
        # the segwit parser itself notices the truncation ...
        try:
            Tx.parse_segwit(BytesIO(piece))
            continue  # silent short read, pre-existing and out of scope
        except Exception as e:
            segwit_error = e
        # ... Tx.parse has to report it as well
        try:
            got = Tx.parse(BytesIO(piece))
        except Exception:
            continue
    swallowed.append((cut, segwit_error, got))

if swallowed:
    cut, err, got = swallowed[len(swallowed) // 2]
    print(
        f"DEFECT: {len(swallowed)} of {len(raw) - 6} truncations of a valid segwit transaction, on which "
        f"parse_segwit raises, are returned by Tx.parse as a legacy transaction"
    )
    print(
        f"  e.g. first {cut} of {len(raw)} bytes: parse_segwit -> {type(err).__name__}({err}); "
        f"Tx.parse -> segwit={got.segwit}, {len(got.tx_ins)} inputs, {len(got.tx_outs)} outputs, "
        f"amount {got.tx_outs[0].amount}, id {got.id()[:16]}..."
    )
    sys.exit(1)
print("ok: Tx.parse reports every truncation that parse_segwit reports")
