"""C16 regression: P2WSHSortedMulti.parse no longer accepts a Specter-Desktop account map
(the JSON export with escaped slashes that parse() was written for, and that multiwallet.py
asks the user to paste)."""
import json
import sys

import buidl

assert buidl.__file__.startswith("/tmp/audit-j"), buidl.__file__
from buidl.descriptor import P2WSHSortedMulti
from buidl.hd import HDPrivateKey

# build an honest 2-of-3 descriptor through the API
key_records = []
for i in range(3):
    root = HDPrivateKey.from_mnemonic(
        "abandon " * 11 + "about", password=str(i).encode(), network="testnet"
    )
    path = "m/48h/1h/0h/2h"
    key_records.append(
        {
            "xfp": root.fingerprint().hex(),
            "path": path,
            "xpub_parent": root.traverse(path).xpub(),
            "account_index": 0,
        }
    )
want = P2WSHSortedMulti(2, key_records)
text = str(want)  # wsh(sortedmulti(2,...))#checksum
assert str(P2WSHSortedMulti.parse(text)) == text

# Specter-Desktop "account map" export: JSON, "/" escaped as "\/", descriptor is the last key
account_map = json.dumps(
    {"label": "demo", "blockheight": 0, "descriptor": text}
).replace("/", "\\/")
assert json.loads(account_map)["descriptor"] == text  # it is valid JSON for the same text

problems = []
for name, blob in (
    ("specter account map (json, escaped slashes)", account_map),
    ("json, descriptor not last", json.dumps({"descriptor": text, "label": "demo"})),
    ("descriptor in double quotes", '"' + text + '"'),
):
    try:
        got = P2WSHSortedMulti.parse(blob)
    except Exception as e:
        problems.append(f"{name}: raises {type(e).__name__}: {str(e)[:70]}...")
        continue
    if str(got) != text or got.get_address(0) != want.get_address(0):
        problems.append(f"{name}: parsed to a different descriptor")

# what the fix was for must stay rejected: junk glued to the checksum
for junk in ("x", "qq", "#"):
    try:
        P2WSHSortedMulti.parse(text + junk)
        problems.append(f"trailing {junk!r} after the checksum accepted")
    except ValueError:
        pass

if problems:
    print("DEFECT: account-map forms of an honest descriptor are refused:")
    for p in problems:
        print("  -", p)
    sys.exit(1)
print("ok: account map forms parse to the same descriptor")
