"""C07 - the Script interpreter agrees with consensus on its supported opcode set.

Monitors (vmon.contracts, attached to the real functions from outside the repository):
  OP_CODE_FUNCTIONS[code]   every non-signature entry: (ok, stack', altstack') == reference single step
                            (ref.interp.step, a port of Core's EvalScript); OP_IF/OP_NOTIF: ok, popped
                            stack and *effect* of the splice (reference run of the spliced command list
                            == reference run of the unspliced one)
  op.encode_num/decode_num  == CScriptNum serialize / set_vch, minimal, round trip
  Script.evaluate           boundary differential: accept/reject == reference interpreter + final
                            CastToBool (exception => reject)
Workloads: single-opcode conformance over all stacks of depth <= 3 of a 14-element alphabet and sampled
depth 4..7, stack-aware generated programs (<= 40 operations), number codec enumeration, timelock grid.
"""
from ref import interp as R
from vmon import contracts
from vmon.core import Quiet

PROPERTY_ID = "C07"
RULE = (
    "cases = (opcode, stack, altstack, tx context) single steps driven through the monitored dispatch-table entry; "
    "generated programs of <= 40 operations (stack-aware generator, properly nested IF/NOTIF/ELSE/ENDIF incl. several ELSEs per IF, "
    "depth <= 4) run through Script.evaluate with a Tx built through the API; integers / byte strings through "
    "encode_num / decode_num; (locktime, sequence, version, operand encoding) grid points through OP_CLTV / OP_CSV. "
    "distinct = distinct concrete inputs by hash; non-trivial = the reference verdict was computed and compared for the "
    "case (cases outside the quantifier - arithmetic operand > 4 bytes, timelock operand > 5 bytes or > 2^32-1, "
    "P2SH / witness byte patterns that Script.evaluate special-cases by design - are discarded and counted, never compared)"
)
ASSUMPTIONS = [
    "consensus rules only: minimal number encoding, MINIMALIF, CLEANSTACK, NULLDUMMY, DISCOURAGE_UPGRADABLE_NOPS are policy and not asserted",
    "signature opcodes (CHECKSIG*, CHECKMULTISIG*) are out of scope here (C06); unbalanced conditionals are not generated",
    "programs in which the reference trace meets a byte pattern that Script.evaluate treats as P2SH / witness v0 / taproot are discarded (counted as outside:*)",
    "when a per-opcode monitor already fired inside a program run, the program-level verdict difference is attributed to it (counted, not reported twice)",
]

# ---- opcode labels ------------------------------------------------------------------------
NAMES = {0: "OP_0", 79: "OP_1NEGATE", 97: "OP_NOP", 99: "OP_IF", 100: "OP_NOTIF", 105: "OP_VERIFY", 106: "OP_RETURN",
         107: "OP_TOALTSTACK", 108: "OP_FROMALTSTACK", 109: "OP_2DROP", 110: "OP_2DUP", 111: "OP_3DUP", 112: "OP_2OVER",
         113: "OP_2ROT", 114: "OP_2SWAP", 115: "OP_IFDUP", 116: "OP_DEPTH", 117: "OP_DROP", 118: "OP_DUP", 119: "OP_NIP",
         120: "OP_OVER", 121: "OP_PICK", 122: "OP_ROLL", 123: "OP_ROT", 124: "OP_SWAP", 125: "OP_TUCK", 130: "OP_SIZE",
         135: "OP_EQUAL", 136: "OP_EQUALVERIFY", 139: "OP_1ADD", 140: "OP_1SUB", 143: "OP_NEGATE", 144: "OP_ABS", 145: "OP_NOT",
         146: "OP_0NOTEQUAL", 147: "OP_ADD", 148: "OP_SUB", 154: "OP_BOOLAND", 155: "OP_BOOLOR", 156: "OP_NUMEQUAL",
         157: "OP_NUMEQUALVERIFY", 158: "OP_NUMNOTEQUAL", 159: "OP_LESSTHAN", 160: "OP_GREATERTHAN", 161: "OP_LESSTHANOREQUAL",
         162: "OP_GREATERTHANOREQUAL", 163: "OP_MIN", 164: "OP_MAX", 165: "OP_WITHIN", 166: "OP_RIPEMD160", 167: "OP_SHA1",
         168: "OP_SHA256", 169: "OP_HASH160", 170: "OP_HASH256", 176: "OP_NOP1", 177: "OP_CHECKLOCKTIMEVERIFY",
         178: "OP_CHECKSEQUENCEVERIFY"}
NAMES.update({80 + i: "OP_%d" % i for i in range(1, 17)})
NAMES.update({175 + i: "OP_NOP%d" % i for i in range(4, 11)})
SIG_CODES = (172, 173, 174, 175, 186)
MONITORED = sorted(NAMES)
IF_CODES = (99, 100)
ALT_CODES = (107, 108)
TX_CODES = (177, 178)
NEVER_FAIL = set([0, 79, 116] + list(range(81, 97)) + list(R.NOPS))
NEVER_OK = {106}
PLAIN_STEP_CODES = [c for c in MONITORED if c not in IF_CODES]

ALPHABET = [b"", b"\x00", b"\x80", b"\x01", b"\x81", b"\x02", b"\x7f", b"\xff", b"\x00\x80", b"\xff\x7f",
            b"\xff\xff\xff\x7f", b"\xff\xff\xff\xff", b"\x00\x00\x00\x80\x00", bytes(range(1, 21))]
FINAL_TOPS = ["stack-empty", "top-empty", "top-00", "top-80", "top-0080", "top-other-zero", "top-nonzero"]
TL_CLASSES = ["cltv-ok", "cltv-negative", "cltv-type-mismatch", "cltv-too-early", "cltv-final-sequence",
              "csv-ok", "csv-nop-disable-flag", "csv-negative", "csv-version<2", "csv-tx-disable-flag", "csv-type-mismatch",
              "csv-too-early", "operand-5-bytes", "operand-nonminimal", "empty-stack"]

GATES = {
    "op-monitors-ran": [NAMES[c] for c in MONITORED],
    "op-success-observed": ["ok:" + NAMES[c] for c in MONITORED if c not in NEVER_OK],
    "op-failure-observed": ["fail:" + NAMES[c] for c in MONITORED if c not in NEVER_FAIL],
    "codec-monitors-ran": ["encode_num", "decode_num"],
    "codec-classes": ["codec:negative", "codec:sign-byte-appended", "codec:nonminimal-decoded", "codec:negative-zero-decoded",
                      "codec:int32-boundary", "codec:3-4-byte-strings"],
    "evaluate-monitor-ran": ["Script.evaluate"],
    "programs-accepted-and-rejected": ["program:accept", "program:reject", "program:accept-share>=25%", "program:reject-share>=25%",
                                       "program:reject-at-final-stack-test", "program:reject-inside"],
    "program-structure": ["program:with-conditional", "program:nested-conditional", "program:with-else", "program:several-elses-in-one-if", "program:dead-branch-with-conditional",
                          "program:altstack", "program:hash", "program:timelock", "program:len>=30"],
    "final-stack-classes": ["final:" + t for t in FINAL_TOPS],
    "timelock-classes": ["tl:" + t for t in TL_CLASSES],
    "singleop-depths": ["singleop:depth-%d" % d for d in range(0, 8)],
    "guards-recognise-special-cased-patterns": ["guard-selftest:recognised"],
    "pick-roll-operands": ["pickroll:n=-2", "pickroll:n=-1", "pickroll:n=0", "pickroll:n=1", "pickroll:n=depth-1", "pickroll:n=depth", "pickroll:n=depth+1"],
}

_state = {"txctx": None, "opviol": 0, "wrappers": {}, "reported": {}}
_DEFAULT_TX = (0, 0xFFFFFFFF, 1)


def anchors():
    from buidl import op, script, timelock

    return [script.Script.evaluate, op.encode_num, op.decode_num, op.op_if, op.op_notif, op.op_2rot, op.op_pick, op.op_roll,
            op.op_checklocktimeverify, op.op_checksequenceverify, op.op_within, op.op_sub, timelock.Locktime.is_comparable,
            timelock.Sequence.is_comparable, timelock.Sequence.__lt__]


def outcome(fn, *a):
    """('ok', value) | ('exc', 'Type: msg').  Like vmon.core.outcome, but the library's print() noise is
    muted once per shard (run_shard / replay hold one Quiet()) instead of once per call."""
    try:
        return ("ok", fn(*a))
    except RecursionError as e:
        return ("exc", "RecursionError: " + str(e)[:80])
    except Exception as e:  # noqa: BLE001 - the monitor observes every outcome
        return ("exc", type(e).__name__ + ": " + str(e)[:120])


# ---- per-opcode contracts -----------------------------------------------------------------
def _all_bytes(xs):
    for x in xs:
        if not isinstance(x, bytes):
            return False
    return True


def _report(ctx, mech, what, case):
    """Record a violation; the harness keeps at most 200 per shard, so keep only the first few
    per mechanism (all are counted in classes['violations:<mechanism>'])."""
    ctx.count("violations:" + mech)
    seen = _state["reported"]
    seen[mech] = seen.get(mech, 0) + 1
    if seen[mech] <= 3:
        ctx.violation(mech, what, case)


def _violate(ctx, mech, what, case):
    _state["opviol"] += 1
    _report(ctx, mech, what, case)


def _hexs(xs):
    return "[" + " ".join(x.hex() or "''" for x in xs) + "]"


def _make_post(code):
    label = NAMES[code]
    kops = R.NUMERIC_OPERANDS.get(code, 0)
    is_tl = code in TX_CODES
    is_alt = code in ALT_CODES

    def post(args, kwargs, pre, out):
        ctx = contracts.ctx()
        pre_stack, pre_alt, txk = pre
        if not _all_bytes(pre_stack) or (pre_alt is not None and not _all_bytes(pre_alt)):
            return NotImplemented
        if kops and len(pre_stack) >= kops:
            for x in pre_stack[-kops:]:
                if len(x) > 4:
                    ctx.count("outside:arith-operand>4-bytes")
                    return NotImplemented
        if is_tl and pre_stack:
            top = pre_stack[-1]
            if len(top) > 5:
                ctx.count("outside:timelock-operand>5-bytes")
                if out[0] == "ok" and out[1]:
                    ctx.count("observed:timelock-operand>5-bytes-accepted")
                return NotImplemented
            if R.set_vch(top) > 0xFFFFFFFF:
                ctx.count("outside:timelock-operand>2^32-1")
                return NotImplemented
        rc = R.TxCtx(*(txk or _DEFAULT_TX))
        s = list(pre_stack)
        a = list(pre_alt) if pre_alt is not None else []
        try:
            exp_ok = R.step(code, s, a, rc)
        except R.Unsupported:
            return NotImplemented
        lib_ok = out[0] == "ok" and bool(out[1])
        if out[0] == "exc":
            ctx.rejected_by_exception += 1
            ctx.count("op-rejected-by-exception:" + label)
        ctx.count(("ok:" if exp_ok else "fail:") + label)
        if is_tl:
            _count_timelock(ctx, code, pre_stack, exp_ok, rc)
        case = {"op": "step", "code": code, "stack": pre_stack, "alt": pre_alt, "tx": txk}
        stack = args[0]
        if lib_ok != exp_ok:
            kind = "lib-succeeds-consensus-fails" if lib_ok else "lib-fails-consensus-succeeds"
            mech = "op-conformance:%s:%s" % (label, kind)
            if code in (121, 122) and lib_ok and rc.reason == "pick-roll-range-negative":
                mech = "pick-roll-negative-operand"
            if code == 178 and not lib_ok and rc.reason == "csv-nop-disable-flag":
                mech = "csv-disable-flag-rejected"
            got = "ok stack=" + _hexs(stack) if lib_ok else ("raised " + repr(out[1]) if out[0] == "exc" else "returned %r" % (out[1],))
            exp = "ok stack=" + _hexs(s) if exp_ok else "fail (%s)" % rc.reason
            _violate(ctx, mech, "%s on stack %s tx=%s: library %s; consensus %s" % (label, _hexs(pre_stack), txk, got, exp), case)
            return
        if exp_ok:
            if list(stack) != s:
                mech = "op-conformance:%s:stack-differs" % label
                if code == 113 and list(stack) == pre_stack + pre_stack[-6:-4]:
                    mech = "op_2rot-copies"
                _violate(ctx, mech, "%s on stack %s: library stack %s; consensus stack %s" % (label, _hexs(pre_stack), _hexs(stack), _hexs(s)), case)
            elif is_alt and list(args[1]) != a:
                _violate(ctx, "op-conformance:%s:altstack-differs" % label,
                         "%s: library altstack %s; consensus %s" % (label, _hexs(args[1]), _hexs(a)), case)

    return post


def _count_timelock(ctx, code, pre_stack, exp_ok, rc):
    if not pre_stack:
        ctx.count("tl:empty-stack")
        return
    top = pre_stack[-1]
    if len(top) == 5:
        ctx.count("tl:operand-5-bytes")
    if not R.is_minimal(top):
        ctx.count("tl:operand-nonminimal")
    if exp_ok:
        ctx.count("tl:" + (rc.reason or ("cltv-ok" if code == 177 else "csv-ok")))
    else:
        ctx.count("tl:" + str(rc.reason))


def _make_post_if(code):
    label = NAMES[code]

    def post(args, kwargs, pre, out):
        ctx = contracts.ctx()
        pre_stack, pre_items = pre
        if not _all_bytes(pre_stack):
            return NotImplemented
        whole = [code] + pre_items
        if not R.well_formed(whole):
            ctx.count("outside:conditional-not-well-formed")
            return NotImplemented
        txk = _state["txctx"] or _DEFAULT_TX
        stack, items = args[0], args[1]
        lib_ok = out[0] == "ok" and bool(out[1])
        exp_ok = len(pre_stack) >= 1
        ctx.count(("ok:" if exp_ok else "fail:") + label)
        case = {"op": "if", "code": code, "stack": pre_stack, "items": pre_items, "tx": txk}
        if lib_ok != exp_ok:
            _violate(ctx, "op-conformance:%s:%s" % (label, "lib-succeeds-consensus-fails" if lib_ok else "lib-fails-consensus-succeeds"),
                     "%s on stack %s: library %r; consensus %s" % (label, _hexs(pre_stack), out[1], "ok" if exp_ok else "fail"), case)
            return
        if not exp_ok:
            return
        if list(stack) != pre_stack[:-1]:
            _violate(ctx, "op-conformance:%s:stack-differs" % label,
                     "%s on stack %s: library stack %s; consensus pops exactly the condition" % (label, _hexs(pre_stack), _hexs(stack)), case)
            return
        # effect of the splice: the reference interpreter must not be able to tell the spliced
        # continuation from the original program
        try:
            r1 = R.run(whole, R.TxCtx(*txk), stack=list(pre_stack), altstack=[], enforce_limits=False)
            r2 = R.run(list(items), R.TxCtx(*txk), stack=list(stack), altstack=[], enforce_limits=False)
        except R.Unsupported:
            ctx.count("outside:conditional-body-with-signature-opcode")
            return NotImplemented
        n1 = (True, r1[1], r1[2]) if r1[0] else (False,)
        n2 = (True, r2[1], r2[2]) if r2[0] else (False,)
        if n1 != n2:
            taken = R.cast_to_bool(pre_stack[-1]) != (code == 100)
            _violate(ctx, "op-conformance:%s:wrong-branch-or-splice" % label,
                     "%s cond=%s (consensus executes the %s branch): continuation after the library's splice evaluates to %r, the "
                     "program to %r" % (label, pre_stack[-1].hex(), "first" if taken else "ELSE", n2[:1], n1[:1]), case)

    return post


def _snap_plain(stack):
    return (list(stack), None, None)


def _snap_alt(stack, altstack):
    return (list(stack), list(altstack), None)


def _snap_tx(stack, tx_obj, input_index):
    return (list(stack), None, (int(tx_obj.locktime), int(tx_obj.tx_ins[input_index].sequence), int(tx_obj.version)))


def _snap_if(stack, items):
    return (list(stack), list(items))


# ---- codec contracts ----------------------------------------------------------------------
def post_encode(args, kwargs, pre, out):
    ctx = contracts.ctx()
    n = args[0] if args else kwargs.get("num")
    if not isinstance(n, int) or isinstance(n, bool) or abs(n) >= 2**63:
        return NotImplemented
    case = {"op": "encode", "n": n}
    if out[0] == "exc":
        _report(ctx, "encode_num-raises", "encode_num(%d) raised %r" % (n, out[1]), case)
        return
    got = out[1]
    exp = R.serialize_num(n)
    if n < 0:
        ctx.count("codec:negative")
    if exp and (exp[-1] & 0x7F) == 0:
        ctx.count("codec:sign-byte-appended")
    if got != exp:
        mech = "encode_num-not-cscriptnum"
        if isinstance(got, bytes) and R.set_vch(got) == n and not R.is_minimal(got):
            mech = "encode_num-not-minimal"
        _report(ctx, mech, "encode_num(%d) = %s, CScriptNum::serialize gives %s" % (n, got.hex() if isinstance(got, bytes) else repr(got), exp.hex()), case)


def post_decode(args, kwargs, pre, out):
    ctx = contracts.ctx()
    b = args[0] if args else kwargs.get("element")
    if not isinstance(b, bytes):
        return NotImplemented
    if len(b) > 8:
        ctx.count("outside:decode_num>8-bytes")
        return NotImplemented
    case = {"op": "decode", "b": b}
    exp = R.set_vch(b)
    if not R.is_minimal(b):
        ctx.count("codec:nonminimal-decoded")
        if b[-1] == 0x80:
            ctx.count("codec:negative-zero-decoded")
    if out[0] == "exc":
        _report(ctx, "decode_num-raises", "decode_num(%s) raised %r" % (b.hex(), out[1]), case)
    elif out[1] != exp or isinstance(out[1], bool):
        _report(ctx, "decode_num-not-cscriptnum", "decode_num(%s) = %r, CScriptNum gives %d" % (b.hex(), out[1], exp), case)


def install():
    """Attach every monitor.  Idempotent per process."""
    if _state["wrappers"]:
        return
    import buidl.script  # noqa: F401 - load every module that aliases op functions before rebinding
    import buidl.tx  # noqa: F401
    from buidl import op

    ctx = contracts.ctx()
    table = op.OP_CODE_FUNCTIONS
    extra = sorted(set(table) - set(MONITORED) - set(SIG_CODES))
    missing = sorted(set(MONITORED) - set(table))
    if extra or missing:
        # the dispatch table no longer matches the opcode set this check was written for
        ctx.count("monitor-crash:table-mismatch")
        ctx.note("monitor-crash:table-mismatch", {"unmonitored-entries": extra, "missing-entries": missing})
    contracts.install(op, "encode_num", post_encode, label="encode_num")
    contracts.install(op, "decode_num", post_decode, label="decode_num")
    for code in MONITORED:
        if code not in table:
            continue
        if code in IF_CODES:
            w = contracts.install(table, code, _make_post_if(code), snap=_snap_if, label=NAMES[code])
        elif code in ALT_CODES:
            w = contracts.install(table, code, _make_post(code), snap=_snap_alt, label=NAMES[code])
        elif code in TX_CODES:
            w = contracts.install(table, code, _make_post(code), snap=_snap_tx, label=NAMES[code])
        else:
            w = contracts.install(table, code, _make_post(code), snap=_snap_plain, label=NAMES[code])
        _state["wrappers"][code] = w


# ---- transaction context ------------------------------------------------------------------
def make_tx(txk):
    from buidl.script import Script
    from buidl.tx import Tx, TxIn, TxOut

    locktime, sequence, version = txk
    with contracts.suspended():
        tx_in = TxIn(b"\x00" * 32, 0, sequence=sequence)
        tx_ins = [tx_in]
        # a sibling input of the opposite finality (CLTV/CSV look at the *evaluated* input's sequence only)
        if (locktime + version) % 2 == 0:
            tx_ins.append(TxIn(b"\x11" * 32, 1, sequence=0 if sequence == 0xFFFFFFFF else 0xFFFFFFFF))
        return Tx(version, tx_ins, [TxOut(1, Script())], locktime)


# ---- guards: byte patterns Script.evaluate special-cases by design ---------------------------
def _lib_tail_is_p2sh(cmds, i):
    """After the data push at index i has executed, would the library's (already spliced)
    remaining command list be exactly OP_HASH160 <20 bytes> OP_EQUAL?  Tokens of enclosing
    conditionals (their ELSE branch, ELSE and ENDIF) have been removed by op_if at that point."""
    kept = []
    rel = 0
    skipping = 0
    for c in cmds[i + 1:]:
        isop = isinstance(c, int)
        if skipping:
            if isop and c in IF_CODES:
                skipping += 1
            elif isop and c == 104:
                skipping -= 1
            continue
        if isop:
            if c in IF_CODES:
                rel += 1
            elif c == 103 and rel == 0:
                skipping = 1
                continue
            elif c == 104:
                if rel == 0:
                    continue
                rel -= 1
        kept.append(c)
        if len(kept) > 3:
            return False
    return (len(kept) == 3 and kept[0] == 0xA9 and isinstance(kept[1], bytes) and len(kept[1]) == 20 and kept[2] == 0x87)


class Analysis:
    __slots__ = ("wide_timelock", "outside", "ok", "stack", "alt", "accept", "fail_reason", "executed", "maxdepth", "dead_if", "has_else", "fail_pc")


def analyse(cmds, txk):
    """Reference trace of a program: verdict, final stack, and whether the program is outside
    the quantifier (decided on the reference trace only)."""
    a = Analysis()
    a.outside = None
    a.wide_timelock = None
    rc = R.TxCtx(*txk)
    m = R.Machine(rc)
    executed = set()
    a.maxdepth = 0
    a.dead_if = False
    a.has_else = False
    a.fail_pc = None
    for i, c in enumerate(cmds):
        fexec = m.executing()
        isop = isinstance(c, int)
        if isop:
            if c in IF_CODES and not fexec:
                a.dead_if = True
            if c == 103:
                a.has_else = True
            if fexec and c in TX_CODES and m.stack and len(m.stack[-1]) <= 5 and R.set_vch(m.stack[-1]) > 0xFFFFFFFF:
                a.wide_timelock = "5-byte-operand>2^32-1"  # compared like everything else (BIP65/BIP112 read 5-byte numbers)
        if not m.feed(c):
            a.fail_pc = i
            break
        if len(m.vf) > a.maxdepth:
            a.maxdepth = len(m.vf)
        if fexec:
            if isop:
                executed.add(c)
            else:
                st = m.stack
                if len(st) == 2 and ((st[0] == b"" and len(st[1]) in (20, 32)) or (st[0] == b"\x01" and len(st[1]) == 32)):
                    a.outside = "witness-pattern"
                    return a
                if _lib_tail_is_p2sh(cmds, i):
                    a.outside = "p2sh-pattern"
                    return a
    a.ok = m.finish()
    if rc.oversize:
        if m.reason == "scriptnum-overflow" and cmds[a.fail_pc] in TX_CODES:
            a.wide_timelock = "operand>5-bytes"  # consensus fails the script; compared
        else:
            a.outside = "arith-operand>4-bytes"
            return a
    a.stack, a.alt = m.stack, m.altstack
    a.fail_reason = m.reason
    a.executed = executed
    a.accept = bool(a.ok and a.stack and R.cast_to_bool(a.stack[-1]))
    return a


def final_class(a):
    if not a.stack:
        return "stack-empty"
    top = a.stack[-1]
    if top == b"":
        return "top-empty"
    if top == b"\x00":
        return "top-00"
    if top == b"\x80":
        return "top-80"
    if top == b"\x00\x80":
        return "top-0080"
    if not R.cast_to_bool(top):
        return "top-other-zero"
    return "top-nonzero"


# ---- boundary differential on Script.evaluate -----------------------------------------------
def run_program(ctx, cmds, txk, origin="gen"):
    from buidl.script import Script

    a = analyse(cmds, txk)
    if a.outside:
        ctx.count("outside:" + a.outside)
        ctx.count("program:discarded")
        return None
    tx = make_tx(txk)
    before = _state["opviol"]
    _state["txctx"] = tuple(txk)
    try:
        o = outcome(Script(list(cmds)).evaluate, tx, 0)
    finally:
        _state["txctx"] = None
    ctx.monitor("Script.evaluate")
    lib_acc = o[0] == "ok" and bool(o[1])
    if o[0] == "exc":
        ctx.rejected_by_exception += 1
        ctx.count("program:rejected-by-exception")
    ctx.count("program:accept" if a.accept else "program:reject")
    if a.ok:
        ctx.count("final:" + final_class(a))
        if not a.accept:
            ctx.count("program:reject-at-final-stack-test")
    else:
        ctx.count("program:reject-inside")
    if a.maxdepth >= 1:
        ctx.count("program:with-conditional")
    if a.maxdepth >= 2:
        ctx.count("program:nested-conditional")
    if a.has_else:
        ctx.count("program:with-else")
        if _has_multi_else(cmds):
            ctx.count("program:several-elses-in-one-if")
    if a.dead_if:
        ctx.count("program:dead-branch-with-conditional")
    ex = a.executed
    if 107 in ex or 108 in ex:
        ctx.count("program:altstack")
    if ex & {166, 167, 168, 169, 170}:
        ctx.count("program:hash")
    if ex & {177, 178}:
        ctx.count("program:timelock")
    if len(cmds) >= 30:
        ctx.count("program:len>=30")
    case = {"op": "prog", "cmds": list(cmds), "tx": list(txk)}
    if lib_acc != a.accept:
        if _state["opviol"] > before:
            ctx.count("program:verdict-differs-after-op-violation")
        else:
            got = "accepts" if lib_acc else ("rejects (raised %s)" % o[1] if o[0] == "exc" else "rejects")
            if a.ok and a.stack and a.stack[-1] != b"" and lib_acc:
                mech = "final-stack-nonempty-zero-true"
                what = "final stack top %s is false under CastToBool but Script.evaluate accepts" % a.stack[-1].hex()
            else:
                mech = "program-verdict:" + ("lib-accepts-consensus-rejects" if lib_acc else "lib-rejects-consensus-accepts")
                what = "library %s; consensus %s (%s)" % (got, "accepts" if a.accept else "rejects", a.fail_reason or final_class(a))
            _report(ctx, mech, what + " program=" + prog_hex(cmds) + " tx(locktime,sequence,version)=%s" % (tuple(txk),), case)
    ctx.case(("prog", cmds, tuple(txk)))
    return a


def prog_hex(cmds):
    return " ".join(("%02x" % c) if isinstance(c, int) else "<" + c.hex() + ">" for c in cmds)


# ---- program generator ----------------------------------------------------------------------
CONST_OPS = [0, 79] + list(range(81, 97))
STACK_OPS = [109, 110, 111, 112, 113, 114, 115, 116, 117, 118, 119, 120, 123, 124, 125]
UNARY_OPS = [139, 140, 143, 144, 145, 146]
BINARY_OPS = [147, 148, 154, 155, 156, 158, 159, 160, 161, 162, 163, 164]
HASH_OPS = [166, 167, 168, 169, 170]
NOP_OPS = list(R.NOPS)
TL_BOUNDARY = [0, 1, 499999999, 500000000, 500000001, (1 << 22) - 1, 1 << 22, (1 << 22) + 1, (1 << 22) | 0xFFFF, (1 << 31) - 1,
               1 << 31, (1 << 32) - 2, (1 << 32) - 1]
VERSIONS = [1, 2, 2, 3, 0, 0xFFFFFFFF]
COND_PUSHES = [0, 81, 81, 79, 82, b"\x80", b"\x00", b"\x00\x80", b"\x01\x00", b"\x00\x00", b"\x80\x00", b"\x05"]
FINAL_PUSHES = [0, 0, b"\x00", b"\x00", b"\x80", b"\x80", b"\x00\x80", b"\x00\x80", b"\x00\x00", b"\x00\x00\x80", 81, 81, 81, b"\x80\x00", b"\x00\x01", 79]


def rand_txk(rng):
    lock = rng.choice(TL_BOUNDARY) if rng.random() < 0.7 else rng.randrange(0, 1 << 32)
    seq = rng.choice(TL_BOUNDARY + [5, 0xFFFF, (1 << 22) | 5, 0xFFFFFFFE]) if rng.random() < 0.8 else rng.randrange(0, 1 << 32)
    return (lock, seq, rng.choice(VERSIONS))


def rand_number(rng):
    r = rng.random()
    if r < 0.5:
        return rng.randint(-20, 20)
    if r < 0.7:
        return rng.choice([127, 128, 129, 255, 256, -127, -128, -129, -255, -256, 32767, 32768, -32768, 65535, 65536])
    if r < 0.85:
        return rng.randint(-70000, 70000)
    if r < 0.95:
        return rng.choice([1, -1]) * rng.choice([(1 << 31) - 1, (1 << 31) - 2, 1 << 30, (1 << 23) - 1, 1 << 23, (1 << 24) - 1])
    return rng.randint(-(1 << 31) + 1, (1 << 31) - 1)


def num_push(n):
    """A command pushing script number n (the constant opcode where one exists)."""
    if n == 0:
        return 0
    if n == -1:
        return 79
    if 1 <= n <= 16:
        return 80 + n
    return R.serialize_num(n)


def rand_push(rng):
    r = rng.random()
    if r < 0.35:
        return rng.choice(ALPHABET[1:])
    if r < 0.75:
        c = num_push(rand_number(rng))
        if isinstance(c, int):
            return c
        if rng.random() < 0.15 and len(c) < 4:  # non-minimal encoding of the same number (consensus-valid operand)
            neg = c[-1] & 0x80
            c = c[:-1] + bytes([c[-1] & 0x7F]) + b"\x00" * (rng.randint(1, 4 - len(c)) - 1) + (b"\x80" if neg else b"\x00")
        return c
    if r < 0.93:
        return rng.randbytes(rng.choice([1, 1, 2, 2, 3, 4, 4, 5, 6, 8]))
    return rng.randbytes(rng.choice([20, 20, 32, 32, 33, 64, 75, 76, 80, 255, 256, 520]))


def timelock_operand(rng, code, txk):
    lock, seq, _ = txk
    base = lock if code == 177 else seq
    r = rng.random()
    if r < 0.45:
        if code == 177:
            v = max(0, base - rng.choice([0, 0, 1, 2, 1000]))
        else:
            v = (base & ((1 << 22) | 0xFFFF)) - rng.choice([0, 0, 1, 2])
            if v < 0 or (v ^ base) & (1 << 22):
                v = base & ((1 << 22) | 0xFFFF)
    elif r < 0.6:
        v = base + rng.choice([1, 2, 1000])
    elif r < 0.85:
        v = rng.choice(TL_BOUNDARY + [-1, -5])
    else:
        v = rng.choice([(1 << 31) | rng.randrange(0, 1 << 16), (1 << 31) | (1 << 22) | 7, rng.randrange(0, 1 << 16), (1 << 22) | rng.randrange(0, 1 << 16)])
    v = min(v, (1 << 32) - 1)
    enc = R.serialize_num(v)
    if rng.random() < 0.15 and len(enc) < 5 and enc:
        neg = enc[-1] & 0x80
        enc = enc[:-1] + bytes([enc[-1] & 0x7F]) + b"\x00" * (4 - len(enc)) + (b"\x80" if neg else b"\x00")
    if v == 0 and rng.random() < 0.5:
        return 0
    return enc if enc else 0


def _applicable(seq, m, txk):
    s, a = list(m.stack), list(m.altstack)
    rc = R.TxCtx(*txk)
    for c in seq:
        if not R.step(c, s, a, rc):
            return False
    return True


def _candidate(rng, m, txk):
    """One to three commands that are likely to execute successfully on the current stack."""
    depth = len(m.stack)
    r = rng.random()
    if r < 0.12:
        return [rng.choice(CONST_OPS)]
    if r < 0.26:
        return [rand_push(rng)]
    if r < 0.46:
        return [rng.choice(STACK_OPS)]
    if r < 0.52:
        if depth >= 1:
            n = rng.randrange(0, depth)
            return [num_push(n) if rng.random() < 0.8 else (R.serialize_num(n) + b"\x00" if n and not R.serialize_num(n)[-1] & 0x80 else num_push(n)), rng.choice([121, 122])]
        return [rng.choice(CONST_OPS)]
    if r < 0.60:
        return [rng.choice(UNARY_OPS)]
    if r < 0.72:
        return [rng.choice(BINARY_OPS)]
    if r < 0.75:
        return [165]
    if r < 0.78:
        return [num_push(rand_number(rng)), num_push(rand_number(rng)), 165] if rng.random() < 0.5 else [num_push(rand_number(rng)), rng.choice(BINARY_OPS)]
    if r < 0.82:
        return [rng.choice([107, 108, 108])]
    if r < 0.86:
        return [rng.choice(HASH_OPS)]
    if r < 0.90:
        return [rng.choice([130, 135, 135])]
    if r < 0.93:
        return rng.choice([[105], [118, 136], [118, 157], [110, 136], [136], [157], [81, 105]])
    if r < 0.95:
        return [rng.choice(NOP_OPS)]
    code = rng.choice([177, 178])
    seq = [timelock_operand(rng, code, txk), code]
    if rng.random() < 0.6:
        seq.append(117)
    return seq


def _arbitrary(rng, txk):
    r = rng.random()
    if r < 0.55:
        return [rng.choice(PLAIN_STEP_CODES)]
    if r < 0.8:
        return [rand_push(rng)]
    if r < 0.9:
        code = rng.choice([177, 178])
        return [timelock_operand(rng, code, txk), code]
    return [num_push(rng.choice([-2, -1, 0, 1, 2, 3, 7])), rng.choice([121, 122])]


_multi_else = [0]


def _has_multi_else(cmds):
    st = []
    for c in cmds:
        if isinstance(c, int):
            if c in (99, 100):
                st.append(0)
            elif c == 103 and st:
                st[-1] += 1
                if st[-1] > 1:
                    return True
            elif c == 104 and st:
                st.pop()
    return False


def _note_multi_else():
    _multi_else[0] += 1


def gen_program(rng, txk):
    m = R.Machine(R.TxCtx(*txk))
    cmds = []
    open_ifs = []
    target = rng.choice([rng.randint(1, 10), rng.randint(5, 25), rng.randint(15, 40), rng.randint(30, 40)])
    p_arb = rng.choice([0.0, 0.0, 0.0, 0.1, 0.1, 0.3, 0.3, 0.6])

    def emit(c):
        cmds.append(c)
        m.feed(c)

    while len(cmds) + len(open_ifs) < target:
        budget = target - len(cmds) - len(open_ifs)
        if m.failed and rng.random() < 0.4:
            break
        executing = m.executing()
        r = rng.random()
        if r < 0.08 and len(open_ifs) < 4 and budget >= 3:
            if executing and (not m.stack or rng.random() < 0.6):
                emit(rng.choice(COND_PUSHES))
            emit(rng.choice(IF_CODES))
            open_ifs.append(False)
            continue
        if open_ifs and r < 0.17:
            if (not open_ifs[-1] and rng.random() < 0.55) or (open_ifs[-1] and rng.random() < 0.3):
                if open_ifs[-1]:
                    _note_multi_else()
                emit(103)
                open_ifs[-1] = True
            else:
                emit(104)
                open_ifs.pop()
            continue
        if not executing or rng.random() < p_arb:
            seq = _arbitrary(rng, txk)
            if len(seq) > budget:
                seq = seq[:1]
            for c in seq:
                emit(c)
            continue
        for _ in range(8):
            seq = _candidate(rng, m, txk)
            if len(seq) <= budget and _applicable(seq, m, txk):
                break
        else:
            seq = [rand_push(rng)]
        for c in seq:
            emit(c)
    while open_ifs:
        emit(104)
        open_ifs.pop()
    if len(cmds) < 40 and not m.failed and rng.random() < 0.4:
        emit(rng.choice(FINAL_PUSHES))
    return cmds


GUARDED = [
    ("p2sh-pattern", [b"\x51", 0xA9, R.hash160(b"\x51"), 0x87]),
    ("p2sh-pattern", [81, 99, b"\x51", 0xA9, R.hash160(b"\x51"), 103, 106, 104, 0x87]),
    ("witness-pattern", [0, bytes(20)]),
    ("witness-pattern", [0, bytes(32)]),
    ("witness-pattern", [81, bytes(32)]),
]


def workload_programs(ctx, rng, count):
    if ctx.desc.get("idx") == 0:
        # the by-design special cases of Script.evaluate must be recognised by the guard (never compared)
        for why, cmds in GUARDED:
            a = analyse(cmds, _DEFAULT_TX)
            ctx.count("guard-selftest:" + ("recognised" if a.outside == why else "MISSED"))
    acc = rej = 0
    for k in range(count):
        if ctx.out_of_time():
            return
        txk = rand_txk(rng)
        cmds = gen_program(rng, txk)
        a = run_program(ctx, cmds, txk)
        if a is None:
            continue
        if a.accept:
            acc += 1
        else:
            rej += 1
        if k < 3:
            ctx.sample({"program": prog_hex(cmds), "tx": txk, "consensus": "accept" if a.accept else "reject"})
    tot = acc + rej
    if tot and acc * 4 >= tot:
        ctx.count("program:accept-share>=25%")
    if tot and rej * 4 >= tot:
        ctx.count("program:reject-share>=25%")


# ---- single-opcode conformance --------------------------------------------------------------
IF_ITEMS = [
    [104], [81, 104], [82, 103, 83, 104, 84], [103, 83, 104], [99, 85, 103, 86, 104, 103, 87, 104, 88],
    [100, 106, 104, 103, 99, 89, 104, 104, 90], [b"\x07", 177, 103, 106, 104],
    [82, 103, 83, 103, 84, 104, 85], [103, 103, 86, 104], [82, 103, 99, 83, 103, 84, 103, 85, 104, 103, 86, 103, 104, 87],
]
SINGLE_TX = [(0, 0, 2), (500000000, (1 << 22) | 5, 2), (1, 0xFFFFFFFF, 1), (0xFFFFFFFF, 0x80000001, 2), (2, 2, 3)]


def _call_op(table, code, stack, alt, tx):
    fn = table[code]
    if code in ALT_CODES:
        return outcome(fn, stack, alt)
    if code in TX_CODES:
        return outcome(fn, stack, tx, 0)
    return outcome(fn, stack)


def conform_stack(ctx, table, rng, stack, txs, extra_alt=True, per_op_cases=True):
    """Drive every monitored opcode once on (a copy of) `stack`."""
    d = len(stack)
    if per_op_cases:
        reg = ctx.case
    else:  # sampled stacks: one registered case per stack (bounds the size of the distinct set)
        ctx.case(("stack", stack))

        def reg(key):
            return None
    ctx.count("singleop:depth-%d" % d)
    for code in PLAIN_STEP_CODES:
        if code in TX_CODES:
            txk, tx = txs[rng.randrange(len(txs))]
            _call_op(table, code, list(stack), None, tx)
            reg(("step", code, stack, txk))
        elif code in ALT_CODES:
            alt = [] if (not extra_alt or rng.random() < 0.4) else [rng.choice(ALPHABET) for _ in range(rng.randint(1, 2))]
            _call_op(table, code, list(stack), alt, None)
            reg(("step", code, stack, alt))
        else:
            _call_op(table, code, list(stack), None, None)
            reg(("step", code, stack))
    for code in IF_CODES:
        items = IF_ITEMS[rng.randrange(len(IF_ITEMS))]
        outcome(table[code], list(stack), list(items))
        reg(("if", code, stack, items))
    # PICK / ROLL with every boundary operand
    for lab, n in (("-2", -2), ("-1", -1), ("0", 0), ("1", 1), ("depth-1", d - 1), ("depth", d), ("depth+1", d + 1)):
        ctx.count("pickroll:n=" + lab)
        enc = R.serialize_num(n)
        for code in (121, 122):
            outcome(table[code], list(stack) + [enc])
            reg(("step", code, stack, n))


def enum_stacks(maxdepth):
    yield []
    level = [[]]
    for _ in range(maxdepth):
        nxt = []
        for s in level:
            for x in ALPHABET:
                t = s + [x]
                nxt.append(t)
                yield t
        level = nxt


def workload_singleop(ctx, rng, idx, n, sampled):
    from buidl import op

    table = op.OP_CODE_FUNCTIONS
    txs = [(t, make_tx(t)) for t in SINGLE_TX]
    for i, st in enumerate(enum_stacks(3)):
        if i % n != idx and i != 0:  # the empty stack (every opcode's stack-size failure) in every shard
            continue
        if ctx.out_of_time():
            return
        conform_stack(ctx, table, rng, st, txs)
    if idx == 0:
        ctx.exhaustive.append("single-opcode conformance: every monitored opcode on all 2955 stacks of depth <= 3 over the 14-element alphabet")
    for k in range(sampled):
        if ctx.out_of_time():
            return
        d = 4 + (k % 4)
        st = []
        for _ in range(d):
            r = rng.random()
            if r < 0.6:
                st.append(rng.choice(ALPHABET))
            elif r < 0.9:
                st.append(R.serialize_num(rand_number(rng)))
            else:
                st.append(rng.randbytes(rng.choice([1, 2, 3, 4, 5, 20, 32])))
        if rng.random() < 0.3:  # equal items on top (EQUAL / NUMEQUAL / WITHIN edges)
            st[-1] = st[-2]
        conform_stack(ctx, table, rng, st, txs, per_op_cases=False)
    # CLTV/CSV need an operand on top: every alphabet element under every context
    for txk, tx in txs:
        for x in ALPHABET + [R.serialize_num(v) for v in (5, 6, (1 << 22) | 5, (1 << 22) | 6, 500000000, 499999999, 1 << 31, (1 << 32) - 1)]:
            for code in TX_CODES:
                _call_op(table, code, [x], None, tx)


# ---- number codec ---------------------------------------------------------------------------
def workload_codec(ctx, rng, idx, n, sampled):
    from buidl import op

    def one_int(v):
        o = outcome(op.encode_num, v)
        if o[0] != "ok" or not isinstance(o[1], bytes):
            return
        o2 = outcome(op.decode_num, o[1])
        if o2[0] == "ok" and o2[1] != v:
            _report(ctx, "codec-roundtrip", "decode_num(encode_num(%d)) = %r" % (v, o2[1]), {"op": "roundtrip", "n": v})
        ctx.case(("int", v))

    def one_bytes(b):
        o = outcome(op.decode_num, b)
        if o[0] == "ok" and isinstance(o[1], int) and R.is_minimal(b):
            o2 = outcome(op.encode_num, o[1])
            if o2[0] == "ok" and o2[1] != b:
                _report(ctx, "codec-roundtrip", "encode_num(decode_num(%s)) = %r for a minimal string" % (b.hex(), o2[1]), {"op": "decode", "b": b})
        ctx.case(("bytes", b))

    for v in range(-70000 + idx, 70001, n):
        one_int(v)
    if idx == 0:
        ctx.exhaustive.append("encode_num/decode_num: every integer in [-70000, 70000]")
        ctx.exhaustive.append("decode_num: every byte string of length 0..2")
    bounds = []
    for k in (7, 8, 15, 16, 23, 24, 31, 32, 39, 40, 47, 55, 62):
        for dlt in (-2, -1, 0, 1, 2):
            bounds += [(1 << k) + dlt, -(1 << k) + dlt]
    for j, v in enumerate(bounds):
        if j % n == idx:
            if 30 <= abs(v).bit_length() <= 32:
                ctx.count("codec:int32-boundary")
            one_int(v)
    for v in ((1 << 31) - 1, -(1 << 31) + 1):
        ctx.count("codec:int32-boundary")
        one_int(v)
    allb = [b""] + [bytes([a]) for a in range(256)]
    for j, b in enumerate(allb):
        if j % n == idx:
            one_bytes(b)
    for hi in range(idx, 256, n):
        for lo in range(256):
            one_bytes(bytes([lo, hi]))
    for _ in range(sampled):
        ln = rng.choice([3, 3, 4, 4, 4, 5, 8])
        b = bytearray(rng.randbytes(ln))
        r = rng.random()
        if r < 0.3:
            b[-1] = rng.choice([0x00, 0x80])
        elif r < 0.4:
            b[-1] = rng.choice([0x00, 0x80])
            b[-2] &= 0x7F
        elif r < 0.5:
            b[-1] = rng.choice([0x7F, 0xFF, 0x01, 0x81])
        if ln <= 4:
            ctx.count("codec:3-4-byte-strings")
        one_bytes(bytes(b))
        one_int(rng.randint(-(1 << 31) + 1, (1 << 31) - 1))


# ---- timelock grid --------------------------------------------------------------------------
def operand_encodings(v):
    """Minimal encoding plus zero-padded 4- and 5-byte encodings of the same value."""
    enc = R.serialize_num(v)
    out = [enc]
    for ln in (4, 5):
        if len(enc) < ln:
            if enc:
                neg = enc[-1] & 0x80
                out.append(enc[:-1] + bytes([enc[-1] & 0x7F]) + b"\x00" * (ln - len(enc) - 1) + (b"\x80" if neg else b"\x00"))
            else:
                out.append(b"\x00" * ln)
    return out


TL_OPERANDS = TL_BOUNDARY + [-1, -5, 5, 6, 0xFFFF, 0x10005, (1 << 22) | 5, (1 << 22) | 6, (1 << 31) | 5, (1 << 31) | (1 << 22) | 5, 0xFFFFFFFE >> 1]
TL_SEQS = TL_BOUNDARY + [5, (1 << 22) | 5, 0xFFFFFFFE]
TL_LOCKS = TL_BOUNDARY + [5]


def workload_timelock(ctx, rng, idx, n, tier):
    from buidl import op

    table = op.OP_CODE_FUNCTIONS
    grid = []
    for lock in TL_LOCKS:
        for seq in TL_SEQS:
            for ver in (1, 2):
                grid.append((177, (lock, seq, ver)))
    for seq in TL_SEQS:
        for ver in (0, 1, 2, 3, 0xFFFFFFFF):
            for lock in (0, 500000000):
                grid.append((178, (lock, seq, ver)))
    operands = []
    for v in TL_OPERANDS:
        operands += operand_encodings(v)
    operands += [b"\x80", b"\x00\x00\x00\x00\x80", b"\x01\x00\x00\x00\x00\x00", b"\x00\x00\x00\x80\x00\x00"]
    for j, (code, txk) in enumerate(grid):
        if j % n != idx:
            continue
        if ctx.out_of_time():
            return
        tx = make_tx(txk)
        outcome(table[code], [], tx, 0)
        for enc in operands:
            outcome(table[code], [b"\x07", enc], tx, 0)
            ctx.case(("tl", code, enc, txk))
            if tier == "thorough" or rng.random() < 0.25:
                run_program(ctx, [enc if enc else 0, code, 117, 81], txk)
    if idx == 0:
        ctx.exhaustive.append("timelock grid: %d (opcode, locktime, sequence, version) contexts x %d operand encodings" % (len(grid), len(operands)))


# ---- repository tests under the contracts (thorough) ---------------------------------------
def workload_repotests(ctx):
    import importlib
    import io
    import sys
    import unittest

    mods = [importlib.import_module("buidl.test." + m) for m in ("test_op", "test_script", "test_timelock")]
    # rebind by-name aliases of the monitored handlers (from buidl.op import op_dup) to the wrappers
    by_orig = {}
    for code, w in _state["wrappers"].items():
        by_orig.setdefault(id(w.__wrapped_original__), w)
    for modname, mod in list(sys.modules.items()):
        if mod is None or not modname.startswith("buidl."):
            continue
        for k, v in list(vars(mod).items()):
            w = by_orig.get(id(v))
            if w is not None and callable(v) and not isinstance(v, type):
                setattr(mod, k, w)
    ran = failed = 0
    for mod in mods:
        suite = unittest.defaultTestLoader.loadTestsFromModule(mod)
        res = unittest.TextTestRunner(stream=io.StringIO(), verbosity=0).run(suite)
        ran += res.testsRun
        failed += len(res.failures) + len(res.errors)
    ctx.note("repotests", {"ran": ran, "failed-or-error (socket guard expected offline)": failed})
    ctx.count("repotests:ran", ran)


# ---- shards ---------------------------------------------------------------------------------
def shards(tier, seed):
    n = 16
    if tier == "thorough":
        per = {"sampled_stacks": 28000, "programs": 200000, "codec_sampled": 30000}
        budget = 5400
    else:
        per = {"sampled_stacks": 600, "programs": 9000, "codec_sampled": 6000}
        budget = 900
    out = [dict(name="mix", idx=i, n=n, budget_s=budget, **per) for i in range(n)]
    if tier == "thorough":
        out.append({"name": "repotests", "idx": 0, "n": 1, "budget_s": budget})
    return out


def run_shard(desc, ctx):
    R.selfcheck()
    install()
    with Quiet():
        _run_shard(desc, ctx)


def _run_shard(desc, ctx):
    if desc["name"] == "repotests":
        workload_repotests(ctx)
        return
    idx, n = desc["idx"], desc["n"]
    t = [ctx.elapsed()]
    workload_codec(ctx, ctx.rng("codec"), idx, n, desc["codec_sampled"])
    t.append(ctx.elapsed())
    workload_timelock(ctx, ctx.rng("timelock"), idx, n, ctx.tier)
    t.append(ctx.elapsed())
    workload_singleop(ctx, ctx.rng("singleop"), idx, n, desc["sampled_stacks"])
    t.append(ctx.elapsed())
    workload_programs(ctx, ctx.rng("programs"), desc["programs"])
    t.append(ctx.elapsed())
    if idx == 0:
        ctx.note("shard0-seconds(codec,timelock,singleop,programs)", [round(b - a, 1) for a, b in zip(t, t[1:])])


def replay(case, ctx):
    R.selfcheck()
    install()
    with Quiet():
        _replay(case, ctx)


def _replay(case, ctx):
    from buidl import op

    table = op.OP_CODE_FUNCTIONS
    kind = case.get("op")
    if kind == "step":
        code = case["code"]
        txk = tuple(case["tx"]) if case.get("tx") else _DEFAULT_TX
        _call_op(table, code, list(case["stack"]), list(case["alt"] or []), make_tx(txk))
    elif kind == "if":
        _state["txctx"] = tuple(case["tx"])
        outcome(table[case["code"]], list(case["stack"]), list(case["items"]))
        _state["txctx"] = None
    elif kind == "prog":
        run_program(ctx, list(case["cmds"]), tuple(case["tx"]))
    elif kind in ("encode", "roundtrip"):
        o = outcome(op.encode_num, case["n"])
        if o[0] == "ok" and isinstance(o[1], bytes):
            o2 = outcome(op.decode_num, o[1])
            if o2[0] == "ok" and o2[1] != case["n"]:
                _report(ctx, "codec-roundtrip", "decode_num(encode_num(%d)) = %r" % (case["n"], o2[1]), case)
    elif kind == "decode":
        outcome(op.decode_num, case["b"])
