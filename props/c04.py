"""C04 - transaction wire codec is lossless; txid is the witness-stripped hash; fetcher integrity.

Contracts (fire on every call made by any workload):
  Tx.serialize / Tx.hash / Tx.parse, Script.raw_serialize / Script.parse, Witness.serialize / parse,
  encode_varint / read_varint     - each compared with the reference codec (ref.txcodec)
Boundary monitors: canonical bytes -> parse -> serialize == bytes; API-built -> serialize -> parse == fields;
txid invariance under witness edits / sensitivity to every non-witness field.
History monitor: TxFetcher.fetch against a scripted hostile server (urlopen stubbed), cache invariant
`cache[k].id() == k` after every step.
"""
import io

from ref import txcodec as tc
from vmon import contracts
from vmon.bridge import build_tx, model_diff, model_of_tx
from vmon.core import outcome

PROPERTY_ID = "C04"
REPO_TEST_MODULES = ["test_tx", "test_script", "test_witness", "test_helper"]  # thorough tier: run as an extra workload under the contracts
RULE = (
    "cases = transaction models (reference dicts) with boundary-aimed shapes: every push length 0..520, script and "
    "count fields across 0xfc/0xfd/0xffff, amounts up to 2^64-1, witness stacks up to 70000-byte items; each case runs "
    "reference-bytes -> Tx.parse -> serialize (byte equality) and API-build -> serialize -> parse (field equality), "
    "txid checks, and fetcher histories against a hostile server; distinct = model / history by hash; non-trivial = at "
    "least one contract or boundary comparison against the reference was performed for it"
)
ASSUMPTIONS = [
    "byte-exact round trip is claimed for canonical encodings only: >= 1 input (a 0-input legacy tx is wire-ambiguous with the segwit marker) and shortest-prefix pushes",
    "b'' and OP_0 are the same wire byte; command lists are compared modulo that representation choice",
    "opcodes used as script commands are {0, 79..255} (1..78 are push prefixes on the wire)",
]

SERVER_CLASSES = [
    "honest-legacy", "honest-segwit", "honest-whitespace", "other-tx", "bitflip", "truncated", "trailing-garbage",
    "witness-only-change", "non-minimal-push-same-raw-hash", "non-hex", "empty",
]

GATES = {
    "contracts-ran": ["Tx.serialize", "Tx.parse", "Tx.hash", "Script.raw_serialize", "Script.parse", "Witness.serialize", "Witness.parse", "encode_varint", "read_varint"],
    "push-lengths": ["push:0", "push:1..74", "push:75", "push:76..255", "push:256..520"],
    "pushdata-forms": ["push:75", "push:76..255", "push:256..520"],
    "varint-widths-counts": ["incount:0", "parse:no-inputs", "incount:>=253", "outcount:>=253", "witcount:>=253", "scriptlen:>=253", "witem:>=65536", "witem:253..65535"],
    "tx-forms": ["form:legacy", "form:segwit"],
    "near-template-scripts": ["script:near-template:" + v for v in ("exact", "trailing-opcode", "trailing-push", "leading-opcode", "hash-length", "doubled")],
    "txid": ["txid:witness-edit-same", "txid:nonwitness-edit-differs"],
    "roundtrips": ["rt:bytes", "rt:fields"],
    "amount-bounds": ["amount:2^64-1", "amount:0"],
    "server-classes": ["server:" + c for c in SERVER_CLASSES],
    "fetch-cached-path": ["fetch:cached-no-request"],
    "fetch-returned": ["fetch:returned"],
    "fetch-raised": ["fetch:raised"],
}


def anchors():
    from buidl import helper, script, tx, witness

    return [tx.Tx.parse, tx.Tx.parse_legacy, tx.Tx.parse_segwit, tx.Tx.serialize_legacy, tx.Tx.serialize_segwit, tx.Tx.hash,
            script.Script.raw_serialize, script.Script.parse, witness.Witness.serialize, witness.Witness.parse,
            helper.read_varint, helper.encode_varint, tx.TxFetcher.fetch]


# ---- contracts ---------------------------------------------------------------------------------
def _push_class(n):
    if n == 0:
        return "push:0"
    if n < 75:
        return "push:1..74"
    if n == 75:
        return "push:75"
    if n <= 255:
        return "push:76..255"
    if n <= 520:
        return "push:256..520"
    return "push:>520"


def _cmds_in_scope(cmds):
    for c in cmds:
        if isinstance(c, int):
            if not (c == 0 or 79 <= c <= 255):
                return False
        elif not isinstance(c, (bytes, bytearray)) or len(c) > 520:
            return False
    return True


def post_raw_serialize(args, kwargs, pre, out):
    ctx = contracts.ctx()
    self = args[0]
    if getattr(self, "raw", None):
        if out[0] == "ok" and out[1] != self.raw:
            ctx.violation("script-raw-not-preserved", "raw bytes changed", {"op": "script", "cmds": list(self.commands)})
        return
    cmds = list(self.commands)
    if not _cmds_in_scope(cmds):
        return NotImplemented
    exp = tc.script_bytes(cmds)
    case = {"op": "script", "cmds": cmds}
    if out[0] == "exc":
        cls = {_push_class(len(c)) for c in cmds if not isinstance(c, int)}
        culprit = "push:75" if "push:75" in cls else ",".join(sorted(cls)[-1:])
        ctx.violation("script-serialize-raises:" + culprit, f"{out[1]!r}", case)
        return
    if out[1] != exp:
        ctx.violation("script-serialize-wrong", f"got {out[1][:40].hex()}.. expected {exp[:40].hex()}..", case)


def snap_script_parse(cls, stream=None, raw=None):
    if raw is not None:
        return ("raw", bytes(raw))
    if stream is None:
        return None
    pos = stream.tell()
    data = stream.read()
    stream.seek(pos)
    return ("stream", data)


def post_script_parse(args, kwargs, pre, out):
    ctx = contracts.ctx()
    if pre is None:
        return NotImplemented
    kind, data = pre
    if kind == "stream":
        try:
            raw = tc.Reader(data).varbytes()
        except ValueError:
            return NotImplemented  # truncated stream: not a canonical encoding
    else:
        raw = data
    cmds, clean = tc.script_parse(raw)
    case = {"op": "script-parse", "raw": raw}
    if out[0] == "exc":
        if clean:
            ctx.violation("script-parse-raises", f"{out[1]!r}", case)
        return
    s = out[1]
    if clean:
        if not tc.cmds_equiv(cmds, s.commands):
            ctx.violation("script-parse-wrong-commands", f"raw {raw[:40].hex()}", case)
    else:
        if getattr(s, "raw", None) != raw:
            ctx.violation("script-parse-unclean-raw-lost", f"raw {raw[:40].hex()}", case)


def post_tx_serialize(args, kwargs, pre, out):
    ctx = contracts.ctx()
    self = args[0]
    try:
        model = model_of_tx(self)
        exp = tc.encode(model)
    except Exception:  # noqa: BLE001 - fields outside the model (e.g. push > 520, opcode out of range)
        return NotImplemented
    case = {"op": "tx-fields", "model": model}
    if out[0] == "exc":
        ctx.violation("tx-serialize-raises", f"{out[1]!r}", case)
        return
    if out[1] != exp:
        ctx.violation("tx-serialize-wrong", "bytes differ from the reference encoding of the object's fields", case)
    ctx.case(case)


def post_tx_hash(args, kwargs, pre, out):
    ctx = contracts.ctx()
    self = args[0]
    try:
        model = model_of_tx(self)
        exp = tc.txid(model)
    except Exception:  # noqa: BLE001
        return NotImplemented
    case = {"op": "tx-fields", "model": model}
    if out[0] == "exc":
        ctx.violation("txid-raises", f"{out[1]!r}", case)
    elif out[1] != exp:
        ctx.violation("txid-wrong", f"got {out[1].hex()} expected {exp.hex()}", case)


def snap_tx_parse(cls, s, network="mainnet"):
    pos = s.tell()
    data = s.read()
    s.seek(pos)
    return (pos, data)


def compare_parsed(txobj, ref):
    """None when the parsed object equals the reference model, else the first differing field."""
    if int(txobj.version) != ref["version"]:
        return "version"
    if int(txobj.locktime) != ref["locktime"]:
        return "locktime"
    if bool(txobj.segwit) != ref["segwit"]:
        return "segwit"
    if len(txobj.tx_ins) != len(ref["ins"]):
        return "input-count"
    if len(txobj.tx_outs) != len(ref["outs"]):
        return "output-count"

    def script_same(s, raw):
        cmds, clean = tc.script_parse(raw)
        if clean:
            return tc.cmds_equiv(cmds, s.commands)
        return getattr(s, "raw", None) == raw

    for n, (a, b) in enumerate(zip(txobj.tx_ins, ref["ins"])):
        if bytes(a.prev_tx) != b["txid"]:
            return f"in[{n}].txid"
        if int(a.prev_index) != b["vout"]:
            return f"in[{n}].vout"
        if int(a.sequence) != b["sequence"]:
            return f"in[{n}].sequence"
        if not script_same(a.script_sig, b["script"]):
            return f"in[{n}].script"
        if ref["segwit"] and [bytes(x) for x in a.witness.items] != b["witness"]:
            return f"in[{n}].witness"
    for n, (a, b) in enumerate(zip(txobj.tx_outs, ref["outs"])):
        if int(a.amount) != b["amount"]:
            return f"out[{n}].amount"
        if not script_same(a.script_pubkey, b["script"]):
            return f"out[{n}].script"
    return None


def post_tx_parse(args, kwargs, pre, out):
    ctx = contracts.ctx()
    pos, data = pre
    try:
        ref, end = tc.decode(data)
    except (ValueError, KeyError, IndexError):
        return NotImplemented  # not a well-formed encoding: acceptance/rejection is not claimed
    if not ref["ins"]:
        ctx.count("parse:no-inputs")
        if not ref["segwit"] and len(ref["outs"]) == 1:
            # version 00 01 ...: a legacy transaction without inputs and with one output starts like the segwit marker
            # and flag; which reading survives depends on the amount bytes - intrinsically ambiguous, only observed
            ctx.count("observed:no-inputs-one-output-legacy(ambiguous-with-segwit-marker)")
            return NotImplemented
    case = {"op": "tx-bytes", "raw": data[:end]}
    if out[0] == "exc":
        ctx.violation("tx-parse-raises", f"{out[1]!r}", case)
        return
    d = compare_parsed(out[1], ref)
    if d:
        ctx.violation("tx-parse-wrong-field:" + d.split("].")[-1].split("[")[0], f"field {d}", case)
    stream = args[1] if len(args) > 1 else kwargs["s"]
    if stream.tell() - pos != end:
        ctx.violation("tx-parse-consumed-wrong-length", f"consumed {stream.tell() - pos} expected {end}", case)
    ctx.case(case)


def post_wit_serialize(args, kwargs, pre, out):
    ctx = contracts.ctx()
    items = [bytes(x) for x in args[0].items]
    if out[0] == "exc" or out[1] != tc.witness_bytes(items):
        ctx.violation("witness-serialize-wrong", f"{len(items)} items", {"op": "witness", "items": items if len(items) < 8 else items[:8]})


def snap_stream(cls, s):
    pos = s.tell()
    data = s.read()
    s.seek(pos)
    return data


def post_wit_parse(args, kwargs, pre, out):
    ctx = contracts.ctx()
    try:
        exp = tc.read_witness(tc.Reader(pre))
    except ValueError:
        return NotImplemented
    if out[0] == "exc" or [bytes(x) for x in out[1].items] != exp:
        ctx.violation("witness-parse-wrong", f"{len(exp)} items", {"op": "witness-bytes", "raw": pre[:2000]})


def post_encode_varint(args, kwargs, pre, out):
    ctx = contracts.ctx()
    i = args[0]
    if not isinstance(i, int) or i < 0 or i >= 1 << 64:
        return NotImplemented
    if out[0] == "exc" or out[1] != tc.compact_size(i):
        ctx.violation("varint-encode-wrong", f"i={i}", {"op": "varint", "i": i})


def snap_read_varint(s):
    pos = s.tell()
    data = s.read(9)
    s.seek(pos)
    return data


def post_read_varint(args, kwargs, pre, out):
    ctx = contracts.ctx()
    try:
        exp = tc.Reader(pre).compact()
    except (ValueError, KeyError):
        return NotImplemented
    if out[0] == "exc" or out[1] != exp:
        ctx.violation("varint-read-wrong", f"bytes {pre.hex()}", {"op": "varint-bytes", "raw": pre})


def install():
    import buidl.block, buidl.compactfilter, buidl.merkleblock, buidl.network, buidl.psbt  # noqa: F401,E401 (alias rebinding)
    from buidl import helper, script, tx, witness

    contracts.install(helper, "encode_varint", post_encode_varint)
    contracts.install(helper, "read_varint", post_read_varint, snap=snap_read_varint)
    contracts.install(script.Script, "raw_serialize", post_raw_serialize)
    contracts.install(script.Script, "parse", post_script_parse, snap=snap_script_parse)
    contracts.install(witness.Witness, "serialize", post_wit_serialize)
    contracts.install(witness.Witness, "parse", post_wit_parse, snap=snap_stream)
    contracts.install(tx.Tx, "serialize", post_tx_serialize)
    contracts.install(tx.Tx, "hash", post_tx_hash)
    contracts.install(tx.Tx, "parse", post_tx_parse, snap=snap_tx_parse)


# ---- generators -----------------------------------------------------------------------------------
OPCODES = [0] + list(range(79, 256))
AMOUNTS = [0, 1, 2**63 - 1, 2**63, 2**64 - 1, 546, 21 * 10**14]
U32 = [0, 1, 2, 2**31 - 1, 2**31, 2**32 - 1, 2**32 - 2, 5 * 10**8 - 1, 5 * 10**8, 5 * 10**8 + 1, 1 << 22, (1 << 22) | 0xFFFF]
PUSH_LENS = [0, 1, 2, 20, 32, 33, 65, 71, 72, 73, 74, 75, 76, 77, 100, 254, 255, 256, 257, 300, 519, 520]
WITEM_LENS = [0, 1, 75, 76, 252, 253, 254, 1000]
WITEM_BIG = [65535, 65536, 70000]


def near_template(rng, ctx):
    """Standard output templates and their near misses (an extra opcode or push before/after, a hash of the wrong
    length): the parser recognises templates structurally, so a near miss must keep every byte."""
    h20, h32 = rng.randbytes(20), rng.randbytes(32)
    base = rng.choice([
        [0x76, 0xA9, h20, 0x88, 0xAC], [0xA9, h20, 0x87], [0, h20], [0, h32], [0x51, h32],
    ])
    variant = rng.choice(["exact", "trailing-opcode", "trailing-push", "leading-opcode", "hash-length", "doubled"])
    cmds = list(base)
    if variant == "trailing-opcode":
        cmds.append(rng.choice([0x61, 0x75, 0x51, 0xAC, 0x87]))
    elif variant == "trailing-push":
        cmds.append(rng.randbytes(rng.choice([1, 20, 32])))
    elif variant == "leading-opcode":
        cmds.insert(0, rng.choice([0x61, 0x51, 0]))
    elif variant == "hash-length":
        cmds = [(rng.randbytes(len(c) + rng.choice([-1, 1])) if not isinstance(c, int) else c) for c in cmds]
    elif variant == "doubled":
        cmds = cmds + cmds
    ctx.count("script:near-template:" + variant)
    return tc.script_bytes(cmds)


def gen_script(rng, ctx, max_cmds=6, force_len=None, big=False):
    if force_len is None and not big and rng.random() < 0.15:
        return near_template(rng, ctx)
    cmds = []
    n = rng.randrange(0, max_cmds + 1)
    for _ in range(n):
        if rng.random() < 0.45:
            cmds.append(rng.choice(OPCODES))
        else:
            ln = rng.choice(PUSH_LENS) if rng.random() < 0.7 else rng.randrange(0, 521)
            cmds.append(rng.randbytes(ln))
    if force_len is not None:
        cmds.insert(rng.randrange(len(cmds) + 1), rng.randbytes(force_len))
    if big:
        while len(tc.script_bytes(cmds)) < 253:
            cmds.append(rng.randbytes(rng.choice([75, 76, 200])))
    for c in cmds:
        if not isinstance(c, int):
            ctx.count(_push_class(len(c)))
    raw = tc.script_bytes(cmds)
    if len(raw) >= 253:
        ctx.count("scriptlen:>=253")
    return raw


def gen_witness(rng, ctx, shape):
    if shape == "manyitems":
        k = rng.choice([252, 253, 300])
        ctx.count("witcount:>=253" if k >= 253 else "witcount:<253")
        return [rng.randbytes(rng.choice([0, 1, 2])) for _ in range(k)]
    if shape == "bigitem":
        ln = rng.choice(WITEM_BIG)
        ctx.count("witem:>=65536" if ln >= 65536 else "witem:253..65535")
        return [rng.randbytes(ln), rng.randbytes(rng.choice(WITEM_LENS))]
    k = rng.choice([0, 1, 2, 3, 5])
    items = [rng.randbytes(rng.choice(WITEM_LENS)) for _ in range(k)]
    for it in items:
        if 253 <= len(it) <= 65535:
            ctx.count("witem:253..65535")
    return items


def gen_model(rng, ctx, shape="plain", force_push=None):
    segwit = rng.random() < 0.5 or shape in ("manyitems", "bigitem")
    n_in = rng.choice([1, 1, 2, 3, 1, 2, 0])  # 0: an unfunded template (createrawtransaction [] {...})
    n_out = rng.choice([0, 1, 1, 2, 3])
    if n_in == 0:
        ctx.count("incount:0")
        if not segwit and n_out == 1:
            n_out = rng.choice([0, 2, 3])  # version 00 01 ... is intrinsically ambiguous with the segwit marker and flag
    if shape == "manyin":
        n_in = rng.choice([252, 253, 254, 255, 256, 300])
    if shape == "manyout":
        n_out = rng.choice([252, 253, 254, 255, 256, 300])
    if n_in >= 253:
        ctx.count("incount:>=253")
    if n_out >= 253:
        ctx.count("outcount:>=253")
    small = shape in ("manyin", "manyout")
    ins = []
    for k in range(n_in):
        ins.append(
            {
                "txid": rng.randbytes(32),
                "vout": rng.choice(U32) if rng.random() < 0.5 else rng.randrange(0, 10),
                "script": b"" if (small and k > 2) else gen_script(rng, ctx, force_len=force_push if k == 0 else None, big=(shape == "bigscript" and k == 0)),
                "sequence": rng.choice(U32) if rng.random() < 0.6 else rng.getrandbits(32),
                "witness": (gen_witness(rng, ctx, shape if k == 0 else "plain") if segwit and not (small and k > 2) else []),
            }
        )
    outs = []
    for k in range(n_out):
        amt = rng.choice(AMOUNTS) if rng.random() < 0.6 else rng.getrandbits(64)
        if amt == 2**64 - 1:
            ctx.count("amount:2^64-1")
        if amt == 0:
            ctx.count("amount:0")
        outs.append({"amount": amt, "script": b"\x51" if (small and k > 2) else gen_script(rng, ctx, force_len=force_push if k == 0 else None)})
    ctx.count("form:segwit" if segwit else "form:legacy")
    return {
        "version": rng.choice(U32) if rng.random() < 0.5 else rng.choice([1, 2]),
        "ins": ins, "outs": outs,
        "locktime": rng.choice(U32) if rng.random() < 0.6 else rng.getrandbits(32),
        "segwit": segwit,
    }


# ---- boundary monitors ------------------------------------------------------------------------------
def brief(model):
    return {"version": model["version"], "nin": len(model["ins"]), "nout": len(model["outs"]), "segwit": model["segwit"],
            "bytes": len(tc.encode(model)), "head": tc.encode(model)[:48]}


def check_model(ctx, rng, model):
    from buidl.tx import Tx

    raw = tc.encode(model)
    case = {"op": "tx-bytes", "raw": raw}
    # (A) reference bytes -> parse -> serialize
    o = outcome(lambda: Tx.parse(io.BytesIO(raw)))
    ctx.monitor("roundtrip-bytes")
    ctx.count("rt:bytes")
    if o[0] == "ok":
        o2 = outcome(o[1].serialize)
        if o2[0] == "exc":
            ctx.violation("roundtrip-serialize-raises", o2[1], case)
        elif o2[1] != raw:
            try:
                back, _ = tc.decode(o2[1])
                d = model_diff(model, back) or "encoding"
            except Exception:  # noqa: BLE001
                d = "undecodable"
            ctx.violation("roundtrip-bytes-differ:" + d.split("].")[-1], f"first differing field {d}", case)
    # (B) API-built -> serialize -> parse -> fields
    ob = outcome(build_tx, model)
    ctx.monitor("roundtrip-fields")
    ctx.count("rt:fields")
    if ob[0] == "ok":
        o3 = outcome(ob[1].serialize)
        if o3[0] == "ok":
            if o3[1] != raw:
                ctx.violation("api-serialize-differs", "API-built tx serialises to other bytes than the reference", {"op": "tx-model", "model": model})
            o4 = outcome(lambda: Tx.parse(io.BytesIO(o3[1])))
            if o4[0] == "ok":
                with contracts.suspended():
                    d = compare_parsed(o4[1], model)
                if d:
                    ctx.violation("api-roundtrip-field-lost:" + d.split("].")[-1], f"field {d}", {"op": "tx-model", "model": model})
            else:
                ctx.violation("api-roundtrip-parse-raises", o4[1], {"op": "tx-model", "model": model})
        else:
            ctx.violation("api-serialize-raises", o3[1], {"op": "tx-model", "model": model})
        # (C) txid
        check_txid(ctx, rng, model, ob[1])
    else:
        ctx.violation("api-build-raises", ob[1], {"op": "tx-model", "model": model})
    ctx.case(case)


def check_txid(ctx, rng, model, txobj):
    from buidl.witness import Witness

    o = outcome(txobj.id)
    ctx.monitor("txid")
    if o[0] != "ok":
        return
    base = o[1]
    if base != tc.txid(model).hex():
        ctx.violation("txid-wrong", f"id() {base}", {"op": "tx-model", "model": model})
    # witness edits leave the id unchanged
    if model["segwit"] and txobj.tx_ins:
        ti = txobj.tx_ins[rng.randrange(len(txobj.tx_ins))]
        old = ti.witness
        ti.witness = Witness([rng.randbytes(rng.choice([0, 1, 33, 72])) for _ in range(rng.randrange(0, 4))])
        o2 = outcome(txobj.id)
        ctx.count("txid:witness-edit-same")
        ctx.monitor("txid")
        if o2[0] == "ok" and o2[1] != base:
            ctx.violation("txid-depends-on-witness", "id changed after a witness edit", {"op": "tx-model", "model": model})
        ti.witness = old
    # every non-witness field edit changes the id
    edits = ["version", "locktime", "in.txid", "in.vout", "in.sequence", "in.script", "in.script-inplace", "out.amount", "out.script", "out.script-inplace", "drop-out", "add-out"]
    from buidl.script import Script
    from buidl.tx import TxOut
    from buidl.timelock import Locktime, Sequence

    for e in edits:
        if e.startswith("in.") and not txobj.tx_ins:
            continue
        ti = txobj.tx_ins[rng.randrange(len(txobj.tx_ins))] if txobj.tx_ins else None
        to = txobj.tx_outs[rng.randrange(len(txobj.tx_outs))] if txobj.tx_outs else None
        undo = None
        if e == "version":
            old = txobj.version
            txobj.version = (old + 1) % 2**32
            undo = lambda: setattr(txobj, "version", old)  # noqa: E731
        elif e == "locktime":
            old = txobj.locktime
            txobj.locktime = Locktime((int(old) + 1) % 2**32)
            undo = lambda: setattr(txobj, "locktime", old)  # noqa: E731
        elif e == "in.txid":
            old = ti.prev_tx
            ti.prev_tx = bytes([old[0] ^ 1]) + old[1:]
            undo = lambda: setattr(ti, "prev_tx", old)  # noqa: E731
        elif e == "in.vout":
            old = ti.prev_index
            ti.prev_index = (old + 1) % 2**32
            undo = lambda: setattr(ti, "prev_index", old)  # noqa: E731
        elif e == "in.sequence":
            old = ti.sequence
            ti.sequence = Sequence((int(old) + 1) % 2**32)
            undo = lambda: setattr(ti, "sequence", old)  # noqa: E731
        elif e == "in.script":
            old = ti.script_sig
            ti.script_sig = Script(list(old.commands) + [0x51])
            undo = lambda: setattr(ti, "script_sig", old)  # noqa: E731
        elif e == "in.script-inplace":
            # one command of the existing list replaced in place (same Script object, same list, same length)
            cmds = ti.script_sig.commands
            if not cmds or getattr(ti.script_sig, "raw", None):
                continue
            pos = rng.randrange(len(cmds))
            old = cmds[pos]
            cmds[pos] = (0x52 if old != 0x52 else 0x53) if isinstance(old, int) else bytes([old[0] ^ 1]) + old[1:] if len(old) else 0x51
            undo = lambda cmds=cmds, pos=pos, old=old: cmds.__setitem__(pos, old)  # noqa: E731
        elif e == "out.script-inplace" and to is not None:
            cmds = to.script_pubkey.commands
            if not cmds or getattr(to.script_pubkey, "raw", None):
                continue
            pos = rng.randrange(len(cmds))
            old = cmds[pos]
            cmds[pos] = (0x52 if old != 0x52 else 0x53) if isinstance(old, int) else bytes([old[0] ^ 1]) + old[1:] if len(old) else 0x51
            undo = lambda cmds=cmds, pos=pos, old=old: cmds.__setitem__(pos, old)  # noqa: E731
        elif e == "out.amount" and to is not None:
            old = to.amount
            to.amount = (old + 1) % 2**64
            undo = lambda: setattr(to, "amount", old)  # noqa: E731
        elif e == "out.script" and to is not None:
            old = to.script_pubkey
            to.script_pubkey = Script(list(old.commands) + [0x51])
            undo = lambda: setattr(to, "script_pubkey", old)  # noqa: E731
        elif e == "drop-out" and to is not None:
            old = list(txobj.tx_outs)
            txobj.tx_outs = old[:-1]
            undo = lambda: setattr(txobj, "tx_outs", old)  # noqa: E731
        elif e == "add-out":
            old = list(txobj.tx_outs)
            txobj.tx_outs = old + [TxOut(1, Script([0x51]))]
            undo = lambda: setattr(txobj, "tx_outs", old)  # noqa: E731
        if undo is None:
            continue
        outcome(txobj.serialize)  # the Tx.serialize contract compares with the object's *current* fields (stale memos)
        o3 = outcome(txobj.id)
        ctx.count("txid:nonwitness-edit-differs")
        ctx.monitor("txid")
        if o3[0] == "ok" and o3[1] == base:
            ctx.violation("txid-ignores-field:" + e, f"id unchanged after editing {e}", {"op": "tx-model", "model": model})
        undo()


# ---- fetcher history monitor --------------------------------------------------------------------------
class FakeResponse:
    def __init__(self, body):
        self.body = body

    def read(self):
        return self.body


def nonminimal_variant(rng, ctx):
    """A legacy tx whose scriptSig uses a non-minimal push: its bytes hash to an id, but the library cannot
    re-emit those bytes.  (Such transactions exist on chain.)"""
    data = rng.randbytes(rng.choice([1, 20, 71]))
    script = rng.choice([b"\x4c" + bytes([len(data)]) + data, b"\x4d" + len(data).to_bytes(2, "little") + data])
    model = {"version": 1, "ins": [{"txid": rng.randbytes(32), "vout": 0, "script": script, "sequence": 0xFFFFFFFF, "witness": []}],
             "outs": [{"amount": 5000, "script": tc.script_bytes([0x76, 0xA9, rng.randbytes(20), 0x88, 0xAC])}], "locktime": 0, "segwit": False}
    return tc.encode(model)


def simple_model(rng, segwit):
    ins = [{"txid": rng.randbytes(32), "vout": rng.randrange(4), "script": tc.script_bytes([rng.randbytes(71), rng.randbytes(33)]) if not segwit else b"",
            "sequence": rng.choice([0xFFFFFFFF, 0xFFFFFFFE, 0]), "witness": [rng.randbytes(71), rng.randbytes(33)] if segwit else []}
           for _ in range(rng.choice([1, 2]))]
    outs = [{"amount": rng.randrange(1, 10**9), "script": tc.script_bytes([0, rng.randbytes(20)])} for _ in range(rng.choice([1, 2]))]
    return {"version": rng.choice([1, 2]), "ins": ins, "outs": outs, "locktime": rng.choice([0, 0, 600000]), "segwit": segwit}


def server_response(rng, ctx, cls, honest_raw, honest_model):
    """Body returned by the hostile server for a request of the honest tx's id."""
    if cls in ("honest-legacy", "honest-segwit"):
        return honest_raw.hex().encode()
    if cls == "honest-whitespace":
        return b"  " + honest_raw.hex().encode() + b"\n\n"
    if cls == "other-tx":
        return tc.encode(simple_model(rng, rng.random() < 0.5)).hex().encode()
    if cls == "bitflip":
        b = bytearray(honest_raw)
        b[rng.randrange(len(b))] ^= 1 << rng.randrange(8)
        return bytes(b).hex().encode()
    if cls == "truncated":
        return honest_raw[: rng.randrange(10, len(honest_raw))].hex().encode()
    if cls == "trailing-garbage":
        return (honest_raw + rng.randbytes(rng.randrange(1, 9))).hex().encode()
    if cls == "witness-only-change":
        m = {**honest_model, "ins": [dict(i) for i in honest_model["ins"]]}
        m["ins"][0]["witness"] = [rng.randbytes(5)]
        m["segwit"] = True
        return tc.encode(m).hex().encode()
    if cls == "non-hex":
        return rng.choice([b"Transaction not found", b"<html>502</html>", b"zz" + honest_raw.hex().encode()])
    if cls == "empty":
        return b""
    raise KeyError(cls)


def fetch_history(ctx, rng, steps):
    from buidl import tx as txmod

    state = {"body": None, "calls": 0}

    def fake_urlopen(req, *a, **kw):
        state["calls"] += 1
        return FakeResponse(state["body"])

    real = txmod.urlopen
    txmod.urlopen = fake_urlopen
    txmod.TxFetcher.cache = {}
    history = []
    origin, flagged = {}, set()
    try:
        # a small universe of requested ids
        universe = []
        for _ in range(3):
            segwit = rng.random() < 0.5
            m = simple_model(rng, segwit)
            universe.append((tc.txid(m).hex(), tc.encode(m), m))
        nm_raw = nonminimal_variant(rng, ctx)
        universe.append((tc.hash256(nm_raw)[::-1].hex(), nm_raw, None))
        for step in range(steps):
            want_id, honest_raw, honest_model = universe[rng.randrange(len(universe))]
            if honest_model is None:
                cls = "non-minimal-push-same-raw-hash"
                body = honest_raw.hex().encode()
            else:
                cls = rng.choice([c for c in SERVER_CLASSES if c != "non-minimal-push-same-raw-hash"])
                if cls == "honest-legacy" and honest_model["segwit"]:
                    cls = "honest-segwit"
                elif cls == "honest-segwit" and not honest_model["segwit"]:
                    cls = "honest-legacy"
                body = server_response(rng, ctx, cls, honest_raw, honest_model)
            fresh = rng.random() < 0.5
            network = rng.choice(["mainnet", "testnet", "signet"])
            state["body"] = body
            before = state["calls"]
            o = outcome(txmod.TxFetcher.fetch, want_id, network, fresh)
            requested = state["calls"] > before
            ctx.count("server:" + cls if requested else "fetch:cached-no-request")
            history.append({"id": want_id, "cls": cls, "fresh": fresh, "requested": requested, "body": body[:4000], "result": o[0]})
            ctx.monitor("fetch-result")
            case = {"op": "fetch-history", "history": history[-6:]}
            if o[0] == "ok":
                ctx.count("fetch:returned")
                with contracts.suspended():
                    got = tc.txid(model_of_tx(o[1])).hex()
                if got != want_id:
                    ctx.violation("fetcher-returns-tx-with-other-id:" + (cls if requested else "from-cache(%s)" % origin.get(want_id, (None, "preloaded"))[1]),
                                  f"requested {want_id}, returned tx hashes to {got}", case)
            else:
                ctx.count("fetch:raised")
                ctx.rejected_by_exception += 1
            # cache invariant: every entry hashes to its key; an offending entry is attributed to the
            # response class of the step that inserted it
            for k, v in list(txmod.TxFetcher.cache.items()):
                if origin.get(k, (None, None))[0] is not v:
                    origin[k] = (v, cls)
                ctx.monitor("fetch-cache-invariant")
                with contracts.suspended():
                    got = tc.txid(model_of_tx(v)).hex()
                if got != k and (k, id(v)) not in flagged:
                    flagged.add((k, id(v)))
                    ctx.violation("fetcher-cache-poisoned:" + origin[k][1], f"cache[{k}] hashes to {got}", case)
        ctx.case({"op": "fetch-history", "history": [(h["id"], h["cls"], h["fresh"]) for h in history]})
        if len(ctx.samples) < 2:
            ctx.sample({"fetch-history": [(h["id"][:16], h["cls"], h["fresh"], h["result"]) for h in history[:8]]})
    finally:
        txmod.urlopen = real
        txmod.TxFetcher.cache = {}


# ---- shards -----------------------------------------------------------------------------------------
def shards(tier, seed):
    n = 16
    q = tier == "quick"
    out = []
    for i in range(n):
        out.append({"name": "codec", "idx": i, "n": n, "models": 1200 if q else 12000, "heavy": 6 if q else 60, "budget_s": 900 if q else 5400})
    for i in range(4 if q else 16):
        out.append({"name": "fetcher", "idx": i, "n": 4 if q else 16, "histories": 400 if q else 6000, "budget_s": 900 if q else 5400})
    return out


def run_shard(desc, ctx):
    tc.selfcheck()
    install()
    rng = ctx.rng()
    idx, n = desc["idx"], desc["n"]
    if desc["name"] == "codec":
        # exhaustive push lengths 0..520, spread over the shards (each in scriptSig and scriptPubKey)
        for ln in range(0, 521):
            if ln % n == idx:
                check_model(ctx, rng, gen_model(rng, ctx, "plain", force_push=ln))
        ctx.exhaustive.append("every push length 0..520 in scriptSig and scriptPubKey")
        for k in range(desc["models"]):
            if ctx.out_of_time():
                return
            m = gen_model(rng, ctx, "plain")
            check_model(ctx, rng, m)
            if k < 3:
                ctx.sample(brief(m))
        shapes = ["manyin", "manyout", "manyitems", "bigitem", "bigscript"]
        for k in range(desc["heavy"]):
            check_model(ctx, rng, gen_model(rng, ctx, shapes[(idx + k) % len(shapes)]))
        # varint helper boundaries through the monitored functions
        from buidl.helper import encode_varint, read_varint

        for v in (0, 1, 0xFC, 0xFD, 0xFE, 0xFF, 0x100, 0xFFFF, 0x10000, 0xFFFFFFFF, 0x100000000, 2**64 - 1, rng.getrandbits(64), rng.getrandbits(20)):
            o = outcome(encode_varint, v)
            if o[0] == "ok":
                o2 = outcome(read_varint, io.BytesIO(o[1]))
                if o2[0] != "ok" or o2[1] != v:
                    ctx.violation("varint-roundtrip", f"v={v}", {"op": "varint", "i": v})
    else:
        for _ in range(desc["histories"]):
            if ctx.out_of_time():
                return
            fetch_history(ctx, rng, steps=rng.randrange(3, 9))


def replay(case, ctx):
    from buidl.script import Script
    from buidl.tx import Tx

    tc.selfcheck()
    install()
    op = case.get("op")
    rng = ctx.rng("replay")
    if op == "tx-bytes":
        model, _ = tc.decode(case["raw"])
        check_model(ctx, rng, model)
    elif op in ("tx-model", "tx-fields"):
        check_model(ctx, rng, case["model"])
    elif op == "script":
        outcome(Script(case["cmds"]).raw_serialize)
    elif op == "script-parse":
        outcome(lambda: Script.parse(raw=case["raw"]))
    elif op == "fetch-history":
        from buidl import tx as txmod

        txmod.TxFetcher.cache = {}
        real = txmod.urlopen
        try:
            for h in case["history"]:
                txmod.urlopen = lambda req, *a, **kw: FakeResponse(h["body"])  # noqa: B023
                o = outcome(txmod.TxFetcher.fetch, h["id"], "mainnet", h["fresh"])
                ctx.monitor("fetch-result")
                if o[0] == "ok":
                    with contracts.suspended():
                        got = tc.txid(model_of_tx(o[1])).hex()
                    if got != h["id"]:
                        ctx.violation("fetcher-returns-tx-with-other-id:" + h["cls"], f"requested {h['id']} got {got}", case)
        finally:
            txmod.urlopen = real
            txmod.TxFetcher.cache = {}
    else:
        check_model(ctx, rng, gen_model(rng, ctx))
