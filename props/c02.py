"""C02 - BIP340 Schnorr: signatures equal the specification, verification exactly per spec.

Monitors:
  PrivateKey.sign_schnorr   serialize() == reference BIP340 signature (contract)
  PrivateKey.bip340_k       == reference nonce before parity normalisation (contract)
  S256Point.verify_schnorr  bool == reference verifier on (xonly(self), msg, xonly(R)||s) (contract)
  tagged_hash               == sha256(sha256(tag)||sha256(tag)||msg) (contract)  + TAG_HASH_CACHE invariant
  boundary                  64-byte candidate -> SchnorrSignature.parse -> parse_xonly(pk).verify_schnorr
                            accepted iff the reference BIP340 verifier accepts
"""
import hashlib

from ref import ec
from vmon import contracts
from vmon.core import outcome
from vmon.util import N, P, boundary_secrets, rand_secret

PROPERTY_ID = "C02"
REPO_TEST_MODULES = ["test_schnorr", "test_ecc", "test_hash"]  # thorough tier: run as an extra workload under the contracts
RULE = (
    "cases = (secret, msg, aux) triples signed by PrivateKey.sign_schnorr and (xonly key, msg, 64-byte string) "
    "triples pushed through SchnorrSignature.parse + S256Point.verify_schnorr; each decided by comparison with the "
    "reference BIP340 signer/verifier; distinct = concrete inputs by hash; non-trivial = reference result computed "
    "and compared (sign: all four key-parity x nonce-parity classes; verify: valid triples plus one reject class each)"
)
ASSUMPTIONS = [
    "candidate signatures are exactly 64 bytes and messages 32 bytes (other lengths are outside the statement)",
    "rejection may be False or any exception",
]

REJECTS = [
    "bitflip-R", "bitflip-s", "R=0", "R=p", "R>=p", "R-no-sqrt", "R-other-point", "s=0", "s=n-1", "s=n", "s>=n",
    "s+1", "msg-altered", "other-key", "key-no-sqrt", "key=0", "key>=p", "R-negated-nonce(s'=n-s)",
]

GATES = {
    "sign-monitor-ran": ["PrivateKey.sign_schnorr", "PrivateKey.bip340_k"],
    "verify-monitor-ran": ["S256Point.verify_schnorr"],
    "tagged-hash-monitor-ran": ["tagged_hash"],
    "parity-classes": ["sign:key-even/nonce-even", "sign:key-even/nonce-odd", "sign:key-odd/nonce-even", "sign:key-odd/nonce-odd"],
    "reject-classes": ["cand:" + r for r in REJECTS],
    "valid-accepted": ["boundary:ref-accepts"],
    "invalid-seen": ["boundary:ref-rejects"],
    "negated-key-still-valid": ["cand:odd-y-key-object(valid)"],
    "aux-none": ["sign:aux-none"],
    "cache-invariant": ["tag-cache-checked"],
    "object-reuse-histories": ["reuse:key-object-signs-repeatedly", "reuse:signature-object-verified-under-other-key"],
    "rare-byte-classes": ["sign:masked-secret-leading-zero-byte", "sign:boundary-secret"],
}


def anchors():
    from buidl import pecc, phash

    return [pecc.PrivateKey.sign_schnorr, pecc.PrivateKey.bip340_k, pecc.S256Point.verify_schnorr, pecc.S256Point.parse_xonly, pecc.SchnorrSignature.parse, phash.tagged_hash]


def post_sign(args, kwargs, pre, out):
    ctx = contracts.ctx()
    self, msg = args[0], args[1]
    aux = args[2] if len(args) > 2 else kwargs.get("aux")
    if not (isinstance(msg, bytes) and len(msg) == 32 and (aux is None or (isinstance(aux, bytes) and len(aux) == 32))):
        return NotImplemented
    case = {"op": "sign", "secret": self.secret, "msg": msg, "aux": aux}
    exp, info = ec.schnorr_sign(self.secret, msg, aux if aux is not None else b"\x00" * 32)
    ctx.count("sign:key-%s/nonce-%s" % ("odd" if info["key_odd"] else "even", "odd" if info["nonce_odd"] else "even"))
    if out[0] == "exc":
        ctx.violation("schnorr-sign-raises", f"sign_schnorr raised {out[1]!r}", case)
        return
    got = out[1].serialize()
    if got != exp:
        ctx.violation("schnorr-sign-not-bip340", f"got {got.hex()} expected {exp.hex()}", case)
    if not ec.schnorr_verify(ec.xonly_pub(self.secret), msg, got):
        ctx.violation("schnorr-sign-does-not-verify", f"reference rejects {got.hex()}", case)
    ctx.case(case)


def post_k(args, kwargs, pre, out):
    ctx = contracts.ctx()
    self, msg = args[0], args[1]
    aux = args[2] if len(args) > 2 else kwargs.get("aux")
    if not (isinstance(msg, bytes) and len(msg) == 32 and (aux is None or (isinstance(aux, bytes) and len(aux) == 32))):
        return NotImplemented
    if out[0] == "exc":
        ctx.violation("bip340-k-raises", f"{out[1]!r}", {"op": "sign", "secret": self.secret, "msg": msg, "aux": aux})
        return
    _, info = ec.schnorr_sign(self.secret, msg, aux if aux is not None else b"\x00" * 32)
    if out[1] != info["k0"]:
        ctx.violation("bip340-nonce-wrong", f"k={out[1]:x} expected {info['k0']:x}", {"op": "sign", "secret": self.secret, "msg": msg, "aux": aux})


def post_verify(args, kwargs, pre, out):
    ctx = contracts.ctx()
    self, msg, sig = args[0], args[1], args[2]
    try:
        pk32 = ec.b32(self.x.num) if self.x is not None else b"\x00" * 32
        r32 = ec.b32(sig.r.x.num) if sig.r.x is not None else b"\x00" * 32
        sig64 = r32 + ec.b32(sig.s)
    except Exception:  # noqa: BLE001 - not a (point, msg, sig) triple
        return NotImplemented
    if not (isinstance(msg, bytes) and len(msg) == 32):
        return NotImplemented
    expect = ec.schnorr_verify(pk32, msg, sig64)
    case = {"op": "verify-bytes", "pk": pk32, "msg": msg, "sig": sig64}
    if out[0] == "exc":
        if expect:
            ctx.violation("schnorr-verify-rejects-valid", f"raised {out[1]!r}", case)
        return
    if bool(out[1]) != expect:
        ctx.violation(
            "schnorr-verify-rejects-valid" if expect else "schnorr-verify-accepts-invalid",
            f"verify_schnorr returned {out[1]!r}, reference {expect}", case)
    ctx.case(case)


def post_tagged(args, kwargs, pre, out):
    ctx = contracts.ctx()
    tag, msg = args[0], args[1]
    if out[0] == "exc" or not isinstance(tag, bytes):
        return NotImplemented
    t = hashlib.sha256(tag).digest()
    if out[1] != hashlib.sha256(t + t + msg).digest():
        ctx.violation("tagged-hash-wrong", f"tag {tag!r}", {"op": "tagged", "tag": tag, "msg": msg})


def install():
    from buidl import pecc, phash
    import buidl.hash  # noqa: F401  (aliases rebinding)
    import buidl.taproot  # noqa: F401

    contracts.install(phash, "tagged_hash", post_tagged)
    contracts.install(pecc.PrivateKey, "sign_schnorr", post_sign)
    contracts.install(pecc.PrivateKey, "bip340_k", post_k)
    contracts.install(pecc.S256Point, "verify_schnorr", post_verify)


def check_tag_cache(ctx):
    from buidl import phash

    for tag, val in list(phash.TAG_HASH_CACHE.items()):
        ctx.count("tag-cache-checked")
        if val != hashlib.sha256(tag).digest() * 2:
            ctx.violation("tag-cache-corrupt", f"entry for {tag!r}", {"op": "tagcache", "tag": tag})


# ---- boundary monitor ----------------------------------------------------------------------
def lib_accepts(pk32, msg, sig64, odd_key_object=False):
    from buidl.pecc import S256Point, SchnorrSignature

    def go():
        pt = S256Point.parse_xonly(pk32)
        if odd_key_object:
            pt = -1 * pt  # same x-only key, odd-Y object: BIP340 treats keys as x-only
        sig = SchnorrSignature.parse(sig64)
        return pt.verify_schnorr(msg, sig)

    return outcome(go)


def boundary(ctx, cls, pk32, msg, sig64, odd_key_object=False):
    expect = ec.schnorr_verify(pk32, msg, sig64)
    ctx.count("cand:" + cls)
    ctx.count("boundary:ref-accepts" if expect else "boundary:ref-rejects")
    o = lib_accepts(pk32, msg, sig64, odd_key_object)
    ctx.monitor("boundary-verify")
    case = {"op": "verify-bytes", "pk": pk32, "msg": msg, "sig": sig64, "cls": cls, "odd": odd_key_object}
    if o[0] == "exc":
        if expect:
            ctx.violation("schnorr-verify-rejects-valid", f"{cls}: raised {o[1]}", case)
        else:
            ctx.rejected_by_exception += 1
    elif bool(o[1]) != expect:
        ctx.violation(
            "schnorr-verify-rejects-valid" if expect else "schnorr-verify-accepts-invalid:" + cls,
            f"{cls}: library {o[1]!r} reference {expect}", case)
    ctx.case(case)


def no_sqrt_x(rng):
    while True:
        x = rng.randrange(1, P)
        if ec.lift_x(x) is None:
            return x


def candidates(rng, d, pk32, msg, sig64, nflips):
    r = int.from_bytes(sig64[:32], "big")
    s = int.from_bytes(sig64[32:], "big")
    out = []
    for _ in range(nflips):
        b = rng.randrange(256)
        out.append(("bitflip-R", pk32, msg, ec.b32(r ^ (1 << b)) + sig64[32:]))
        b = rng.randrange(256)
        out.append(("bitflip-s", pk32, msg, sig64[:32] + ec.b32(s ^ (1 << b))))
    out.append(("R=0", pk32, msg, b"\x00" * 32 + sig64[32:]))
    out.append(("R=p", pk32, msg, ec.b32(P) + sig64[32:]))
    out.append(("R>=p", pk32, msg, ec.b32(P + 1 + rng.randrange(2**256 - P - 1)) + sig64[32:]))
    out.append(("R-no-sqrt", pk32, msg, ec.b32(no_sqrt_x(rng)) + sig64[32:]))
    out.append(("R-other-point", pk32, msg, ec.b32(ec.mul(rand_secret(rng))[0]) + sig64[32:]))
    out.append(("s=0", pk32, msg, sig64[:32] + ec.b32(0)))
    out.append(("s=n-1", pk32, msg, sig64[:32] + ec.b32(N - 1)))
    out.append(("s=n", pk32, msg, sig64[:32] + ec.b32(N)))
    out.append(("s>=n", pk32, msg, sig64[:32] + ec.b32(N + rng.randrange(2**256 - N))))
    out.append(("s+1", pk32, msg, sig64[:32] + ec.b32((s + 1) % N)))
    out.append(("R-negated-nonce(s'=n-s)", pk32, msg, sig64[:32] + ec.b32((N - s) % N)))
    m2 = bytearray(msg)
    m2[rng.randrange(32)] ^= 1 << rng.randrange(8)
    out.append(("msg-altered", pk32, bytes(m2), sig64))
    out.append(("other-key", ec.xonly_pub(rand_secret(rng)), msg, sig64))
    out.append(("key-no-sqrt", ec.b32(no_sqrt_x(rng)), msg, sig64))
    out.append(("key=0", b"\x00" * 32, msg, sig64))
    out.append(("key>=p", ec.b32(P + rng.randrange(2**256 - P)), msg, sig64))
    return out


def find_case(rng, want_key_odd, want_nonce_odd, secrets=None):
    """Use the (cheap) reference to pick inputs of a wanted parity class."""
    for i in range(400):
        d = secrets[i % len(secrets)] if secrets and i < len(secrets) * 3 else rand_secret(rng)
        msg = rng.choice([b"\x00" * 32, b"\xff" * 32, rng.randbytes(32), rng.randbytes(32)])
        aux = rng.choice([None, b"\x00" * 32, b"\xff" * 32, rng.randbytes(32)])
        _, info = ec.schnorr_sign(d, msg, aux if aux is not None else b"\x00" * 32)
        if info["key_odd"] == want_key_odd and info["nonce_odd"] == want_nonce_odd:
            return d, msg, aux
    raise RuntimeError("no case found")


def shards(tier, seed):
    n = 16
    return [{"name": "schnorr", "idx": i, "n": n, "rounds": 2 if tier == "quick" else 12, "budget_s": 900 if tier == "quick" else 5400} for i in range(n)]


def one_sign(ctx, rng, d, msg, aux, nflips, all_flips=False):
    from buidl.pecc import PrivateKey

    if aux is None:
        ctx.count("sign:aux-none")
    ko = outcome(PrivateKey, d)
    ctx.monitor("key-constructor")
    if ko[0] != "ok":
        ctx.violation("key-constructor-refuses-valid-secret", f"PrivateKey({d:#x}) raised {ko[1]}", {"op": "sign", "secret": d, "msg": msg, "aux": aux})
        return
    key = ko[1]
    o = outcome(key.sign_schnorr, msg, aux)
    pk32 = ec.xonly_pub(d)
    exp, _ = ec.schnorr_sign(d, msg, aux if aux is not None else b"\x00" * 32)
    # candidates derive from the reference signature so they are meaningful even if signing is broken
    boundary(ctx, "valid", pk32, msg, exp)
    boundary(ctx, "odd-y-key-object(valid)", pk32, msg, exp, odd_key_object=True)
    if o[0] == "ok":
        boundary(ctx, "library-signature", pk32, msg, o[1].serialize())
    for cls, pk, m, sg in candidates(rng, d, pk32, msg, exp, nflips):
        boundary(ctx, cls, pk, m, sg)
    if all_flips:
        for b in range(512):
            flipped = bytearray(exp)
            flipped[b // 8] ^= 1 << (b % 8)
            boundary(ctx, "bitflip-R" if b < 256 else "bitflip-s", pk32, msg, bytes(flipped))
        ctx.exhaustive.append("all 512 single-bit flips of a sampled valid signature")
    ctx.sample({"secret": d, "msg": msg, "aux": aux, "sig": exp})


def object_reuse_history(ctx, rng):
    """Histories on ONE key object / ONE signature object: the statement quantifies over inputs, so the result
    must not depend on what the same objects were used for before (memo fields must not leak between calls).
    The contracts on sign_schnorr / verify_schnorr decide every step."""
    from buidl.pecc import PrivateKey, S256Point, SchnorrSignature

    d = rand_secret(rng)
    key = PrivateKey(d)
    msgs = [rng.randbytes(32) for _ in range(2)]
    auxes = [b"\x00" * 32, rng.randbytes(32), None, b"\xff" * 32, rng.randbytes(32)]
    steps = []
    sig_obj = None
    for k in range(4):
        msg, aux = msgs[k % 2], auxes[(k * 2 + rng.randrange(2)) % len(auxes)]
        o = outcome(key.sign_schnorr, msg, aux)  # decided by the contract (same object, changing aux/msg)
        steps.append(("sign", msg, aux))
        if o[0] == "ok":
            sig_obj = (o[1], msg)
    ctx.count("reuse:key-object-signs-repeatedly")
    if sig_obj is None:
        return
    sig, msg = sig_obj
    pk = S256Point.parse_xonly(ec.xonly_pub(d))
    other = S256Point.parse_xonly(ec.xonly_pub(rand_secret(rng)))
    parsed = SchnorrSignature.parse(sig.serialize())
    # the same signature object is verified under the right key, then under another key / message
    for obj in (sig, parsed):
        outcome(pk.verify_schnorr, msg, obj)
        outcome(other.verify_schnorr, msg, obj)
        outcome(pk.verify_schnorr, msgs[0] if msg != msgs[0] else msgs[1], obj)
        outcome(pk.verify_schnorr, msg, obj)
    ctx.count("reuse:signature-object-verified-under-other-key")
    ctx.case(("reuse", d, [s[1:] for s in steps]))


def run_shard(desc, ctx):
    ec.selfcheck()
    install()
    idx = desc["idx"]
    rng = ctx.rng()
    bs = boundary_secrets()
    for _ in range(1 if ctx.tier == "quick" else 8):
        object_reuse_history(ctx, rng)
    # boundary secrets, one per shard (1, 2, n-1, n-2, ...), each is a valid key
    one_sign(ctx, rng, bs[idx % len(bs)], rng.randbytes(32), rng.randbytes(32), nflips=1)
    ctx.count("sign:boundary-secret")
    # the masked secret t = d' xor H_aux(aux) starts with a zero byte when the two top bytes coincide (1 in 256):
    # pick aux, then a secret whose even-Y form has that top byte
    for _ in range(1 if ctx.tier == "quick" else 6):
        aux = rng.randbytes(32)
        h0 = ec.tagged_hash("BIP0340/aux", aux)[0]
        for _try in range(200):
            d = (h0 << 248) | rng.getrandbits(248)
            if 1 <= d < N and ec.mul(d)[1] % 2 == 0:
                break
        else:
            continue
        ctx.count("sign:masked-secret-leading-zero-byte")
        one_sign(ctx, rng, d, rng.randbytes(32), aux, nflips=1)
    for rnd in range(desc["rounds"]):
        for cls_i in range(4):
            if ctx.out_of_time():
                return
            # every shard covers all four parity classes over its rounds; quick: 2 classes per shard
            ko, no = cls_i >> 1, cls_i & 1
            secrets = [bs[(idx + rnd * 16 + j) % len(bs)] for j in range(3)] if rnd == 0 else None
            d, msg, aux = find_case(rng, ko, no, secrets)
            one_sign(ctx, rng, d, msg, aux, nflips=3 if ctx.tier == "quick" else 6,
                     all_flips=(ctx.tier == "thorough" and rnd == 1 and cls_i == idx % 4))
    check_tag_cache(ctx)


def replay(case, ctx):
    from buidl.pecc import PrivateKey

    ec.selfcheck()
    install()
    if case.get("op") == "sign":
        outcome(PrivateKey(case["secret"]).sign_schnorr, case["msg"], case["aux"])
    elif case.get("op") == "verify-bytes":
        boundary(ctx, case.get("cls", "replay"), case["pk"], case["msg"], case["sig"], case.get("odd", False))
    check_tag_cache(ctx)
