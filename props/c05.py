"""C05 - signature hashes equal the Satoshi / BIP143 / BIP341 digests, independent of history.

Contracts on Tx.sig_hash_legacy / sig_hash_bip143 / sig_hash_bip341 / sig_hash: the object's public fields
are snapshotted *before* the call and the digest is recomputed from scratch by the reference
(ref.sighash, which has no memo) - so the same contract decides per-input correctness and history
independence.  History workload: <= 6 steps of queries interleaved with edits on one object.
"""
import io

from ref import ec, sighash as sh, txcodec as tc
from vmon import contracts
from vmon.bridge import build_tx, model_of_tx, script_raw_from_fields
from vmon.core import outcome

PROPERTY_ID = "C05"
REPO_TEST_MODULES = ["test_tx", "test_taproot", "test_musig"]  # thorough tier: run as an extra workload under the contracts
RULE = (
    "cases = (transaction state, input index, algorithm, hash type) digest queries, issued inside histories of up to 6 "
    "steps that interleave queries with edits of the same Tx object; each query is decided by a contract that "
    "recomputes the digest from the object's fields at call time with the reference implementation; distinct = "
    "(state bytes, spent outputs, index, algorithm, hash type) by hash; non-trivial = reference digest (or specified "
    "failure) computed and compared"
)
ASSUMPTIONS = [
    "hash types are the standard set {1,2,3,0x81,0x82,0x83} plus 0 for taproot; scripts contain no OP_CODESEPARATOR",
    "for BIP341 SIGHASH_SINGLE without a matching output any exception is the specified failure",
    "spent outputs are preset on the inputs (_value/_script_pubkey), no fetcher involved",
]

HT_NAME = {0: "DEFAULT", 1: "ALL", 2: "NONE", 3: "SINGLE", 0x81: "ALL|ACP", 0x82: "NONE|ACP", 0x83: "SINGLE|ACP"}
KINDS = ["p2pkh", "p2sh-ms", "p2wpkh", "p2sh-p2wpkh", "p2wsh", "p2sh-p2wsh", "p2tr-key", "p2tr-key-annex", "p2tr-script", "p2tr-script-annex"]
EDITS = ["out-amount", "out-script", "add-out", "remove-out", "in-sequence", "in-prevout", "add-in", "remove-in", "locktime", "version", "annex-toggle", "spent-amount", "leaf-swap-in-place", "add-default-in-then-fill-scriptsig"]

GATES = {
    "contracts-ran": ["Tx.sig_hash_legacy", "Tx.sig_hash_bip143", "Tx.sig_hash_bip341", "Tx.sig_hash"],
    "alg-x-hashtype": [f"q:{a}:{HT_NAME[h]}" for a in ("legacy", "bip143") for h in sh.STANDARD_TYPES] + [f"q:bip341:{HT_NAME[h]}" for h in sh.TAPROOT_TYPES],
    "single-rules": ["q:legacy:single-no-output", "q:bip143:single-no-output", "q:bip341:single-no-output", "q:bip341:single-with-output", "q:legacy:index-beyond-inputs"],
    "annex": ["q:bip341:annex", "q:bip341:annex+single", "q:bip341:script-path", "q:bip341:key-path"],
    "dispatch-kinds": ["q:dispatch:" + k for k in KINDS],
    "query-after-edit": ["edit-then-query:" + e for e in EDITS],
    "repeat-query": ["history:query-repeated-after-edit"],
    "verify-as-observer": ["history:verify-between-digests"],
}


def anchors():
    from buidl.tx import Tx
    from buidl.witness import Witness

    return [Tx.sig_hash_legacy, Tx.sig_hash_bip143, Tx.sig_hash_bip341, Tx.sig_hash, Tx.hash_prevouts, Tx.hash_outputs, Tx.sha_prevouts, Tx.sha_outputs, Witness.has_annex]


# ---- snapshot of "the transaction as it is" --------------------------------------------------------
def snapshot(tx):
    model = model_of_tx(tx)
    spent = []
    for i in tx.tx_ins:
        spk = i._script_pubkey
        spent.append({"amount": i._value, "script": script_raw_from_fields(spk) if spk is not None else None})
    return {"model": model, "spent": spent}


def snap_call(self, *a, **kw):
    return snapshot(self)


def _digest_int(d):
    return int.from_bytes(d, "big")


def _flags(model, index, ht, annex=False):
    out = []
    if (ht & 3) == 3 and index >= len(model["outs"]):
        out.append("single-no-output")
    if annex:
        out.append("annex")
    return ("+" + "+".join(out)) if out else ""


def _judge(ctx, alg, label, case, out, expected, as_int):
    """expected: bytes digest, or SighashFailure instance."""
    if isinstance(expected, sh.SighashFailure):
        if out[0] == "ok":
            ctx.violation(f"{alg}-returns-digest-where-spec-fails:{label}", f"returned {out[1]!r}", case)
        else:
            ctx.rejected_by_exception += 1
        return
    if out[0] == "exc":
        ctx.violation(f"{alg}-raises:{label}", f"{out[1]!r}", case)
        return
    got = out[1]
    exp = _digest_int(expected) if as_int else expected
    if got != exp:
        ctx.violation(f"{alg}-digest-wrong:{label}", f"got {got if not as_int else hex(got)} expected {expected.hex()}", case)


def post_legacy(args, kwargs, pre, out):
    ctx = contracts.ctx()
    index = args[1] if len(args) > 1 else kwargs["input_index"]
    redeem = args[2] if len(args) > 2 else kwargs.get("redeem_script")
    ht = args[3] if len(args) > 3 else kwargs.get("hash_type", 1)
    if ht not in sh.STANDARD_TYPES:
        return NotImplemented
    model, spent = pre["model"], pre["spent"]
    if index < len(model["ins"]):
        if redeem:
            code = script_raw_from_fields(redeem)
        elif spent[index]["script"] is not None:
            code = spent[index]["script"]
        else:
            return NotImplemented
    else:
        code = b""
    exp = sh.legacy(model, index, code, ht)
    label = HT_NAME[ht] + _flags(model, index, ht) + ("+index-beyond-inputs" if index >= len(model["ins"]) else "")
    case = {"op": "query", "alg": "legacy", "model": model, "spent": spent, "index": index, "ht": ht, "code": code}
    _judge(ctx, "legacy", label, case, out, exp, True)
    ctx.case(("legacy", tc.encode(model), index, ht, code))


def post_bip143(args, kwargs, pre, out):
    ctx = contracts.ctx()
    index = args[1] if len(args) > 1 else kwargs["input_index"]
    redeem = args[2] if len(args) > 2 else kwargs.get("redeem_script")
    wscript = args[3] if len(args) > 3 else kwargs.get("witness_script")
    ht = args[4] if len(args) > 4 else kwargs.get("hash_type", 1)
    model, spent = pre["model"], pre["spent"]
    if ht not in sh.STANDARD_TYPES or index >= len(model["ins"]) or spent[index]["amount"] is None:
        return NotImplemented
    if wscript:
        code = script_raw_from_fields(wscript)
    elif redeem:
        raw = script_raw_from_fields(redeem)
        if sh.classify_spk(raw) != "p2wpkh":
            return NotImplemented
        code = sh.p2pkh_script(raw[2:])
    else:
        spk = spent[index]["script"]
        if spk is None or sh.classify_spk(spk) != "p2wpkh":
            return NotImplemented
        code = sh.p2pkh_script(spk[2:])
    exp = sh.bip143(model, index, code, spent[index]["amount"], ht)
    label = HT_NAME[ht] + _flags(model, index, ht)
    case = {"op": "query", "alg": "bip143", "model": model, "spent": spent, "index": index, "ht": ht, "code": code}
    _judge(ctx, "bip143", label, case, out, exp, True)
    ctx.case(("bip143", tc.encode(model), index, ht, code, spent[index]["amount"]))


def _bip341_expected(model, spent, index, ht, ext_flag):
    wit = model["ins"][index]["witness"]
    annex = sh.annex_of(wit)
    leaf = None
    if ext_flag == 1:
        n = len(wit) - (1 if annex is not None else 0)
        if n < 2:
            return None, annex
        leaf = sh.tapleaf_hash(wit[n - 1][0] & 0xFE, wit[n - 2])
    try:
        return sh.bip341(model, index, spent, ht, ext_flag, annex, leaf), annex
    except sh.SighashFailure as e:
        return e, annex


def post_bip341(args, kwargs, pre, out):
    ctx = contracts.ctx()
    index = args[1] if len(args) > 1 else kwargs["input_index"]
    ext_flag = args[2] if len(args) > 2 else kwargs.get("ext_flag", 0)
    ht = args[3] if len(args) > 3 else kwargs.get("hash_type", 0)
    model, spent = pre["model"], pre["spent"]
    if ht not in sh.TAPROOT_TYPES or index >= len(model["ins"]) or any(s["amount"] is None or s["script"] is None for s in spent):
        return NotImplemented
    exp, annex = _bip341_expected(model, spent, index, ht, ext_flag)
    if exp is None:
        return NotImplemented
    label = HT_NAME[ht] + _flags(model, index, ht, annex is not None) + ("+script-path" if ext_flag else "")
    case = {"op": "query", "alg": "bip341", "model": model, "spent": spent, "index": index, "ht": ht, "ext": ext_flag}
    _judge(ctx, "bip341", label, case, out, exp, False)
    ctx.case(("bip341", tc.encode(model), [(s["amount"], s["script"]) for s in spent], index, ht, ext_flag))


def post_dispatch(args, kwargs, pre, out):
    ctx = contracts.ctx()
    index = args[1] if len(args) > 1 else kwargs["input_index"]
    ht = args[2] if len(args) > 2 else kwargs["hash_type"]
    model, spent = pre["model"], pre["spent"]
    if index >= len(model["ins"]) or spent[index]["script"] is None:
        return NotImplemented
    kind = sh.classify_spk(spent[index]["script"])
    if ht not in (sh.TAPROOT_TYPES if kind == "p2tr" else sh.STANDARD_TYPES):
        return NotImplemented
    try:
        alg, exp = sh.dispatch(model, index, spent, ht)
    except sh.SighashFailure as e:
        alg, exp = "bip341", e
    except (IndexError, TypeError, KeyError):
        return NotImplemented  # witness / scriptSig does not have the shape of a standard spend
    wit = model["ins"][index]["witness"]
    label = f"{alg}:{HT_NAME[ht]}" + _flags(model, index, ht, alg == "bip341" and sh.annex_of(wit) is not None)
    case = {"op": "query", "alg": "dispatch", "model": model, "spent": spent, "index": index, "ht": ht}
    _judge(ctx, "dispatch", label, case, out, exp, alg != "bip341")
    ctx.case(("dispatch", tc.encode(model), [(s["amount"], s["script"]) for s in spent], index, ht))


def install():
    from buidl.tx import Tx

    contracts.install(Tx, "sig_hash_legacy", post_legacy, snap=snap_call)
    contracts.install(Tx, "sig_hash_bip143", post_bip143, snap=snap_call)
    contracts.install(Tx, "sig_hash_bip341", post_bip341, snap=snap_call)
    contracts.install(Tx, "sig_hash", post_dispatch, snap=snap_call)


# ---- generators ---------------------------------------------------------------------------------------
def multisig_script(rng, m=None, n=None):
    n = n or rng.randrange(1, 4)
    m = m or rng.randrange(1, n + 1)
    keys = [ec.sec(ec.mul(rng.randrange(1, ec.N))) for _ in range(n)]
    return tc.script_bytes([0x50 + m] + keys + [0x50 + n, 0xAE])


def hash160(b):
    import hashlib

    return hashlib.new("ripemd160", hashlib.sha256(b).digest()).digest()


def gen_input(rng, kind):
    """Returns (txin model, spent, extras) for an input of the given kind with dummy authorisation data."""
    sig = bytes([0x30]) + rng.randbytes(70) + b"\x01"
    sec = ec.sec(ec.mul(rng.randrange(1, ec.N)))
    amount = rng.choice([0, 1, 546, 10**8, 2**63 - 1, rng.randrange(1, 21 * 10**14)])
    txin = {"txid": rng.randbytes(32), "vout": rng.choice([0, 1, 2, 0xFFFFFFFF, rng.randrange(100)]), "script": b"",
            "sequence": rng.choice([0xFFFFFFFF, 0xFFFFFFFE, 0, 1, 1 << 22, rng.getrandbits(32)]), "witness": []}
    extra = {"kind": kind}
    if kind == "p2pkh":
        spk = sh.p2pkh_script(hash160(sec))
        txin["script"] = tc.script_bytes([sig, sec])
    elif kind == "p2sh-ms":
        redeem = multisig_script(rng)
        spk = b"\xa9\x14" + hash160(redeem) + b"\x87"
        txin["script"] = tc.script_bytes([0, sig, redeem])
        extra["redeem"] = redeem
    elif kind == "p2wpkh":
        spk = b"\x00\x14" + hash160(sec)
        txin["witness"] = [sig, sec]
    elif kind == "p2sh-p2wpkh":
        redeem = b"\x00\x14" + hash160(sec)
        spk = b"\xa9\x14" + hash160(redeem) + b"\x87"
        txin["script"] = tc.script_bytes([redeem])
        txin["witness"] = [sig, sec]
        extra["redeem"] = redeem
    elif kind == "p2wsh":
        ws = multisig_script(rng)
        spk = b"\x00\x20" + sh.sha256(ws)
        txin["witness"] = [b"", sig, ws]
        extra["wscript"] = ws
    elif kind == "p2sh-p2wsh":
        ws = multisig_script(rng)
        redeem = b"\x00\x20" + sh.sha256(ws)
        spk = b"\xa9\x14" + hash160(redeem) + b"\x87"
        txin["script"] = tc.script_bytes([redeem])
        txin["witness"] = [b"", sig, ws]
        extra["redeem"], extra["wscript"] = redeem, ws
    elif kind.startswith("p2tr"):
        spk = b"\x51\x20" + ec.b32(ec.mul(rng.randrange(1, ec.N))[0])
        annex = [b"\x50" + rng.randbytes(rng.choice([0, 1, 30, 300]))] if kind.endswith("annex") else []
        if "script" in kind:
            leaf_script = tc.script_bytes([ec.b32(ec.mul(rng.randrange(1, ec.N))[0]), 0xAC]) if rng.random() < 0.6 else tc.script_bytes([rng.randbytes(rng.choice([1, 80, 260])), 0x75, 0x51])
            cb = bytes([0xC0 | rng.getrandbits(1)]) + ec.b32(ec.mul(rng.randrange(1, ec.N))[0]) + b"".join(rng.randbytes(32) for _ in range(rng.randrange(0, 3)))
            txin["witness"] = [rng.randbytes(64), leaf_script, cb] + annex
        else:
            txin["witness"] = [rng.randbytes(rng.choice([64, 65]))] + annex
    else:
        raise KeyError(kind)
    return txin, {"amount": amount, "script": spk}, extra


def gen_out(rng):
    return {"amount": rng.choice([0, 1, 546, 2**63 - 1, rng.randrange(10**9)]),
            "script": rng.choice([sh.p2pkh_script(rng.randbytes(20)), b"\x00\x14" + rng.randbytes(20), b"\x51\x20" + rng.randbytes(32), b"\x6a" + tc.push(rng.randbytes(rng.choice([0, 40, 80])))])}


def gen_state(rng, kinds=None):
    n_in = rng.randrange(1, 7)
    n_out = rng.randrange(0, 7)
    ins, spent, extras = [], [], []
    for k in range(n_in):
        kind = kinds[k % len(kinds)] if kinds else rng.choice(KINDS)
        a, b, c = gen_input(rng, kind)
        ins.append(a)
        spent.append(b)
        extras.append(c)
    model = {"version": rng.choice([1, 2, 0, 2**32 - 1]), "ins": ins, "outs": [gen_out(rng) for _ in range(n_out)],
             "locktime": rng.choice([0, 1, 5 * 10**8, 2**32 - 1, rng.getrandbits(32)]), "segwit": True}
    return model, spent, extras


def materialise(model, spent):
    from buidl.script import ScriptPubKey

    tx = build_tx(model)
    for ti, s in zip(tx.tx_ins, spent):
        ti._value = s["amount"]
        ti._script_pubkey = ScriptPubKey.parse(io.BytesIO(sh.varbytes(s["script"])))
    return tx


# ---- history driver --------------------------------------------------------------------------------------
def do_query(ctx, tx, extras, alg, index, ht):
    """Issue one digest query on the live object; the contract decides it."""
    from buidl.script import RedeemScript, WitnessScript

    n_in, n_out = len(tx.tx_ins), len(tx.tx_outs)
    ex = extras[index] if index < len(extras) else {"kind": "none"}
    kind = ex["kind"]
    if (ht & 3) == 3 and index >= n_out:
        ctx.count(f"q:{alg}:single-no-output")
    if alg == "legacy":
        ctx.count(f"q:legacy:{HT_NAME[ht]}")
        if index >= n_in:
            ctx.count("q:legacy:index-beyond-inputs")
        redeem = RedeemScript.convert(ex["redeem"]) if ex.get("redeem") and kind == "p2sh-ms" else None
        return outcome(tx.sig_hash_legacy, index, redeem, ht)
    if alg == "bip143":
        ctx.count(f"q:bip143:{HT_NAME[ht]}")
        redeem = RedeemScript.convert(ex["redeem"]) if ex.get("redeem") else None
        ws = WitnessScript.convert(ex["wscript"]) if ex.get("wscript") else None
        return outcome(tx.sig_hash_bip143, index, redeem, ws, ht)
    if alg == "bip341":
        ctx.count(f"q:bip341:{HT_NAME[ht]}")
        wit = [bytes(x) for x in tx.tx_ins[index].witness.items]
        has_annex = sh.annex_of(wit) is not None
        ext = 1 if "script" in kind else 0
        ctx.count("q:bip341:script-path" if ext else "q:bip341:key-path")
        if has_annex:
            ctx.count("q:bip341:annex")
            if (ht & 3) == 3 and index < n_out:
                ctx.count("q:bip341:annex+single")
        if (ht & 3) == 3 and index < n_out:
            ctx.count("q:bip341:single-with-output")
        return outcome(tx.sig_hash_bip341, index, ext, ht)
    if alg == "dispatch":
        ctx.count("q:dispatch:" + kind)
        return outcome(tx.sig_hash, index, ht)
    raise KeyError(alg)


def applicable_algs(kind):
    if kind in ("p2pkh", "p2sh-ms"):
        return ["legacy", "dispatch"]
    if kind in ("p2wpkh", "p2sh-p2wpkh", "p2wsh", "p2sh-p2wsh"):
        return ["bip143", "dispatch", "legacy"]
    return ["bip341", "dispatch"]


def do_edit(ctx, rng, tx, spent, extras, edit):
    """Edit the live object in place (public attributes only); keep spent/extras aligned.  Returns False if n/a."""
    from buidl.script import Script, ScriptPubKey
    from buidl.timelock import Locktime, Sequence
    from buidl.tx import TxIn, TxOut
    from buidl.witness import Witness

    if edit == "out-amount" and tx.tx_outs:
        o = rng.choice(tx.tx_outs)
        o.amount = (o.amount + rng.choice([1, 1000, 2**40])) % 2**63
    elif edit == "out-script" and tx.tx_outs:
        o = rng.choice(tx.tx_outs)
        o.script_pubkey = Script([0, rng.randbytes(20)])
    elif edit == "add-out":
        g = gen_out(rng)
        cmds, _ = tc.script_parse(g["script"])
        tx.tx_outs.append(TxOut(g["amount"], Script(cmds)))
    elif edit == "remove-out" and tx.tx_outs:
        tx.tx_outs.pop(rng.randrange(len(tx.tx_outs)))
    elif edit == "in-sequence":
        i = rng.choice(tx.tx_ins)
        i.sequence = Sequence((int(i.sequence) + rng.choice([1, 2**16])) % 2**32)
    elif edit == "in-prevout":
        i = rng.choice(tx.tx_ins)
        if rng.random() < 0.5:
            i.prev_tx = rng.randbytes(32)
        else:
            i.prev_index = (i.prev_index + 1) % 2**32
    elif edit == "add-in":
        a, b, c = gen_input(rng, rng.choice(KINDS))
        cmds, _ = tc.script_parse(a["script"])
        ti = TxIn(a["txid"], a["vout"], Script(cmds), a["sequence"])
        ti.witness = Witness(list(a["witness"]))
        ti._value = b["amount"]
        ti._script_pubkey = ScriptPubKey.parse(io.BytesIO(sh.varbytes(b["script"])))
        pos = rng.randrange(len(tx.tx_ins) + 1)
        tx.tx_ins.insert(pos, ti)
        spent.insert(pos, b)
        extras.insert(pos, c)
    elif edit == "add-default-in-then-fill-scriptsig":
        # an input created WITHOUT a ScriptSig argument (the library's default object), whose ScriptSig is then
        # filled in place the way an incremental signer does: no other script of this or of any later transaction
        # (nor the blank scripts the legacy algorithm substitutes) may pick the appended commands up
        a, b, c = gen_input(rng, "p2pkh")
        ti = TxIn(a["txid"], a["vout"])
        ti._value = b["amount"]
        ti._script_pubkey = ScriptPubKey.parse(io.BytesIO(sh.varbytes(b["script"])))
        pos = rng.randrange(len(tx.tx_ins) + 1)
        tx.tx_ins.insert(pos, ti)
        spent.insert(pos, b)
        extras.insert(pos, c)
        ti.script_sig.commands.append(b"\x30" + rng.randbytes(69) + b"\x01")
        ti.script_sig.commands.append(b"\x02" + rng.randbytes(32))
    elif edit == "remove-in" and len(tx.tx_ins) > 1:
        pos = rng.randrange(len(tx.tx_ins))
        tx.tx_ins.pop(pos)
        spent.pop(pos)
        extras.pop(pos)
    elif edit == "locktime":
        tx.locktime = Locktime((int(tx.locktime) + 1) % 2**32)
    elif edit == "version":
        tx.version = (tx.version + 1) % 2**32
    elif edit == "annex-toggle":
        cands = [k for k, e in enumerate(extras) if e["kind"].startswith("p2tr")]
        if not cands:
            return False
        k = rng.choice(cands)
        items = list(tx.tx_ins[k].witness.items)
        if sh.annex_of([bytes(x) for x in items]) is not None:
            items.pop()
        else:
            items.append(b"\x50" + rng.randbytes(rng.choice([0, 5, 40])))
        tx.tx_ins[k].witness = Witness(items)
    elif edit == "leaf-swap-in-place":
        # the script-path leaf (script, control block) replaced inside the SAME Witness object
        cands = [k for k, e in enumerate(extras) if "script" in e["kind"]]
        if not cands:
            return False
        k = rng.choice(cands)
        items = tx.tx_ins[k].witness.items
        has_annex = sh.annex_of([bytes(x) for x in items]) is not None
        new_script = tc.script_bytes([ec.b32(ec.mul(rng.randrange(1, ec.N))[0]), 0xAC])
        new_cb = bytes([0xC0 | rng.getrandbits(1)]) + ec.b32(ec.mul(rng.randrange(1, ec.N))[0]) + rng.randbytes(32)
        if has_annex:
            items[-3:-1] = [new_script, new_cb]
        else:
            items[-2:] = [new_script, new_cb]
    elif edit == "spent-amount":
        k = rng.randrange(len(tx.tx_ins))
        tx.tx_ins[k]._value = (tx.tx_ins[k]._value + 1) % 2**63
        spent[k] = {"amount": tx.tx_ins[k]._value, "script": spent[k]["script"]}
    else:
        return False
    return True


def pick_query(rng, tx, extras, force_alg=None, force_ht=None):
    idx = rng.randrange(len(tx.tx_ins))
    kind = extras[idx]["kind"]
    algs = applicable_algs(kind)
    alg = force_alg if force_alg in algs else rng.choice(algs)
    if alg == "legacy" and rng.random() < 0.08:
        idx = len(tx.tx_ins) + rng.randrange(0, 2)
    types = sh.TAPROOT_TYPES if (alg == "bip341" or (alg == "dispatch" and kind.startswith("p2tr"))) else sh.STANDARD_TYPES
    ht = force_ht if force_ht in types else rng.choice(types)
    return alg, idx, ht


def run_history(ctx, rng, plan_alg=None, plan_ht=None, plan_edit=None, kinds=None):
    model, spent, extras = gen_state(rng, kinds)
    tx = materialise(model, spent)
    steps = []
    queries = []
    n_steps = rng.randrange(3, 7)
    last_edit = None
    for s in range(n_steps):
        # shape "query, edit X, query (same query again)" is planted in the middle of every history
        if s == 1:
            edit = plan_edit or rng.choice(EDITS)
            if do_edit(ctx, rng, tx, spent, extras, edit):
                steps.append(("edit", edit))
                last_edit = edit
            continue
        if s == 2 and queries:
            alg, idx, ht = queries[-1]
            if idx < len(tx.tx_ins) or alg == "legacy":
                if alg != "legacy" and idx >= len(extras):
                    continue
                ctx.count("history:query-repeated-after-edit")
            else:
                alg, idx, ht = pick_query(rng, tx, extras, plan_alg, plan_ht)
        elif s >= 3 and rng.random() < 0.35:
            edit = rng.choice(EDITS)
            if do_edit(ctx, rng, tx, spent, extras, edit):
                steps.append(("edit", edit))
                last_edit = edit
            continue
        else:
            alg, idx, ht = pick_query(rng, tx, extras, plan_alg if s == 0 else None, plan_ht if s == 0 else None)
        if alg != "legacy" and idx >= len(tx.tx_ins):
            continue
        do_query(ctx, tx, extras, alg, idx, ht)
        if idx < len(tx.tx_ins) and (s + idx) % 3 == 0 and ctx.classes.get("history:verify-between-digests", 0) < (30 if ctx.tier == "quick" else 600):
            # "digest, verify, digest" on one object: verification is an observer - it must leave the transaction
            # (and therefore every later digest) exactly as it was
            with contracts.suspended():
                before = (model_of_tx(tx), [(i._value, script_raw_from_fields(i._script_pubkey)) for i in tx.tx_ins])
            outcome(tx.verify_input, idx)
            with contracts.suspended():
                after = (model_of_tx(tx), [(i._value, script_raw_from_fields(i._script_pubkey)) for i in tx.tx_ins])
            ctx.count("history:verify-between-digests")
            ctx.monitor("verify-is-observer")
            if before != after:
                ctx.violation("verify-input-edits-the-transaction", f"fields differ after verify_input({idx}); steps {steps}",
                              {"op": "history", "steps": steps, "model": before[0], "spent": spent})
            do_query(ctx, tx, extras, alg, idx, ht)
        if last_edit:
            ctx.count("edit-then-query:" + last_edit)
            last_edit = None
        queries.append((alg, idx, ht))
        steps.append(("query", alg, idx, HT_NAME[ht]))
    # offline part: a fresh object built from the final state must give the same digests as the used object
    with contracts.suspended():
        final_model = model_of_tx(tx)
    fresh = materialise(final_model, spent)
    for alg, idx, ht in queries[-2:]:
        if idx >= len(tx.tx_ins) and alg != "legacy":
            continue
        with contracts.suspended():
            a = do_query(_Null, tx, extras, alg, idx, ht)
            b = do_query(_Null, fresh, extras, alg, idx, ht)
        ctx.monitor("history-fresh-object-equal")
        if a[0] != b[0] or (a[0] == "ok" and a[1] != b[1]):
            ctx.violation(f"digest-depends-on-history:{alg}:{HT_NAME[ht]}", f"used object {a} fresh object {b}; steps {steps}",
                          {"op": "history", "steps": steps, "model": final_model, "spent": spent})
    if len(ctx.samples) < 4:
        ctx.sample({"history": steps, "inputs": [e["kind"] for e in extras], "n_out": len(tx.tx_outs)})


class _Null:
    @staticmethod
    def count(*a, **k):
        pass


def shards(tier, seed):
    n = 16
    q = tier == "quick"
    return [{"name": "histories", "idx": i, "n": n, "count": 400 if q else 12000, "budget_s": 900 if q else 5400} for i in range(n)]


def run_shard(desc, ctx):
    sh.selfcheck()
    install()
    rng = ctx.rng()
    idx = desc["idx"]
    # planned histories guarantee every (algorithm x hash type) pair and every edit kind in each shard's slice
    plans = []
    for a in ("legacy", "bip143", "bip341", "dispatch"):
        for h in (sh.TAPROOT_TYPES if a == "bip341" else sh.STANDARD_TYPES):
            plans.append((a, h))
    for k, (a, h) in enumerate(plans):
        if k % desc["n"] == idx % desc["n"] or ctx.tier == "thorough":
            kinds = {"legacy": ["p2pkh", "p2sh-ms"], "bip143": ["p2wpkh", "p2wsh", "p2sh-p2wpkh", "p2sh-p2wsh"], "bip341": ["p2tr-key", "p2tr-script-annex", "p2tr-key-annex", "p2tr-script"], "dispatch": None}[a]
            for e in EDITS[(k + idx) % 3 :: 3]:
                run_history(ctx, rng, a, h, e, kinds if e != "leaf-swap-in-place" else ["p2tr-script", "p2tr-script-annex"])
    for k, kind in enumerate(KINDS):
        run_history(ctx, rng, "dispatch", None, EDITS[(k + idx) % len(EDITS)], [kind])
    for _ in range(desc["count"]):
        if ctx.out_of_time():
            return
        run_history(ctx, rng)


def replay(case, ctx):
    sh.selfcheck()
    install()
    if case.get("op") == "query":
        model, spent = case["model"], case["spent"]
        tx = materialise(model, spent)
        from buidl.script import Script

        alg, idx, ht = case["alg"], case["index"], case["ht"]
        if alg == "legacy":
            code = case.get("code")
            redeem = None
            if code and idx < len(spent) and code != spent[idx]["script"]:
                redeem = Script(tc.script_parse(code)[0])
            outcome(tx.sig_hash_legacy, idx, redeem, ht)
        elif alg == "bip143":
            code = case["code"]
            kind = sh.classify_spk(spent[idx]["script"])
            ws = Script(tc.script_parse(code)[0]) if kind == "p2wsh" or (kind == "p2sh" and len(model["ins"][idx]["witness"]) and model["ins"][idx]["witness"][-1] == code) else None
            redeem = None
            if ws is None and kind == "p2sh":
                redeem = Script(tc.script_parse(sh.last_push(model["ins"][idx]["script"]))[0])
            outcome(tx.sig_hash_bip143, idx, redeem, ws, ht)
        elif alg == "bip341":
            outcome(tx.sig_hash_bip341, idx, case.get("ext", 0), ht)
        else:
            outcome(tx.sig_hash, idx, ht)
    else:
        run_history(ctx, ctx.rng("replay"))
