"""Wallets, funding transactions and PSBTs built through the library's public API (shared by C10 / C11).

Everything here is workload construction; the oracles live in c10.py / c11.py and in /verif/ref.
"""
import io

KINDS_SINGLE = ["p2pkh", "p2wpkh", "p2sh-p2wpkh"]
KINDS_MULTI = ["p2sh", "p2wsh", "p2sh-p2wsh"]


class Wallet:
    def __init__(self, rng, kind, m=1, n=1, network="mainnet", account_path=None):
        from buidl.hd import HDPrivateKey
        from buidl.psbt import NamedHDPublicKey

        self.kind, self.m, self.n, self.network = kind, m, n, network
        coin = "0'" if network == "mainnet" else "1'"
        if account_path is not None:
            self.account_path = account_path
        elif kind in KINDS_MULTI:
            self.account_path = f"m/48'/{coin}/0'/2'"
        else:
            self.account_path = {"p2pkh": f"m/44'/{coin}/0'", "p2wpkh": f"m/84'/{coin}/0'", "p2sh-p2wpkh": f"m/49'/{coin}/0'"}[kind]
        self.seeds = [rng.randbytes(32) for _ in range(n)]
        self.roots = [HDPrivateKey.from_seed(s, network=network) for s in self.seeds]
        self.accounts = [NamedHDPublicKey.from_hd_priv(r, self.account_path) for r in self.roots]
        self.xfps = [r.fingerprint().hex() for r in self.roots]
        self._cache = {}

    def children(self, branch, idx):
        key = (branch, idx)
        if key not in self._cache:
            self._cache[key] = [a.child(branch).child(idx) for a in self.accounts]
        return self._cache[key]

    def scripts(self, branch, idx):
        """(script_pubkey, redeem_script | None, witness_script | None, children)"""
        from buidl.script import RedeemScript, WitnessScript

        ch = self.children(branch, idx)
        if self.kind == "p2pkh":
            return ch[0].point.p2pkh_script(), None, None, ch
        if self.kind == "p2wpkh":
            return ch[0].point.p2wpkh_script(), None, None, ch
        if self.kind == "p2sh-p2wpkh":
            redeem = ch[0].point.p2sh_p2wpkh_redeem_script()
            return redeem.script_pubkey(), redeem, None, ch
        secs = sorted(c.sec() for c in ch)
        cmds = [0x50 + self.m] + secs + [0x50 + self.n, 0xAE]
        if self.kind == "p2sh":
            redeem = RedeemScript(cmds)
            return redeem.script_pubkey(), redeem, None, ch
        ws = WitnessScript(cmds)
        if self.kind == "p2wsh":
            return ws.script_pubkey(), None, ws, ch
        redeem = ws.script_pubkey().redeem_script()
        return redeem.script_pubkey(), redeem, ws, ch

    def path_of(self, branch, idx):
        return f"{self.account_path}/{branch}/{idx}"


def foreign_script(rng):
    from buidl.script import P2PKHScriptPubKey, P2SHScriptPubKey, P2WPKHScriptPubKey, P2WSHScriptPubKey

    return rng.choice([
        lambda: P2PKHScriptPubKey(rng.randbytes(20)), lambda: P2WPKHScriptPubKey(rng.randbytes(20)),
        lambda: P2SHScriptPubKey(rng.randbytes(20)), lambda: P2WSHScriptPubKey(rng.randbytes(32)),
    ])()


class Scenario:
    """One spend from a wallet: funding txs, unsigned tx, lookups, ground truth."""

    def __init__(self, rng, wallet, n_in=1, n_spend=1, with_change=True, segwit_flag=False, fee=None, shared_prev=False):
        from buidl.tx import Tx, TxIn, TxOut

        self.wallet = wallet
        w = wallet
        self.tx_lookup, self.pubkey_lookup, self.redeem_lookup, self.witness_lookup = {}, {}, {}, {}
        self.input_sats = []
        tx_ins = []
        self.funding = []
        if shared_prev and n_in >= 2:
            # inputs 0 and 1 spend two different outputs (different amounts, different wallet addresses) of ONE
            # previous transaction: anything keyed by the previous txid instead of the outpoint confuses them
            outs, metas = [], []
            for k in range(2):
                idx = rng.randrange(0, 50)
                spk, redeem, ws, ch = w.scripts(0, idx)
                self._register(spk, redeem, ws, ch)
                sats = rng.randrange(200_000, 5_000_000) + k * 7_000_001
                outs.append(TxOut(sats, spk))
                metas.append((sats, idx))
            outs.insert(1, TxOut(rng.randrange(1000, 90000), foreign_script(rng)))
            prev = Tx(1, [TxIn(rng.randbytes(32), rng.randrange(3))], outs, 0, network=w.network, segwit=False)
            self.tx_lookup[prev.hash()] = prev
            for vout, (sats, idx) in zip((0, 2), metas):
                self.funding.append((prev, vout, sats, (0, idx)))
                tx_ins.append(TxIn(prev.hash(), vout))
                self.input_sats.append(sats)
        for k in range(len(tx_ins), n_in):
            idx = rng.randrange(0, 50)
            spk, redeem, ws, ch = w.scripts(0, idx)
            self._register(spk, redeem, ws, ch)
            sats = rng.randrange(200_000, 5_000_000)
            vout = rng.randrange(0, 2)
            outs = [TxOut(rng.randrange(1000, 90000), foreign_script(rng)) for _ in range(vout)] + [TxOut(sats, spk)]
            prev = Tx(1, [TxIn(rng.randbytes(32), rng.randrange(3))], outs, 0, network=w.network, segwit=False)
            self.funding.append((prev, vout, sats, (0, idx)))
            self.tx_lookup[prev.hash()] = prev
            tx_ins.append(TxIn(prev.hash(), vout))
            self.input_sats.append(sats)
        total = sum(self.input_sats)
        self.fee = fee if fee is not None else rng.randrange(2000, 9000)
        budget = total - self.fee
        self.outputs = []  # (sats, script_pubkey, is_true_change, (branch, idx) | None)
        tx_outs = []
        parts = n_spend + (1 if with_change else 0)
        cuts = sorted(rng.sample(range(1000, budget - 1000), parts - 1)) if parts > 1 else []
        amounts = [b - a for a, b in zip([0] + cuts, cuts + [budget])]
        for k in range(n_spend):
            spk = foreign_script(rng)
            tx_outs.append(TxOut(amounts[k], spk))
            self.outputs.append((amounts[k], spk, False, None))
        if with_change:
            cidx = rng.randrange(0, 50)
            spk, redeem, ws, ch = w.scripts(1, cidx)
            self._register(spk, redeem, ws, ch)
            pos = rng.randrange(len(tx_outs) + 1)
            tx_outs.insert(pos, TxOut(amounts[-1], spk))
            self.outputs.insert(pos, (amounts[-1], spk, True, (1, cidx)))
        self.tx = Tx(rng.choice([1, 2]), tx_ins, tx_outs, 0, network=w.network, segwit=segwit_flag)
        self.hd_pubs = {a.raw_serialize(): a for a in w.accounts}

    def _register(self, spk, redeem, ws, ch):
        for c in ch:
            self.pubkey_lookup[c.sec()] = c
            self.pubkey_lookup[c.hash160()] = c
        if redeem is not None:
            self.redeem_lookup[redeem.hash160()] = redeem
        if ws is not None:
            self.witness_lookup[ws.sha256()] = ws

    def create_psbt(self, with_xpubs=True):
        from buidl.psbt import PSBT

        return PSBT.create(
            self.tx, validate=True, tx_lookup=self.tx_lookup, pubkey_lookup=self.pubkey_lookup,
            redeem_lookup=self.redeem_lookup, witness_lookup=self.witness_lookup,
            hd_pubs=dict(self.hd_pubs) if with_xpubs else {},
        )


def reparse(psbt_bytes, network):
    from buidl.psbt import PSBT

    return PSBT.parse(io.BytesIO(psbt_bytes), network=network)
