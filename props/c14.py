"""C14 - BIP39 mnemonics encode entropy+checksum exactly; seeds and master keys follow PBKDF2/BIP32.

Monitors (contracts on the real functions, see vmon.contracts):
  bytes_to_mnemonic            words == reference BIP39 encoding of the entropy
  mnemonic_to_bytes            accepted <=> reference says (valid length, all tokens are words or
                               unique four-letter prefixes, checksum matches); bytes == entropy
  hmac_sha512_kdf              == hashlib PBKDF2-HMAC-SHA512, 2048 rounds, 64 bytes
  PBKDF2.read (+ __init__)     every read, also split reads, == the same slice of hashlib.pbkdf2_hmac
  HDPrivateKey.from_seed       (secret, chain code) == HMAC-SHA512("Bitcoin seed", seed)
  HDPrivateKey.from_mnemonic   invalid sentences raise; valid ones give the reference seed -> master
                               key -> Base58Check xprv/tprv
Boundary monitors: word-list invariants (list == canonical list; acceptance of every token of
1..8 letters that is a prefix of a word, of all 26^4 four-letter strings, normalize()), the set of
accepted last words for a fixed head (must be exactly the 128/64/32/16/8 the reference constructs),
encode/decode round trip, secure_mnemonic output.
"""
import hashlib
import weakref

from ref import bip39 as ref
from vmon import contracts
from vmon.core import outcome

PROPERTY_ID = "C14"
RULE = (
    "cases = (entropy) through bytes_to_mnemonic, (token sequence) through mnemonic_to_bytes [valid phrases, all 2048 "
    "last-word replacements of sampled phrases, random word sequences of length 0..26, four-letter-prefix / fragment / "
    "case / whitespace variants], (mnemonic, passphrase, network) through HDPrivateKey.from_mnemonic, (msg, salt) through "
    "hmac_sha512_kdf, (hash, password, salt, iterations, read sizes) through PBKDF2.read, tokens through the word list; "
    "each is decided by a contract on the real function comparing with the reference (BIP39 from the spec, "
    "hashlib.pbkdf2_hmac, BIP32 master serialisation); distinct = distinct concrete inputs by hash; non-trivial = the "
    "reference verdict/value was computed and compared with what the library returned or raised"
)
ASSUMPTIONS = [
    "passphrases are byte strings (the library's from_mnemonic takes bytes); mnemonic sentences are ASCII so NFKD normalisation is the identity",
    "a master key with IL = 0 or IL >= n (probability 2^-127) is unobservable and not claimed",
    "tokens longer than four letters that are proper prefixes of a word, upper-case tokens and unknown tokens are not words of the list: the reference rejects them (the library does too)",
    "the 2048 words are read from the repository file as data; the file must have the sha256 of the canonical bips english.txt and the BIP39 structural invariants, otherwise the check reports a violation",
]

SIZES = (16, 20, 24, 28, 32)
NWORDS = {16: 12, 20: 15, 24: 18, 28: 21, 32: 24}
PASS_CLASSES = ("empty", "ascii", "non-ascii", "long>128", "nul-bytes")
HASHES = ("sha1", "sha256", "sha512")

GATES = {
    "encode-monitor-ran": ["bytes_to_mnemonic"],
    "decode-monitor-ran": ["mnemonic_to_bytes"],
    "kdf-monitor-ran": ["hmac_sha512_kdf"],
    "pbkdf2-monitor-ran": ["PBKDF2.read"],
    "from-mnemonic-monitor-ran": ["HDPrivateKey.from_mnemonic", "HDPrivateKey.from_seed"],
    "wordlist-monitor-ran": ["wordlist", "wordlist:all-4-letter-strings", "wordlist:normalize"],
    "entropy-sizes-encoded": ["encode:%d" % (8 * s) for s in SIZES],
    "entropy-sizes-decoded": ["decode:valid:%dw" % NWORDS[s] for s in SIZES],
    "entropy-patterns": ["entropy:zeros", "entropy:ones", "entropy:random", "entropy:leading-zero-byte"],
    "decode-rejection-classes": ["decode:rejected:bad-checksum", "decode:rejected:bad-length", "decode:rejected:unknown-token"],
    "last-word-sets": ["lastword:%dw" % NWORDS[s] for s in SIZES],
    "random-sequences": ["randseq:valid-length", "randseq:invalid-length", "randseq:accepted-by-chance"],
    "token-forms": ["form:all-prefix", "form:mixed-prefix", "form:fragment<4", "form:prefix>4", "form:uppercase", "form:whitespace"],
    "seed-sizes": ["seed:%dw" % NWORDS[s] for s in SIZES],
    "seed-passphrases": ["pass:" + p for p in PASS_CLASSES],
    "seed-forms": ["seed:prefix-form", "seed:full-words", "seed:testnet", "seed:negative"],
    "pbkdf2-hashes": ["pbkdf2:" + h for h in HASHES],
    "pbkdf2-reads": ["pbkdf2:multi-block-read", "pbkdf2:split-read", "pbkdf2:read-across-boundary", "pbkdf2:key>block", "pbkdf2:str-args", "pbkdf2:iterations=1", "pbkdf2:iterations>1"],
    "spec-vectors": ["vectors:trezor", "vectors:rfc6070"],
    "secure-mnemonic": ["secure:%d" % (8 * s) for s in SIZES],
    "repo-tests-under-contracts": {"quick": [], "thorough": ["repotests:ran"]},
}

_state = {"tag": None}
_pb = weakref.WeakKeyDictionary()


def anchors():
    from buidl import hd, helper, mnemonic, pbkdf2

    return [
        mnemonic.bytes_to_mnemonic,
        mnemonic.mnemonic_to_bytes,
        mnemonic.secure_mnemonic,
        mnemonic.WordList.__init__,
        mnemonic.WordList.__getitem__,
        helper.hmac_sha512_kdf,
        pbkdf2.PBKDF2.read,
        pbkdf2.PBKDF2.__dict__["_PBKDF2__f"],
        hd.HDPrivateKey.__dict__["from_mnemonic"],
        hd.HDPrivateKey.__dict__["from_seed"],
    ]


# ---- contracts ---------------------------------------------------------------------------
def _arg(args, kwargs, pos, name, default=None):
    if len(args) > pos:
        return args[pos]
    return kwargs.get(name, default)


def post_encode(args, kwargs, pre, out):
    ctx = contracts.ctx()
    b = _arg(args, kwargs, 0, "b")
    num_bits = _arg(args, kwargs, 1, "num_bits")
    if not (isinstance(b, (bytes, bytearray)) and isinstance(num_bits, int) and len(b) in SIZES and len(b) * 8 == num_bits):
        return NotImplemented  # outside the quantifier (entropy of 128..256 bits with its own length)
    b = bytes(b)
    case = {"op": "encode", "entropy": b}
    ctx.count("encode:%d" % num_bits)
    exp = ref.entropy_to_mnemonic(b)
    if out[0] == "exc":
        ctx.violation("encode-raises", f"bytes_to_mnemonic raised {out[1]!r}", case)
    elif out[1] != exp:
        got = out[1].split() if isinstance(out[1], str) else []
        mech = "encode-wrong-checksum-word" if got[:-1] == exp.split()[:-1] and len(got) == len(exp.split()) else "encode-wrong-words"
        ctx.violation(mech, f"got {out[1]!r} expected {exp!r}", case)
    ctx.case(case)


def _form(tokens):
    idx = ref.word_index()
    return "full" if all(t in idx for t in tokens) else "non-full"


def post_decode(args, kwargs, pre, out):
    ctx = contracts.ctx()
    m = _arg(args, kwargs, 0, "mnemonic")
    if not isinstance(m, str):
        return NotImplemented
    tokens = m.split()
    verdict, ent, idx = ref.classify(tokens)
    case = {"op": "decode", "mnemonic": m, "tag": _state["tag"]}
    if out[0] == "ok":
        if verdict != "valid":
            ctx.violation("decode-accepts-invalid:" + verdict, f"returned {out[1]!r} for a {len(tokens)}-token sequence the reference rejects ({verdict})", case)
        elif out[1] != ent:
            ctx.violation("decode-wrong-bytes", f"got {out[1]!r} expected {ent.hex()}", case)
        else:
            ctx.count("decode:valid:%dw" % len(tokens))
    else:
        if verdict == "valid":
            ctx.violation("decode-rejects-valid:" + _form(tokens), f"raised {out[1]!r} on a valid {len(tokens)}-word sequence", case)
        else:
            ctx.rejected_by_exception += 1
            ctx.count("decode:rejected:" + verdict)
    ctx.case(case)


def _b(x):
    return x.encode("utf-8") if isinstance(x, str) else bytes(x)


def post_kdf(args, kwargs, pre, out):
    ctx = contracts.ctx()
    msg = _arg(args, kwargs, 0, "msg")
    salt = _arg(args, kwargs, 1, "salt")
    if not (isinstance(msg, (str, bytes)) and isinstance(salt, (str, bytes))):
        return NotImplemented
    case = {"op": "kdf", "msg": _b(msg), "salt": _b(salt), "msg_is_str": isinstance(msg, str)}
    exp = hashlib.pbkdf2_hmac("sha512", _b(msg), _b(salt), 2048, 64)
    if out[0] == "exc":
        ctx.violation("kdf-raises", f"hmac_sha512_kdf raised {out[1]!r}", case)
    elif out[1] != exp:
        ctx.violation("kdf-differs-from-pbkdf2-hmac-sha512-2048", f"got {bytes(out[1]).hex()[:32]}.. expected {exp.hex()[:32]}..", case)
    ctx.case(case)


def post_pb_init(args, kwargs, pre, out):
    import hmac as _hmac

    if out[0] != "ok":
        return NotImplemented
    self = args[0]
    pw = _arg(args, kwargs, 1, "passphrase")
    salt = _arg(args, kwargs, 2, "salt")
    it = _arg(args, kwargs, 3, "iterations", 1000)
    dm = _arg(args, kwargs, 4, "digestmodule", hashlib.sha1)
    mm = _arg(args, kwargs, 5, "macmodule", _hmac)
    if mm is not _hmac:
        return NotImplemented
    try:
        name = dm if isinstance(dm, str) else dm().name
        hashlib.new(name)
    except Exception:  # noqa: BLE001 - unknown digest: reads of this object are not judged
        return NotImplemented
    _pb[self] = {"pw": _b(pw), "salt": _b(salt), "it": it, "hash": name, "off": 0, "reads": [], "str": isinstance(pw, str) or isinstance(salt, str)}
    return NotImplemented  # bookkeeping only, not an oracle comparison


def post_pb_read(args, kwargs, pre, out):
    ctx = contracts.ctx()
    self = args[0]
    n = _arg(args, kwargs, 1, "bytes")
    p = _pb.get(self)
    if p is None or not isinstance(n, int) or isinstance(n, bool) or n < 0:
        return NotImplemented
    if out[0] == "exc" and getattr(self, "closed", False):
        return NotImplemented
    off = p["off"]
    reads = p["reads"] + [n]
    case = {"op": "pbkdf2", "hash": p["hash"], "pw": p["pw"], "salt": p["salt"], "it": p["it"], "reads": reads, "str": p["str"]}
    if out[0] == "exc":
        ctx.violation("pbkdf2-read-raises", f"read({n}) at offset {off} raised {out[1]!r}", case)
        return
    hlen = hashlib.new(p["hash"]).digest_size
    exp = hashlib.pbkdf2_hmac(p["hash"], p["pw"], p["salt"], p["it"], off + n)[off:] if n else b""
    if out[1] != exp:
        if off == 0 and bytes(out[1][:hlen]) != exp[:hlen]:
            mech = "pbkdf2-first-block-differs"
        elif off == 0:
            mech = "pbkdf2-later-block-differs"
        else:
            mech = "pbkdf2-split-read-differs"
        ctx.violation(mech + ":" + p["hash"], f"read({n}) at offset {off}: got {bytes(out[1]).hex()[:40]}.. expected {exp.hex()[:40]}..", case)
    p["off"] = off + n
    p["reads"] = reads
    ctx.count("pbkdf2:" + p["hash"])
    if n > hlen:
        ctx.count("pbkdf2:multi-block-read")
    if off:
        ctx.count("pbkdf2:split-read")
    if n and off // hlen != (off + n - 1) // hlen:
        ctx.count("pbkdf2:read-across-boundary")
    if len(p["pw"]) > hashlib.new(p["hash"]).block_size:
        ctx.count("pbkdf2:key>block")
    if p["str"]:
        ctx.count("pbkdf2:str-args")
    ctx.count("pbkdf2:iterations=1" if p["it"] == 1 else "pbkdf2:iterations>1")
    ctx.case(case)


def post_from_seed(args, kwargs, pre, out):
    ctx = contracts.ctx()
    seed = _arg(args, kwargs, 1, "seed")
    if not isinstance(seed, (bytes, bytearray)):
        return NotImplemented
    case = {"op": "from_seed", "seed": bytes(seed)}
    try:
        secret, chain = ref.master_from_seed(bytes(seed))
    except ValueError:
        return NotImplemented
    if out[0] == "exc":
        ctx.violation("from-seed-raises", f"from_seed raised {out[1]!r}", case)
    else:
        got = (getattr(getattr(out[1], "private_key", None), "secret", None), getattr(out[1], "chain_code", None))
        if got != (secret, chain):
            ctx.violation("from-seed-master-key-differs", f"got secret={got[0]!r} chain={got[1]!r}", case)
    ctx.case(case)


TPRV_NETWORKS = ("testnet", "signet", "regtest")


def post_from_mnemonic(args, kwargs, pre, out):
    ctx = contracts.ctx()
    m = _arg(args, kwargs, 1, "mnemonic")
    password = _arg(args, kwargs, 2, "password", b"")
    path = _arg(args, kwargs, 3, "path", "m")
    network = _arg(args, kwargs, 4, "network", "mainnet")
    pv = _arg(args, kwargs, 5, "priv_version")
    if not (isinstance(m, str) and isinstance(password, (bytes, bytearray)) and path == "m" and pv is None and network in ("mainnet",) + TPRV_NETWORKS):
        return NotImplemented
    password = bytes(password)
    tokens = m.split()
    verdict, ent, idx = ref.classify(tokens)
    case = {"op": "from_mnemonic", "mnemonic": m, "password": password, "network": network}
    if out[0] == "exc":
        if verdict == "valid":
            ctx.violation("from-mnemonic-rejects-valid:" + _form(tokens), f"raised {out[1]!r}", case)
        else:
            ctx.rejected_by_exception += 1
            ctx.count("from_mnemonic:rejected:" + verdict)
        ctx.case(case)
        return
    if verdict != "valid":
        ctx.violation("from-mnemonic-accepts-invalid:" + verdict, f"returned a key for a sequence the reference rejects ({verdict})", case)
        ctx.case(case)
        return
    seed = ref.seed(ref.normalize(tokens), password)
    secret, chain = ref.master_from_seed(seed)
    key = out[1]
    got = (getattr(getattr(key, "private_key", None), "secret", None), getattr(key, "chain_code", None))
    if got != (secret, chain):
        ctx.violation(
            "from-mnemonic-master-key-differs:" + _form(tokens),
            f"master secret/chain code differ from PBKDF2-HMAC-SHA512(2048, 'mnemonic'+passphrase) -> HMAC-SHA512('Bitcoin seed')",
            case,
        )
    else:
        version = ref.XPRV_MAINNET if network == "mainnet" else ref.XPRV_TESTNET
        exp = ref.xprv_from_seed(seed, version)
        o = outcome(key.xprv)
        if o != ("ok", exp):
            ctx.violation("from-mnemonic-xprv-serialisation-differs", f"xprv() gave {o[1]!r} expected {exp}", case)
    ctx.count("seed:%dw" % len(tokens))
    ctx.count("seed:full-words" if _form(tokens) == "full" else "seed:prefix-form")
    if network != "mainnet":
        ctx.count("seed:testnet")
    ctx.case(case)


def install():
    from buidl import hd, helper, mnemonic, pbkdf2, shamir  # noqa: F401 - load every aliasing module first

    contracts.install(mnemonic, "bytes_to_mnemonic", post_encode)
    contracts.install(mnemonic, "mnemonic_to_bytes", post_decode)
    contracts.install(helper, "hmac_sha512_kdf", post_kdf)
    contracts.install(pbkdf2.PBKDF2, "__init__", post_pb_init)
    contracts.install(pbkdf2.PBKDF2, "read", post_pb_read)
    contracts.install(hd.HDPrivateKey, "from_seed", post_from_seed)
    contracts.install(hd.HDPrivateKey, "from_mnemonic", post_from_mnemonic)


# ---- workload ----------------------------------------------------------------------------
COUNTS = {
    #            roundtrips  lastword-heads/size  randseq  forms  seeds  kdf  pbkdf2  secure
    "quick": dict(rt=1500, heads=1, randseq=2500, forms=300, seeds=150, kdf=60, pb=250, secure=10),
    "thorough": dict(rt=40000, heads=10, randseq=60000, forms=6000, seeds=3000, kdf=2500, pb=6000, secure=200),
}


def shards(tier, seed):
    n = 16
    out = [{"name": "mix", "idx": i, "n": n, "budget_s": 1200 if tier == "quick" else 6600} for i in range(n)]
    if tier == "thorough":
        out.append({"name": "repotests", "idx": 0, "n": 1, "budget_s": 6600})
    return out


def rand_bytes(rng, n):
    return bytes(rng.getrandbits(8) for _ in range(n))


def entropy_for(ctx, rng, size, j):
    """Deterministic pattern cycle: zeros, ones, leading zero byte, 7f/80 patterns, random."""
    k = j % 8
    if k == 0:
        ctx.count("entropy:zeros")
        return bytes(size)
    if k == 1:
        ctx.count("entropy:ones")
        return b"\xff" * size
    if k == 2:
        ctx.count("entropy:leading-zero-byte")
        z = rng.randrange(1, 4)
        return b"\x00" * z + rand_bytes(rng, size - z - 2) + b"\x00" * 2
    if k == 3:
        return bytes([rng.choice((0x7F, 0x80, 0x01, 0xFE))]) * size
    ctx.count("entropy:random")
    return rand_bytes(rng, size)


def passphrase_for(ctx, rng, j):
    cls = PASS_CLASSES[j % len(PASS_CLASSES)]
    ctx.count("pass:" + cls)
    if cls == "empty":
        return b""
    if cls == "ascii":
        return rng.choice([b"TREZOR", b"correct horse battery staple", bytes(rng.randrange(0x20, 0x7F) for _ in range(rng.randrange(1, 40)))])
    if cls == "non-ascii":
        return rng.choice(["パスワード".encode("utf-8"), "pässwörd ñ".encode("utf-8"), bytes(rng.randrange(0x80, 0x100) for _ in range(rng.randrange(1, 40)))])
    if cls == "long>128":
        return rand_bytes(rng, rng.randrange(129, 400))
    return b"\x00" + rand_bytes(rng, rng.randrange(0, 20)) + b"\x00"


def check_wordlist(ctx, idx, n):
    """Structural invariants of the library's word list against the canonical one."""
    from buidl.mnemonic import BIP39

    words = ref.words()
    if idx == 0:
        ctx.monitor("wordlist")
        if list(BIP39.words) != words:
            ctx.violation("wordlist-differs-from-canonical", "BIP39.words is not the canonical list", {"op": "wordlist"})
        for i, w in enumerate(words):
            ctx.monitor("wordlist")
            if outcome(BIP39.__getitem__, i) != ("ok", w) or outcome(BIP39.__getitem__, w) != ("ok", i):
                ctx.violation("wordlist-index-lookup-wrong", f"index {i} / word {w!r}", {"op": "wordlist-token", "token": w})
        ctx.exhaustive.append("word list: all 2048 index<->word look-ups")
    # every proper prefix (1..7 letters) of every word and every word: accepted <=> reference resolves it, same index
    frags = set()
    for w in words:
        for ln in range(1, len(w) + 1):
            frags.add(w[:ln])
    frags = sorted(frags)
    for j, t in enumerate(frags):
        if j % n != idx:
            continue
        _token(ctx, BIP39, t, "wordlist")
    if idx == 0:
        ctx.exhaustive.append("word list: every prefix (1..8 letters) of every word")
    # all 26^4 four-letter strings, split by first letter over the shards
    letters = "abcdefghijklmnopqrstuvwxyz"
    for a in letters[idx::n]:
        for b in letters:
            for c in letters:
                for d in letters:
                    _token(ctx, BIP39, a + b + c + d, "wordlist:all-4-letter-strings", register=False)
    ctx.exhaustive.append("word list: all four-letter strings starting with " + "/".join(letters[idx::n]))
    # normalize() as used by from_mnemonic
    for j, w in enumerate(words):
        if j % n != idx:
            continue
        for t in (w, w[:4], w.upper(), w[:4].capitalize()):
            ctx.monitor("wordlist:normalize")
            if outcome(BIP39.normalize, t) != ("ok", w):
                ctx.violation("wordlist-normalize-wrong", f"normalize({t!r}) != {w!r}", {"op": "wordlist-normalize", "token": t})


def _token(ctx, BIP39, t, label, register=True):
    ctx.monitor(label)
    exp = ref.resolve(t)
    o = outcome(BIP39.__getitem__, t)
    if exp is None:
        if o[0] == "ok":
            ctx.violation("wordlist-accepts-non-word", f"token {t!r} -> {o[1]!r}, not a word nor a unique four-letter prefix", {"op": "wordlist-token", "token": t})
    elif o != ("ok", exp):
        ctx.violation("wordlist-lookup-wrong" if o[0] == "ok" else "wordlist-rejects-word-or-prefix", f"token {t!r} -> {o!r}, expected index {exp}", {"op": "wordlist-token", "token": t})
    if register:
        ctx.case({"op": "wordlist-token", "token": t})


def roundtrips(ctx, rng, count):
    from buidl.mnemonic import bytes_to_mnemonic, mnemonic_to_bytes

    phrases = {s: [] for s in SIZES}
    for j in range(count):
        size = SIZES[j % 5]
        ent = entropy_for(ctx, rng, size, j // 5)
        _state["tag"] = "roundtrip"
        o = outcome(bytes_to_mnemonic, ent, size * 8)
        if o[0] != "ok" or not isinstance(o[1], str):
            continue
        o2 = outcome(mnemonic_to_bytes, o[1])
        ctx.monitor("roundtrip")
        if o2 != ("ok", ent):
            ctx.violation("roundtrip-not-identity", f"mnemonic_to_bytes(bytes_to_mnemonic(e)) = {o2!r}", {"op": "encode", "entropy": ent})
        if len(phrases[size]) < 64:
            phrases[size].append(o[1])
        if j < 10:
            ctx.sample({"entropy": ent, "mnemonic": o[1]})
    _state["tag"] = None
    return phrases


def last_word_sets(ctx, rng, heads):
    """For a head of n-1 words, all 2048 last words: the accepted ones must be exactly the set the
    reference constructs (128/64/32/16/8 words)."""
    from buidl.mnemonic import mnemonic_to_bytes

    words = ref.words()
    for size in SIZES:
        n = NWORDS[size]
        for h in range(heads):
            head = [rng.randrange(2048) for _ in range(n - 1)]
            if h == 0 and ctx.desc["idx"] % 4 == 0:
                head = [[0, 2047, 1024, 3][(ctx.desc["idx"] // 4) % 4]] * (n - 1)
            short = h % 2 == 1  # every other head in four-letter form
            toks = [words[i][:4] if short else words[i] for i in head]
            prefix = " ".join(toks) + " "
            accepted = set()
            _state["tag"] = "lastword"
            for i, w in enumerate(words):
                o = outcome(mnemonic_to_bytes, prefix + (w[:4] if short else w))
                if o[0] == "ok":
                    accepted.add(i)
            _state["tag"] = None
            exp = ref.valid_last_indices(head)
            ctx.monitor("lastword")
            ctx.count("lastword:%dw" % n)
            case = {"op": "lastword", "head": toks}
            if accepted != exp or len(accepted) != 1 << (11 - n // 3):
                extra, missing = sorted(accepted - exp), sorted(exp - accepted)
                mech = "last-word-set-too-large" if extra else "last-word-set-too-small"
                ctx.violation(mech + ":%dw" % n, f"{len(accepted)} accepted, expected {len(exp)}; extra={extra[:5]} missing={missing[:5]}", case)
            ctx.case(case)
    ctx.exhaustive.append("all 2048 last-word replacements of each sampled head, every word count")


LENGTHS = list(range(0, 27))


def random_sequences(ctx, rng, count):
    from buidl.mnemonic import mnemonic_to_bytes

    words = ref.words()
    for j in range(count):
        # half of the cases on the five valid lengths (so that chance acceptances, 1/16..1/256, occur)
        n = (12, 15, 18, 21, 24)[j % 5] if j % 2 == 0 else LENGTHS[(j // 2) % len(LENGTHS)]
        toks = [words[rng.randrange(2048)] for _ in range(n)]
        m = " ".join(toks)
        _state["tag"] = "randseq"
        o = outcome(mnemonic_to_bytes, m)
        ctx.count("randseq:valid-length" if n in ref.WORDS_TO_ENT else "randseq:invalid-length")
        if o[0] == "ok":
            ctx.count("randseq:accepted-by-chance")
    _state["tag"] = None


def token_forms(ctx, rng, phrases, count):
    """Variants of valid phrases: four-letter prefixes (all / some), fragments shorter than four
    letters, prefixes longer than four letters, upper case, whitespace variants."""
    from buidl.mnemonic import mnemonic_to_bytes

    index = ref.word_index()
    kinds = ("all-prefix", "mixed-prefix", "fragment<4", "prefix>4", "uppercase", "whitespace")
    for j in range(count):
        size = SIZES[j % 5]
        pool = phrases.get(size) or []
        if not pool:
            continue
        toks = rng.choice(pool).split()
        kind = kinds[(j // 5) % len(kinds)]
        if kind == "all-prefix":
            toks = [t[:4] for t in toks]
        elif kind == "mixed-prefix":
            toks = [t[:4] if rng.random() < 0.5 else t for t in toks]
        elif kind == "fragment<4":
            p = rng.randrange(len(toks))
            toks[p] = toks[p][: rng.randrange(1, 4)]
            # a fragment may itself be a word of the list ("add", "bar"): then the reference decides by checksum
        elif kind == "prefix>4":
            cand = [i for i, t in enumerate(toks) if len(t) > 5]
            if not cand:
                continue
            p = rng.choice(cand)
            toks[p] = toks[p][: rng.randrange(5, len(toks[p]))]
            if toks[p] in index:
                continue
        elif kind == "uppercase":
            p = rng.randrange(len(toks))
            toks[p] = toks[p].upper() if rng.random() < 0.5 else toks[p].capitalize()
        m = " ".join(toks)
        if kind == "whitespace":
            sep = rng.choice(["  ", "\t", "\n", " \n "])
            m = rng.choice(["", " ", "\n"]) + sep.join(toks) + rng.choice(["", " ", "\n"])
        ctx.count("form:" + kind)
        _state["tag"] = "form:" + kind
        outcome(mnemonic_to_bytes, m)
    _state["tag"] = None


def seeds(ctx, rng, phrases, count):
    from buidl.hd import HDPrivateKey

    words = ref.words()
    for j in range(count):
        size = SIZES[j % 5]
        pool = phrases.get(size) or []
        if not pool:
            continue
        m = pool[(j // 5) % len(pool)] if j < 5 * len(pool) else ref.entropy_to_mnemonic(rand_bytes(rng, size))
        toks = m.split()
        form = (j // 5) % 4
        if form == 1:
            toks = [t[:4] for t in toks]
        elif form == 2:
            toks = [t[:4] if rng.random() < 0.5 else t for t in toks]
        text = " ".join(toks) if form != 3 else "  ".join(toks) + "\n"
        pw = passphrase_for(ctx, rng, j // 7)
        network = "mainnet" if j % 11 else rng.choice(TPRV_NETWORKS)
        _state["tag"] = "seed"
        outcome(HDPrivateKey.from_mnemonic, text, pw, network=network)
        if j < 3:
            ctx.sample({"mnemonic": text, "passphrase": pw, "network": network})
        if j % 3 == 0:
            # negatives through the same entry point: an acceptance is the refuting event (cheap: rejected before the KDF)
            bad = list(toks)
            kind = j // 3 % 3
            if kind == 0:
                p = rng.randrange(len(bad))
                bad[p] = words[(ref.resolve(bad[p]) + rng.randrange(1, 2048)) % 2048]
            elif kind == 1:
                bad = bad[: rng.choice((1, 11, len(bad) - 1))] if rng.random() < 0.5 else bad + [words[rng.randrange(2048)]]
            else:
                bad[rng.randrange(len(bad))] = rng.choice(["notaword", "zzzz", "ab", "Abandon"])
            ctx.count("seed:negative")
            outcome(HDPrivateKey.from_mnemonic, " ".join(bad), pw)
    _state["tag"] = None


def kdf_direct(ctx, rng, count):
    from buidl.helper import hmac_sha512_kdf

    for j in range(count):
        k = j % 4
        if k == 0:
            msg = ref.entropy_to_mnemonic(rand_bytes(rng, SIZES[rng.randrange(5)]))
        elif k == 1:
            msg = rand_bytes(rng, rng.choice((0, 1, 63, 64, 127, 128, 129, 200, 300)))
        elif k == 2:
            msg = "".join(chr(rng.choice((0x41, 0xE9, 0x3042, 0x1F600))) for _ in range(rng.randrange(1, 60)))
        else:
            msg = rand_bytes(rng, rng.randrange(1, 260))
        salt = b"mnemonic" + rand_bytes(rng, rng.choice((0, 1, 6, 56, 119, 120, 121, 300)))
        outcome(hmac_sha512_kdf, msg, salt)


def pbkdf2_direct(ctx, rng, count):
    from buidl.pbkdf2 import PBKDF2

    mods = {"sha1": hashlib.sha1, "sha256": hashlib.sha256, "sha512": hashlib.sha512, "sha224": hashlib.sha224, "sha384": hashlib.sha384}
    names = ["sha1", "sha256", "sha512", "sha1", "sha256", "sha512", "sha224", "sha384"]
    for j in range(count):
        name = names[j % len(names)]
        hlen = mods[name]().digest_size
        blk = mods[name]().block_size
        it = 1 if j % 9 == 0 else rng.randrange(2, 51)
        pw = rand_bytes(rng, rng.choice((0, 1, 8, blk - 1, blk, blk + 1, 2 * blk + 5)) if j % 3 == 0 else rng.randrange(1, 40))
        salt = rand_bytes(rng, rng.choice((0, 1, 8, 16, 64, 200)))
        if j % 7 == 0:
            pw, salt = "pässwörd-%d" % j, "sältあ"
        pattern = j % 6
        if pattern == 0:
            reads = [hlen - 1, 2, hlen, 1, 2 * hlen + 3]
        elif pattern == 1:
            reads = [3 * hlen + 5]
        elif pattern == 2:
            reads = [0, hlen, 0, hlen, 1]
        elif pattern == 3:
            reads = [rng.randrange(0, 2 * hlen + 2) for _ in range(rng.randrange(1, 6))]
        elif pattern == 4:
            reads = [1] * (hlen + 2)
        else:
            reads = [hlen + 1, hlen - 1, 2 * hlen]
        if it > 20:
            reads = reads[:3]
        _state["tag"] = "pbkdf2"
        o = outcome(PBKDF2, pw, salt, it, mods[name])
        if o[0] != "ok":
            ctx.violation("pbkdf2-constructor-raises", f"PBKDF2(...) raised {o[1]}", {"op": "pbkdf2", "hash": name, "pw": _b(pw), "salt": _b(salt), "it": it, "reads": [], "str": isinstance(pw, str)})
            continue
        for n in reads:
            if outcome(o[1].read, n)[0] != "ok":
                break
    _state["tag"] = None


def spec_vectors(ctx):
    """The published vectors through the monitored entry points (the contracts decide)."""
    from buidl.hd import HDPrivateKey
    from buidl.mnemonic import bytes_to_mnemonic, mnemonic_to_bytes
    from buidl.pbkdf2 import PBKDF2

    for ent_hex, mnemonic, seed_hex, xprv in ref.TREZOR_VECTORS:
        ent = bytes.fromhex(ent_hex)
        ctx.count("vectors:trezor")
        ctx.monitor("vectors")
        a = outcome(bytes_to_mnemonic, ent, len(ent) * 8)
        b = outcome(mnemonic_to_bytes, mnemonic)
        c = outcome(HDPrivateKey.from_mnemonic, mnemonic, b"TREZOR")
        d = outcome(c[1].xprv) if c[0] == "ok" else c
        if a != ("ok", mnemonic) or b != ("ok", ent) or d != ("ok", xprv):
            ctx.violation("published-bip39-vector-fails", f"entropy {ent_hex}: encode={a[0]} decode={b[0]} xprv={d!r}", {"op": "from_mnemonic", "mnemonic": mnemonic, "password": b"TREZOR", "network": "mainnet"})
    for p, s, c, dklen, dk in ref.RFC6070:
        ctx.count("vectors:rfc6070")
        ctx.monitor("vectors")
        o = outcome(lambda: PBKDF2(p, s, c).read(dklen))
        if o != ("ok", bytes.fromhex(dk)):
            ctx.violation("published-rfc6070-vector-fails", f"P={p!r} c={c}: {o!r}", {"op": "pbkdf2", "hash": "sha1", "pw": p, "salt": s, "it": c, "reads": [dklen], "str": False})


def install_entropy_stubs(ctx):
    """secure_mnemonic draws from secrets.randbits and time(): both are replaced by ctx.rng."""
    from buidl import mnemonic

    r = ctx.rng("library-entropy")
    clock = {"t": 1_700_000_000.0}

    def randbits(k):
        return r.getrandbits(k)

    def time():
        clock["t"] += 0.123457
        return clock["t"]

    mnemonic.randbits = randbits
    mnemonic.time = time


def secure(ctx, rng, count):
    from buidl.mnemonic import secure_mnemonic

    for j in range(count):
        size = SIZES[j % 5]
        extra = (0, 1, 2**127 + 5, 2**300 + 12345, rng.getrandbits(256))[(j // 5) % 5]
        o = outcome(secure_mnemonic, size * 8, extra)
        ctx.monitor("secure_mnemonic")
        ctx.count("secure:%d" % (size * 8))
        case = {"op": "secure", "num_bits": size * 8, "extra": extra}
        if o[0] != "ok":
            ctx.violation("secure-mnemonic-raises", f"{o[1]}", case)
            continue
        verdict, ent, _ = ref.classify(o[1].split())
        if verdict != "valid" or len(ent) != size:
            ctx.violation("secure-mnemonic-invalid-output", f"{o[1]!r}: {verdict}", case)


def run_repo_tests(ctx):
    """Thorough tier: the repository's own test modules for this area, executed in-process with
    the contracts attached (an additional workload; a failing test is not a violation by itself)."""
    import io
    import unittest

    names = [
        "buidl.test.test_mnemonic",
        "buidl.test.test_pbkdf2",
        "buidl.test.test_hd.HDTest.test_from_mnemonic",
        "buidl.test.test_hd.HDTest.test_from_seed",
    ]
    for name in names:
        try:
            suite = unittest.defaultTestLoader.loadTestsFromName(name)
        except Exception as e:  # noqa: BLE001
            ctx.note("repotests:load-error:" + name, repr(e))
            continue
        res = unittest.TextTestRunner(stream=io.StringIO(), verbosity=0).run(suite)
        ctx.count("repotests:ran", res.testsRun)
        ctx.count("repotests:failed", len(res.failures) + len(res.errors))
        if res.failures or res.errors:
            ctx.note("repotests:first-failure:" + name, (res.failures + res.errors)[0][1][-600:])


def prepare(ctx):
    """Reference self-check, word-list fingerprint, contracts, stubs.  False when the anchored
    word list is not the BIP39 list (reported as a violation; nothing else can be decided)."""
    try:
        ref.words()
    except ref.WordlistMismatch as e:
        ctx.monitor("wordlist")
        ctx.violation("wordlist-file-not-canonical", str(e), {"op": "wordlist"})
        ctx.case({"op": "wordlist"})
        return False
    ref.selfcheck()
    install()
    install_entropy_stubs(ctx)
    return True


def run_shard(desc, ctx):
    if not prepare(ctx):
        return
    if desc["name"] == "repotests":
        run_repo_tests(ctx)
        return
    idx, n = desc["idx"], desc["n"]
    c = COUNTS[ctx.tier]
    rng = ctx.rng()
    check_wordlist(ctx, idx, n)
    if idx == 0:
        spec_vectors(ctx)
    phrases = roundtrips(ctx, rng, c["rt"])
    steps = [
        lambda: last_word_sets(ctx, rng, c["heads"]),
        lambda: random_sequences(ctx, rng, c["randseq"]),
        lambda: token_forms(ctx, rng, phrases, c["forms"]),
        lambda: pbkdf2_direct(ctx, rng, c["pb"]),
        lambda: kdf_direct(ctx, rng, c["kdf"]),
        lambda: secure(ctx, rng, c["secure"]),
        lambda: seeds(ctx, rng, phrases, c["seeds"]),
    ]
    for step in steps:
        if ctx.out_of_time():  # safety cap only: an unfinished counted workload makes the run inconclusive
            return
        step()


def replay(case, ctx):
    if not prepare(ctx):
        return
    from buidl.hd import HDPrivateKey
    from buidl.mnemonic import BIP39, bytes_to_mnemonic, mnemonic_to_bytes, secure_mnemonic
    from buidl.helper import hmac_sha512_kdf
    from buidl.pbkdf2 import PBKDF2

    op = case.get("op")
    if op == "encode":
        o = outcome(bytes_to_mnemonic, case["entropy"], len(case["entropy"]) * 8)
        if o[0] == "ok":
            outcome(mnemonic_to_bytes, o[1])
    elif op == "decode":
        outcome(mnemonic_to_bytes, case["mnemonic"])
    elif op == "lastword":
        words = ref.words()
        head = [ref.resolve(t) for t in case["head"]]
        acc = {i for i, w in enumerate(words) if outcome(mnemonic_to_bytes, " ".join(case["head"]) + " " + w)[0] == "ok"}
        ctx.monitor("lastword")
        if acc != ref.valid_last_indices(head):
            ctx.violation("last-word-set-differs:%dw" % (len(head) + 1), f"{len(acc)} accepted", case)
    elif op == "kdf":
        msg = case["msg"].decode("utf-8") if case.get("msg_is_str") else case["msg"]
        outcome(hmac_sha512_kdf, msg, case["salt"])
    elif op == "pbkdf2":
        o = outcome(PBKDF2, case["pw"], case["salt"], case["it"], getattr(hashlib, case["hash"]))
        if o[0] == "ok":
            for n in case["reads"]:
                outcome(o[1].read, n)
    elif op == "from_mnemonic":
        outcome(HDPrivateKey.from_mnemonic, case["mnemonic"], case["password"], network=case.get("network", "mainnet"))
    elif op == "from_seed":
        outcome(HDPrivateKey.from_seed, case["seed"])
    elif op == "wordlist-token":
        _token(ctx, BIP39, case["token"], "wordlist")
    elif op == "wordlist-normalize":
        ctx.monitor("wordlist:normalize")
        t = case["token"]
        if outcome(BIP39.normalize, t)[0] != "ok":
            ctx.violation("wordlist-normalize-wrong", f"normalize({t!r}) failed", case)
    elif op == "wordlist":
        check_wordlist(ctx, 0, 1)
    elif op == "secure":
        secure_one = outcome(secure_mnemonic, case["num_bits"], case["extra"])
        ctx.monitor("secure_mnemonic")
        if secure_one[0] != "ok" or ref.classify(secure_one[1].split())[0] != "valid":
            ctx.violation("secure-mnemonic-invalid-output", repr(secure_one), case)
