"""C08 - BIP32 derivation: private/public consistency, path composition, lossless xkeys, blinding.

Monitors (contracts on the real functions, see vmon.contracts):
  HDPrivateKey.from_seed            master key/chain code == reference HMAC-SHA512("Bitcoin seed")
  HDPrivateKey.child                key, chain code, depth, parent fingerprint, child number == CKDpriv
  HDPublicKey.child                 == CKDpub for i < 2^31; refusal (exception) for every i >= 2^31
  HDPrivateKey/HDPublicKey.traverse == reference fold over the parsed path; hardened component from a
                                    public key refused
  HDPublicKey.fingerprint           == HASH160(SEC)[:4]
  HDPrivateKey.xprv / HDPublicKey.xpub   string == reference 78-byte Base58Check serialisation
  HDPrivateKey/HDPublicKey.parse, raw_parse   fields == reference parser, network from the version table
  blind_xpub, combine_bip32_paths   child xpub == reference derivation; combined path == concatenation
Boundary monitors in the driver: priv.child(i).pub == priv.pub.child(i); traverse == fold of child;
parse(s).xprv()/xpub() == s for all 20 SLIP-132 versions; blinded key == key at the combined path from
the root seed; HDPublicKey._raw memo == fresh serialisation at case ends.
"""
from ref import bip32, ec
from vmon import contracts
from vmon.core import outcome

PROPERTY_ID = "C08"
RULE = (
    "cases = (parent extended key, index) pairs through HDPrivateKey.child / HDPublicKey.child, (key, path) pairs "
    "through both traverse functions, extended-key strings through xprv/xpub/parse/raw_parse under each of the 20 "
    "SLIP-132 versions and 4 networks, and (xpub, path, secret path) triples through blind_xpub; every case is decided "
    "by a contract on the real function comparing with the reference BIP32 implementation (ref/bip32.py) or, for "
    "hardened indexes on public keys, by requiring an exception; distinct = distinct concrete inputs by hash; "
    "non-trivial = the reference value was computed and compared (or the refusal was observed)"
)
ASSUMPTIONS = [
    "IL >= n or a zero child key (probability < 2^-127) is unobservable and not claimed",
    "path strings outside the quantifier (empty components, signs, whitespace, unmarked components >= 2^31, indexes "
    "outside [0, 2^32)) are recorded as observations, not asserted",
    "inheritance of SLIP-132 version bytes by children is recorded as an observation (the statement only demands "
    "serialise/parse losslessness)",
]

H = bip32.HARDENED
BOUNDARY_IDX = [0, 1, H - 1, H, H + 1, 2**32 - 1]
NETWORKS = ["mainnet", "testnet", "signet", "regtest"]
PRV_VERSIONS = {
    "mainnet": ["0488ade4", "049d7878", "04b2430c", "0295b005", "02aa7a99"],
    "testnet": ["04358394", "044a4e28", "045f18bc", "024285b5", "02575048"],
}
PUB_VERSIONS = {
    "mainnet": ["0488b21e", "049d7cb2", "04b24746", "0295b43f", "02aa7ed3"],
    "testnet": ["043587cf", "044a5262", "045f1cf6", "024289ef", "02575483"],
}
ALL_VERSIONS = sorted(bip32.VERSIONS)

_MON = [
    "HDPrivateKey.from_seed", "HDPrivateKey.child", "HDPublicKey.child", "HDPrivateKey.traverse", "HDPublicKey.traverse",
    "HDPublicKey.fingerprint", "HDPrivateKey.xprv", "HDPublicKey.xpub", "HDPrivateKey.parse", "HDPublicKey.parse",
    "HDPrivateKey.raw_parse", "HDPublicKey.raw_parse", "blind_xpub", "combine_bip32_paths",
]
GATES = {
    "monitors-ran": _MON,
    "boundary-monitors-ran": ["priv-pub-agree", "traverse-equals-fold", "pub-traverse-equals-fold", "roundtrip-xprv", "roundtrip-xpub", "blind-from-root", "memo-raw"],
    "private-depths": ["depth:%d:%s" % (d, k) for d in range(1, 9) for k in ("hardened", "normal")],
    "public-depths": ["pubdepth:%d:%s" % (d, k) for d in range(1, 9) for k in ("normal", "hardened-refused")],
    "versions-serialised": ["version:ser:" + v for v in ALL_VERSIONS],
    "versions-parsed": ["version:parse:" + v for v in ALL_VERSIONS],
    "networks": ["network:" + n for n in NETWORKS] + ["rawparse-network:" + n for n in NETWORKS] + ["parse-network:mainnet", "parse-network:testnet"],
    "index-boundaries": ["index:%d" % i for i in BOUNDARY_IDX] + ["pubindex:%d" % i for i in BOUNDARY_IDX],
    "notations": ["notation:'", "notation:h", "notation:H", "prefix:m", "prefix:M", "pub-prefix:m", "pub-prefix:M"],
    "seed-lengths": ["seedlen:16", "seedlen:32", "seedlen:64", "seedlen:other"],
    "negatives": ["neg:pub-child-hardened-refused", "neg:pub-traverse-hardened-refused"],
    "memo": ["memo:populated-checked"],
    "repository-tests-under-contracts": {"quick": [], "thorough": ["repotests:run"]},
}

_state = {"tracked": [], "root": None}


def anchors():
    from buidl import blinding, hd

    return [
        hd.HDPrivateKey.from_seed, hd.HDPrivateKey.child, hd.HDPublicKey.child, hd.HDPrivateKey.traverse, hd.HDPublicKey.traverse,
        hd.HDPrivateKey.raw_parse, hd.HDPublicKey.raw_parse, hd.HDPrivateKey.raw_serialize, hd.HDPublicKey._serialize,
        hd.HDPublicKey.raw_serialize, blinding.blind_xpub, blinding.combine_bip32_paths,
    ]


# ---- helpers --------------------------------------------------------------------------------
def _pt(point):
    if point is None or point.x is None:
        return None
    return (point.x.num, point.y.num)


def _nd_priv(o):
    return {
        "k": o.private_key.secret, "c": o.chain_code, "depth": o.depth, "fp": o.parent_fingerprint, "cn": o.child_number,
        "net": o.network, "pv": o.priv_version, "uv": o.pub.pub_version,
    }


def _nd_pub(o):
    pt = _pt(o.point)
    return {
        "sec": ec.sec(pt) if pt else None, "c": o.chain_code, "depth": o.depth, "fp": o.parent_fingerprint, "cn": o.child_number,
        "net": o.network, "uv": o.pub_version,
    }


def _mk_priv(nd):
    from buidl.hd import HDPrivateKey
    from buidl.pecc import PrivateKey

    return HDPrivateKey(
        private_key=PrivateKey(nd["k"]), chain_code=nd["c"], depth=nd["depth"], parent_fingerprint=nd["fp"],
        child_number=nd["cn"], network=nd["net"], priv_version=nd.get("pv"), pub_version=nd.get("uv"),
    )


def _mk_pub(nd):
    from buidl.hd import HDPublicKey
    from buidl.pecc import S256Point

    return HDPublicKey(
        point=S256Point.parse(nd["sec"]), chain_code=nd["c"], depth=nd["depth"], parent_fingerprint=nd["fp"],
        child_number=nd["cn"], network=nd["net"], pub_version=nd.get("uv"),
    )


def _track(pub):
    if len(_state["tracked"]) < 400:
        _state["tracked"].append(pub)


def _cmp_pub_fields(ctx, mech_prefix, pubobj, point, chain, depth, fp, cn, case):
    """Compare the public part of a node with reference values; returns True when all equal."""
    ok = True
    if _pt(pubobj.point) != point:
        ctx.violation(mech_prefix + ":key", "public key differs from the reference", case)
        ok = False
    if pubobj.chain_code != chain:
        ctx.violation(mech_prefix + ":chain-code", "chain code differs from the reference", case)
        ok = False
    if pubobj.depth != depth:
        ctx.violation(mech_prefix + ":depth", f"depth {pubobj.depth} expected {depth}", case)
        ok = False
    if pubobj.parent_fingerprint != fp:
        ctx.violation(mech_prefix + ":parent-fingerprint", f"fingerprint {pubobj.parent_fingerprint.hex()} expected {fp.hex()}", case)
        ok = False
    if pubobj.child_number != cn:
        ctx.violation(mech_prefix + ":child-number", f"child number {pubobj.child_number} expected {cn}", case)
        ok = False
    return ok


def _cmp_priv_node(ctx, mech_prefix, obj, node, case):
    ok = True
    if obj.private_key.secret != node["key"]:
        ctx.violation(mech_prefix + ":key", "private key differs from the reference", case)
        ok = False
    if obj.chain_code != node["chain_code"] or obj.depth != node["depth"] or obj.parent_fingerprint != node["parent_fp"] or obj.child_number != node["child_num"]:
        which = (
            "chain-code" if obj.chain_code != node["chain_code"] else "depth" if obj.depth != node["depth"]
            else "parent-fingerprint" if obj.parent_fingerprint != node["parent_fp"] else "child-number"
        )
        ctx.violation(mech_prefix + ":" + which, f"{which} differs from the reference (got depth={obj.depth} fp={obj.parent_fingerprint.hex()} cn={obj.child_number})", case)
        ok = False
    ok &= _cmp_pub_fields(ctx, mech_prefix + ":pub", obj.pub, node["point"], node["chain_code"], node["depth"], node["parent_fp"], node["child_num"], case)
    return ok


def _arg(args, kwargs, pos, name, default=None):
    if len(args) > pos:
        return args[pos]
    return kwargs.get(name, default)


def _idx_class(ctx, prefix, index):
    if index in BOUNDARY_IDX:
        ctx.count("%s:%d" % (prefix, index))


def _notation(path):
    n = "'" if "'" in path else ("h" if "h" in path else ("H" if "H" in path else "none"))
    return n, path[:1]


# ---- contracts ---------------------------------------------------------------------------------
def post_from_seed(args, kwargs, pre, out):
    ctx = contracts.ctx()
    seed = _arg(args, kwargs, 1, "seed")
    network = _arg(args, kwargs, 2, "network", "mainnet")
    pv = _arg(args, kwargs, 3, "priv_version")
    uv = _arg(args, kwargs, 4, "pub_version")
    if not isinstance(seed, (bytes, bytearray)):
        return NotImplemented
    case = {"op": "from_seed", "seed": bytes(seed), "net": network, "pv": pv, "uv": uv}
    try:
        k, c = bip32.master(seed)
    except ValueError:
        return NotImplemented
    if out[0] == "exc":
        ctx.violation("from-seed-raises", f"from_seed raised {out[1]!r}", case)
        return
    node = {"key": k, "point": ec.mul(k), "chain_code": c, "depth": 0, "parent_fp": bip32.ZERO_FP, "child_num": 0}
    _cmp_priv_node(ctx, "master", out[1], node, case)
    if network in bip32.DEFAULT_PRV:
        if out[1].priv_version != (pv or bytes.fromhex(bip32.DEFAULT_PRV[network])):
            ctx.violation("master:priv-version", f"priv_version {out[1].priv_version!r}", case)
        if out[1].pub.pub_version != (uv or bytes.fromhex(bip32.DEFAULT_PUB[network])):
            ctx.violation("master:pub-version", f"pub_version {out[1].pub.pub_version!r}", case)
        ctx.count("network:" + network)
    ln = len(seed)
    ctx.count("seedlen:%d" % ln if ln in (16, 32, 64) else "seedlen:other")
    _track(out[1].pub)
    ctx.case(case)


def post_priv_child(args, kwargs, pre, out):
    ctx = contracts.ctx()
    self = args[0]
    index = _arg(args, kwargs, 1, "index")
    if not isinstance(index, int) or isinstance(index, bool) or not 0 <= index < 2**32:
        ctx.count("observed:priv-child-index-outside-[0,2^32):" + ("accepted" if out[0] == "ok" else "refused"))
        return NotImplemented
    nd = _nd_priv(self)
    case = {"op": "priv-child", "node": nd, "i": index}
    try:
        k, c = bip32.ckd_priv(nd["k"], nd["c"], index)
    except ValueError:
        return NotImplemented
    kind = "hardened" if index >= H else "normal"
    if out[0] == "exc":
        ctx.violation("priv-child-raises:" + kind, f"child({index}) raised {out[1]!r}", case)
        return
    node = {
        "key": k, "point": ec.mul(k), "chain_code": c, "depth": nd["depth"] + 1,
        "parent_fp": bip32.fingerprint(ec.mul(nd["k"])), "child_num": index,
    }
    _cmp_priv_node(ctx, "priv-child:" + kind, out[1], node, case)
    ch = out[1]
    if ch.network != self.network:
        ctx.violation("priv-child:network", f"network {ch.network} expected {self.network}", case)
    if ch.priv_version != self.priv_version or ch.pub.pub_version != self.pub.pub_version:
        ctx.count("observed:child-does-not-inherit-version")
    if 1 <= node["depth"] <= 8:
        ctx.count("depth:%d:%s" % (node["depth"], kind))
    _idx_class(ctx, "index", index)
    _track(ch.pub)
    ctx.case(case)


def post_pub_child(args, kwargs, pre, out):
    ctx = contracts.ctx()
    self = args[0]
    index = _arg(args, kwargs, 1, "index")
    if not isinstance(index, int) or isinstance(index, bool):
        return NotImplemented
    nd = _nd_pub(self)
    case = {"op": "pub-child", "node": nd, "i": index}
    if index >= H:
        # hardened (and anything above 2^32) from a public key: refusal is the only acceptable outcome
        if out[0] == "ok":
            ctx.violation("hardened-from-public-accepted:child", f"HDPublicKey.child({index}) returned a key", case)
        else:
            ctx.rejected_by_exception += 1
            ctx.count("neg:pub-child-hardened-refused")
            if 0 <= self.depth <= 7:
                ctx.count("pubdepth:%d:hardened-refused" % (self.depth + 1))
        _idx_class(ctx, "pubindex", index)
        ctx.case(case)
        return
    if index < 0:
        ctx.count("observed:pub-child-negative-index:" + ("accepted" if out[0] == "ok" else "refused"))
        return NotImplemented
    pt = _pt(self.point)
    try:
        kk, cc = bip32.ckd_pub(pt, nd["c"], index)
    except ValueError:
        return NotImplemented
    if out[0] == "exc":
        ctx.violation("pub-child-raises", f"child({index}) raised {out[1]!r}", case)
        return
    _cmp_pub_fields(ctx, "pub-child", out[1], kk, cc, nd["depth"] + 1, bip32.fingerprint(pt), index, case)
    if out[1].network != self.network:
        ctx.violation("pub-child:network", f"network {out[1].network} expected {self.network}", case)
    if out[1].pub_version != self.pub_version:
        ctx.count("observed:child-does-not-inherit-version")
    if 1 <= nd["depth"] + 1 <= 8:
        ctx.count("pubdepth:%d:normal" % (nd["depth"] + 1))
    _idx_class(ctx, "pubindex", index)
    _track(out[1])
    ctx.case(case)


def post_priv_traverse(args, kwargs, pre, out):
    ctx = contracts.ctx()
    self = args[0]
    path = _arg(args, kwargs, 1, "path")
    try:
        idx = bip32.parse_path(path) if isinstance(path, str) else None
    except ValueError:
        idx = None
    if idx is None:
        ctx.count("observed:priv-traverse-path-outside-quantifier:" + ("accepted" if out[0] == "ok" else "refused"))
        return NotImplemented
    nd = _nd_priv(self)
    case = {"op": "priv-traverse", "node": nd, "path": path}
    try:
        node = bip32.node_priv(nd["k"], nd["c"], idx, depth=nd["depth"], parent_fp=nd["fp"], child_num=nd["cn"])
    except ValueError:
        return NotImplemented
    notation, prefix = _notation(path)
    # class counters say "this input class was exercised", whatever the outcome
    if notation != "none":
        ctx.count("notation:" + notation)
    ctx.count("prefix:" + prefix)
    if out[0] == "exc":
        ctx.violation("priv-traverse-refuses-valid-path:" + ("uppercase-M-prefix" if prefix == "M" else "marker-" + notation), f"traverse({path!r}) raised {out[1]!r}", case)
        return
    _cmp_priv_node(ctx, "priv-traverse", out[1], node, case)
    ctx.case(case)


def post_pub_traverse(args, kwargs, pre, out):
    ctx = contracts.ctx()
    self = args[0]
    path = _arg(args, kwargs, 1, "path")
    try:
        idx = bip32.parse_path(path) if isinstance(path, str) else None
    except ValueError:
        idx = None
    if idx is None:
        ctx.count("observed:pub-traverse-path-outside-quantifier:" + ("accepted" if out[0] == "ok" else "refused"))
        return NotImplemented
    nd = _nd_pub(self)
    case = {"op": "pub-traverse", "node": nd, "path": path}
    notation, prefix = _notation(path)
    if any(i >= H for i in idx):
        if out[0] == "ok":
            ctx.violation("hardened-from-public-accepted:traverse", f"HDPublicKey.traverse({path!r}) returned a key", case)
        else:
            ctx.rejected_by_exception += 1
            ctx.count("neg:pub-traverse-hardened-refused")
        ctx.case(case)
        return
    pt = _pt(self.point)
    try:
        node = bip32.node_pub(pt, nd["c"], idx, depth=nd["depth"], parent_fp=nd["fp"], child_num=nd["cn"])
    except ValueError:
        return NotImplemented
    ctx.count("pub-prefix:" + prefix)
    if out[0] == "exc":
        ctx.violation("pub-traverse-refuses-valid-path:" + ("uppercase-M-prefix" if prefix == "M" else "lowercase-m-prefix"), f"HDPublicKey.traverse({path!r}) raised {out[1]!r}", case)
        return
    _cmp_pub_fields(ctx, "pub-traverse", out[1], node["point"], node["chain_code"], node["depth"], node["parent_fp"], node["child_num"], case)
    ctx.case(case)


def post_fingerprint(args, kwargs, pre, out):
    ctx = contracts.ctx()
    self = args[0]
    pt = _pt(self.point)
    if pt is None:
        return NotImplemented
    case = {"op": "fingerprint", "sec": ec.sec(pt)}
    if out[0] == "exc":
        ctx.violation("fingerprint-raises", f"fingerprint raised {out[1]!r}", case)
        return
    if out[1] != bip32.fingerprint(pt):
        ctx.violation("fingerprint-wrong", f"got {out[1].hex()} expected {bip32.fingerprint(pt).hex()}", case)
    ctx.case(case)


def _version_arg(v):
    return v if isinstance(v, (bytes, bytearray)) and len(v) == 4 else None


def post_xprv(args, kwargs, pre, out):
    ctx = contracts.ctx()
    self = args[0]
    version = _arg(args, kwargs, 1, "version")
    v = _version_arg(version if version is not None else self.priv_version)
    if v is None or not 0 <= self.depth <= 255:
        return NotImplemented
    nd = _nd_priv(self)
    case = {"op": "xprv", "node": nd, "version": bytes(v)}
    if out[0] == "exc":
        ctx.violation("xprv-raises", f"xprv raised {out[1]!r}", case)
        return
    exp = bip32.serialize_xprv(v, nd["depth"], nd["fp"], nd["cn"], nd["c"], nd["k"])
    if out[1] != exp:
        ctx.violation("xprv-serialisation-wrong", f"got {out[1]} expected {exp}", case)
    if bytes(v).hex() in bip32.VERSIONS:
        ctx.count("version:ser:" + bytes(v).hex())
    ctx.case(case)


def post_xpub(args, kwargs, pre, out):
    ctx = contracts.ctx()
    self = args[0]
    version = _arg(args, kwargs, 1, "version")
    v = _version_arg(version if version is not None else self.pub_version)
    pt = _pt(self.point)
    if v is None or pt is None or not 0 <= self.depth <= 255:
        return NotImplemented
    nd = _nd_pub(self)
    case = {"op": "xpub", "node": nd, "version": bytes(v)}
    if out[0] == "exc":
        ctx.violation("xpub-raises", f"xpub raised {out[1]!r}", case)
        return
    exp = bip32.serialize_xpub(v, nd["depth"], nd["fp"], nd["cn"], nd["c"], pt)
    if out[1] != exp:
        ctx.violation("xpub-serialisation-wrong", f"got {out[1]} expected {exp}", case)
    if bytes(v).hex() in bip32.VERSIONS:
        ctx.count("version:ser:" + bytes(v).hex())
    ctx.case(case)


def _check_parsed(ctx, kind, obj, d, exp_network, case):
    """obj: library object, d: reference dict."""
    if kind == "prv":
        if obj.private_key.secret != d["key"]:
            ctx.violation("parse-prv:key", "parsed private key differs", case)
        pub = obj.pub
        ver = obj.priv_version
    else:
        pub = obj
        ver = obj.pub_version
    _cmp_pub_fields(ctx, "parse-" + kind, pub, d["point"], d["chain_code"], d["depth"], d["parent_fp"], d["child_num"], case)
    if ver != d["version"]:
        ctx.violation("parse-" + kind + ":version-not-kept", f"version {ver!r} expected {d['version'].hex()}", case)
    if obj.network != exp_network:
        ctx.violation("parse-" + kind + ":network", f"network {obj.network} expected {exp_network} for version {d['version'].hex()}", case)


def _post_parse(kind, args, kwargs, pre, out):
    ctx = contracts.ctx()
    s = _arg(args, kwargs, 1, "s")
    if not isinstance(s, str):
        return NotImplemented
    try:
        d = bip32.parse_xkey(s)
    except ValueError:
        d = None
    if d is None or not d["known_version"] or d["is_private"] != (kind == "prv"):
        ctx.count("observed:parse-%s-of-other-string:%s" % (kind, "accepted" if out[0] == "ok" else "refused"))
        return NotImplemented
    case = {"op": "parse-" + kind, "s": s}
    if out[0] == "exc":
        ctx.violation("parse-%s-refuses-valid-key" % kind, f"parse raised {out[1]!r}", case)
        return
    _check_parsed(ctx, kind, out[1], d, d["network"], case)
    ctx.count("version:parse:" + d["version"].hex())
    ctx.count("parse-network:" + d["network"])
    _track(out[1].pub if kind == "prv" else out[1])
    ctx.case(case)


def post_parse_prv(args, kwargs, pre, out):
    return _post_parse("prv", args, kwargs, pre, out)


def post_parse_pub(args, kwargs, pre, out):
    return _post_parse("pub", args, kwargs, pre, out)


def snap_stream(*args, **kwargs):
    s = _arg(args, kwargs, 1, "s")
    try:
        return s.getvalue()[s.tell():]
    except Exception:  # noqa: BLE001 - not a BytesIO: the monitor declines
        return None


def _post_raw_parse(kind, args, kwargs, pre, out):
    ctx = contracts.ctx()
    network = _arg(args, kwargs, 2, "network")
    if pre is None or len(pre) < 78:
        return NotImplemented
    try:
        d = bip32.parse_raw(pre[:78])
    except ValueError:
        d = None
    if d is None or not d["known_version"] or d["is_private"] != (kind == "prv"):
        ctx.count("observed:raw-parse-%s-of-other-bytes:%s" % (kind, "accepted" if out[0] == "ok" else "refused"))
        return NotImplemented
    case = {"op": "raw-parse-" + kind, "raw": pre[:78], "net": network}
    if out[0] == "exc":
        ctx.violation("raw-parse-%s-refuses-valid-key" % kind, f"raw_parse raised {out[1]!r}", case)
        return
    exp_net = "mainnet" if d["network"] == "mainnet" else (network if network is not None else "testnet")
    _check_parsed(ctx, kind, out[1], d, exp_net, case)
    if network is not None:
        ctx.count("rawparse-network:" + str(network))
    ctx.case(case)


def post_raw_parse_prv(args, kwargs, pre, out):
    return _post_raw_parse("prv", args, kwargs, pre, out)


def post_raw_parse_pub(args, kwargs, pre, out):
    return _post_raw_parse("pub", args, kwargs, pre, out)


def post_combine(args, kwargs, pre, out):
    ctx = contracts.ctx()
    a = _arg(args, kwargs, 0, "first_path")
    b = _arg(args, kwargs, 1, "second_path")
    try:
        ia, ib = bip32.parse_path(a), bip32.parse_path(b)
    except (ValueError, TypeError):
        ctx.count("observed:combine-path-outside-quantifier:" + ("accepted" if out[0] == "ok" else "refused"))
        return NotImplemented
    case = {"op": "combine", "a": a, "b": b}
    if out[0] == "exc":
        ctx.violation("combine-refuses-valid-paths", f"combine_bip32_paths raised {out[1]!r}", case)
        return
    try:
        got = bip32.parse_path(out[1])
    except ValueError:
        got = None
    if got != ia + ib:
        ctx.violation("combine-wrong-path", f"got {out[1]!r} expected indexes {ia + ib}", case)
    ctx.case(case)


def post_blind(args, kwargs, pre, out):
    ctx = contracts.ctx()
    xpub = _arg(args, kwargs, 0, "starting_xpub")
    spath = _arg(args, kwargs, 1, "starting_path")
    secret = _arg(args, kwargs, 2, "secret_path")
    try:
        d = bip32.parse_xkey(xpub)
        i1, i2 = bip32.parse_path(spath), bip32.parse_path(secret)
    except (ValueError, TypeError):
        ctx.count("observed:blind-input-outside-quantifier:" + ("accepted" if out[0] == "ok" else "refused"))
        return NotImplemented
    if d["is_private"] or not d["known_version"]:
        return NotImplemented
    case = {"op": "blind", "xpub": xpub, "path": spath, "secret": secret}
    if any(i >= H for i in i2):
        if out[0] == "ok":
            ctx.violation("hardened-from-public-accepted:blind", "blind_xpub derived through a hardened secret path", case)
        else:
            ctx.rejected_by_exception += 1
        ctx.case(case)
        return
    if d["depth"] != len(i1):
        ctx.count("observed:blind-depth-mismatch:" + ("accepted" if out[0] == "ok" else "refused"))
        return NotImplemented
    try:
        node = bip32.node_pub(d["key"], d["chain_code"], i2, depth=d["depth"], parent_fp=d["parent_fp"], child_num=d["child_num"])
    except ValueError:
        return NotImplemented
    _, prefix = _notation(secret)
    if out[0] == "exc":
        ctx.violation("blind-refuses-valid-input:" + ("uppercase-M-prefix" if prefix == "M" or spath[:1] == "M" else "other"), f"blind_xpub raised {out[1]!r}", case)
        return
    exp = bip32.serialize_xpub(d["version"], node["depth"], node["parent_fp"], node["child_num"], node["chain_code"], node["point"])
    res = out[1]
    if res.get("blinded_child_xpub") != exp:
        ctx.violation("blind-wrong-child-xpub", f"got {res.get('blinded_child_xpub')} expected {exp}", case)
    try:
        full = bip32.parse_path(res.get("blinded_full_path"))
    except (ValueError, TypeError):
        full = None
    if full != i1 + i2:
        ctx.violation("blind-wrong-full-path", f"got {res.get('blinded_full_path')!r} expected indexes {i1 + i2}", case)
    ctx.case(case)


def install():
    from buidl import blinding, hd  # noqa: F401 - import every user of the functions before rebinding
    import buidl.psbt  # noqa: F401
    import buidl.psbt_helper  # noqa: F401
    import buidl.descriptor  # noqa: F401

    contracts.install(hd.HDPrivateKey, "from_seed", post_from_seed)
    contracts.install(hd.HDPrivateKey, "child", post_priv_child)
    contracts.install(hd.HDPublicKey, "child", post_pub_child)
    contracts.install(hd.HDPrivateKey, "traverse", post_priv_traverse)
    contracts.install(hd.HDPublicKey, "traverse", post_pub_traverse)
    contracts.install(hd.HDPublicKey, "fingerprint", post_fingerprint)
    contracts.install(hd.HDPrivateKey, "xprv", post_xprv)
    contracts.install(hd.HDPublicKey, "xpub", post_xpub)
    contracts.install(hd.HDPrivateKey, "parse", post_parse_prv)
    contracts.install(hd.HDPublicKey, "parse", post_parse_pub)
    contracts.install(hd.HDPrivateKey, "raw_parse", post_raw_parse_prv, snap=snap_stream)
    contracts.install(hd.HDPublicKey, "raw_parse", post_raw_parse_pub, snap=snap_stream)
    contracts.install(blinding, "combine_bip32_paths", post_combine)
    contracts.install(blinding, "blind_xpub", post_blind)


# ---- memo invariant ------------------------------------------------------------------------------
def check_memo(ctx):
    """HDPublicKey._raw is None or equals a fresh serialisation of the object's current fields
    under the network's default public version."""
    for pub in _state["tracked"]:
        raw = getattr(pub, "_raw", None)
        if raw is None:
            ctx.count("memo:empty")
            continue
        pt = _pt(pub.point)
        if pt is None or pub.network not in bip32.DEFAULT_PUB:
            continue
        ctx.monitor("memo-raw")
        exp = bip32.raw_xpub(bip32.DEFAULT_PUB[pub.network], pub.depth, pub.parent_fingerprint, pub.child_number, pub.chain_code, pt)
        ctx.count("memo:populated-checked")
        if raw != exp:
            ctx.violation("memo-raw-stale", f"_raw {raw.hex()} != fresh {exp.hex()}", {"op": "memo", "node": _nd_pub(pub), "raw": raw})
    _state["tracked"] = []


# ---- workload -----------------------------------------------------------------------------------
def shards(tier, seed):
    # 16 processes in both tiers: thorough = the repository's test modules under the contracts + 15 workload shards
    n = 16 if tier == "quick" else 15
    per = {"quick": 12, "thorough": 170}[tier]
    out = [{"name": "walk", "idx": i, "n": n, "per": per, "budget_s": 900 if tier == "quick" else 10800, "hard_timeout_s": 1500 if tier == "quick" else 14000} for i in range(n)]
    if tier == "thorough":
        out.insert(0, {"name": "repotests", "idx": 0, "n": 1, "budget_s": 10800, "hard_timeout_s": 14000, "modules": ["buidl.test.test_hd", "buidl.test.test_blinding"]})
    return out


def _rand_index(rng, hardened):
    r = rng.random()
    if hardened:
        pool = [H, H + 1, 2**32 - 1, H + 44, H + 48, H + 84, H + 86]
        return rng.choice(pool) if r < 0.55 else H + rng.randrange(H)
    pool = [0, 1, H - 1, 2, 1000000000]
    return rng.choice(pool) if r < 0.55 else rng.randrange(H)


def _seed_bytes(rng, j):
    ln = [16, 32, 64, 17, 33, 63, 24, 48][j % 8] if j % 3 != 2 else rng.randrange(16, 65)
    return rng.randbytes(ln)


def one_case(ctx, rng, j, shard_idx):
    from io import BytesIO

    from buidl.blinding import blind_xpub, secure_secret_path
    from buidl.hd import HDPrivateKey, HDPublicKey

    seed = _seed_bytes(rng, j + shard_idx)
    network = NETWORKS[(j + shard_idx) % 4]
    family = "mainnet" if network == "mainnet" else "testnet"
    vi = (j // 4 + shard_idx) % 6  # 5 = library defaults (None)
    pv = bytes.fromhex(PRV_VERSIONS[family][vi]) if vi < 5 else None
    uv = bytes.fromhex(PUB_VERSIONS[family][vi]) if vi < 5 else None
    o = outcome(HDPrivateKey.from_seed, seed, network=network, priv_version=pv, pub_version=uv)
    if o[0] != "ok":
        return
    root = o[1]
    k0, c0 = bip32.master(seed)
    depth = 8 if j % 4 in (0, 1) else rng.randrange(1, 9)
    bits = rng.getrandbits(8) if j % 2 == 0 else _state.get("lastbits", 0) ^ 0xFF
    _state["lastbits"] = bits
    path = [_rand_index(rng, bool(bits >> d & 1)) for d in range(depth)]
    # make the boundary indexes certain, whatever the random draws were
    forced = BOUNDARY_IDX[(j + shard_idx) % len(BOUNDARY_IDX)]
    pos = rng.randrange(depth)
    path[pos] = forced
    ctx.sample({"seed": seed, "network": network, "path": path, "priv_version": pv})

    # -- walk: private child, public child, agreement ------------------------------------------
    cur = root
    nodes = [root]
    if rng.random() < 0.5:
        outcome(root.pub.raw_serialize)  # populate the memo before the object is used further
    for i in path:
        oc = outcome(cur.child, i)
        if i < H:
            op = outcome(cur.pub.child, i)
            if oc[0] == "ok" and op[0] == "ok":
                ctx.monitor("priv-pub-agree")
                a, b = oc[1].pub, op[1]
                same = (
                    _pt(a.point) == _pt(b.point) and a.chain_code == b.chain_code and a.depth == b.depth
                    and a.parent_fingerprint == b.parent_fingerprint and a.child_number == b.child_number
                )
                if not same:
                    ctx.violation("private-public-derivation-disagree", f"priv.child({i}).pub != pub.child({i})", {"op": "priv-pub-agree", "node": _nd_priv(cur), "i": i})
                if rng.random() < 0.3:
                    outcome(b.raw_serialize)
        else:
            outcome(cur.pub.child, i)  # must be refused (contract)
        if oc[0] != "ok":
            return
        cur = oc[1]
        nodes.append(cur)
        if rng.random() < 0.3:
            outcome(cur.pub.raw_serialize)
    # out-of-range indexes: observations + the refusal of everything >= 2^31 on public keys
    for bad in (-1, 2**32, 2**32 + 5):
        outcome(cur.child, bad)
        outcome(cur.pub.child, bad)
    for hi in (H, 2**32 - 1, H + rng.randrange(H)):
        outcome(cur.pub.child, hi)

    # -- traverse == fold, in every notation ------------------------------------------------------
    marker = ["'", "h", "H"][(j + shard_idx) % 3]
    prefix = "M" if (j // 3 + shard_idx) % 2 else "m"
    pstr = bip32.path_str(path, marker, prefix)
    ot = outcome(root.traverse, pstr)
    if ot[0] == "ok":
        ctx.monitor("traverse-equals-fold")
        if outcome(ot[1].xprv) != outcome(cur.xprv) or outcome(ot[1].xpub) != outcome(cur.xpub):
            ctx.violation("traverse-differs-from-fold", f"traverse({pstr!r}) != fold of child", {"op": "fold", "node": _nd_priv(root), "path": pstr})
    # composition: traverse(a) then traverse(b) == traverse(a + b)
    if depth >= 2:
        cut = rng.randrange(1, depth)
        o1 = outcome(root.traverse, bip32.path_str(path[:cut], marker, "m"))
        if o1[0] == "ok":
            o2 = outcome(o1[1].traverse, bip32.path_str(path[cut:], marker, prefix))
            if o2[0] == "ok" and ot[0] == "ok":
                ctx.monitor("traverse-equals-fold")
                if outcome(o2[1].xprv) != outcome(ot[1].xprv):
                    ctx.violation("traverse-not-compositional", f"traverse split at {cut} differs", {"op": "fold", "node": _nd_priv(root), "path": pstr, "cut": cut})
    # public traversal of the longest non-hardened suffix, from the node above it
    start = depth
    while start > 0 and path[start - 1] < H:
        start -= 1
    if start < depth:
        base = nodes[start].pub
        suffix = path[start:]
        pub_prefix = "M" if (j + shard_idx) % 2 else "m"
        opt = outcome(base.traverse, bip32.path_str(suffix, marker, pub_prefix))
        fold = base
        okfold = True
        for i in suffix:
            of = outcome(fold.child, i)
            if of[0] != "ok":
                okfold = False
                break
            fold = of[1]
        if opt[0] == "ok" and okfold:
            ctx.monitor("pub-traverse-equals-fold")
            if outcome(opt[1].xpub) != outcome(fold.xpub) or outcome(opt[1].xpub) != outcome(cur.xpub):
                ctx.violation("pub-traverse-differs-from-fold", "public traverse != fold of public child != private path", {"op": "pub-fold", "node": _nd_pub(base), "path": bip32.path_str(suffix, marker, pub_prefix)})
    # public-only traversal from the root's public key (every other case)
    if j % 2 == 0:
        pp = [rng.choice([0, 1, H - 1, rng.randrange(H)]) for _ in range(rng.randrange(1, 3))]
        pub_prefix = "M" if (j // 2 + shard_idx) % 2 else "m"
        opt = outcome(root.pub.traverse, bip32.path_str(pp, marker, pub_prefix))
        fold = root.pub
        for i in pp:
            of = outcome(fold.child, i)
            fold = of[1] if of[0] == "ok" else None
            if fold is None:
                break
        if opt[0] == "ok" and fold is not None:
            ctx.monitor("pub-traverse-equals-fold")
            if outcome(opt[1].xpub) != outcome(fold.xpub):
                ctx.violation("pub-traverse-differs-from-fold", "public traverse != fold of public child", {"op": "pub-fold", "node": _nd_pub(root.pub), "path": bip32.path_str(pp, marker, pub_prefix)})
    # a hardened component anywhere in a public traversal must be refused
    hp = [rng.randrange(H) for _ in range(rng.randrange(0, 3))] + [H + rng.randrange(H)] + [rng.randrange(H) for _ in range(rng.randrange(0, 2))]
    outcome(root.pub.traverse, bip32.path_str(hp, marker, "m"))

    # -- serialise / parse, all versions -----------------------------------------------------------
    for node in (root, cur):
        s = outcome(node.xprv)
        if s[0] == "ok":
            p = outcome(HDPrivateKey.parse, s[1])
            if p[0] == "ok":
                ctx.monitor("roundtrip-xprv")
                if outcome(p[1].xprv) != s:
                    ctx.violation("xprv-roundtrip-changes-string", f"parse({s[1]}).xprv() differs", {"op": "roundtrip", "s": s[1], "kind": "prv"})
        s = outcome(node.xpub)
        if s[0] == "ok":
            p = outcome(HDPublicKey.parse, s[1])
            if p[0] == "ok":
                ctx.monitor("roundtrip-xpub")
                if outcome(p[1].xpub) != s:
                    ctx.violation("xpub-roundtrip-changes-string", f"parse({s[1]}).xpub() differs", {"op": "roundtrip", "s": s[1], "kind": "pub"})
    allprv = PRV_VERSIONS["mainnet"] + PRV_VERSIONS["testnet"]
    for t in range(2):
        vhex = allprv[(2 * j + t + shard_idx) % 10]
        s = outcome(cur.xprv, bytes.fromhex(vhex))
        if s[0] == "ok":
            p = outcome(HDPrivateKey.parse, s[1])
            if p[0] == "ok":
                ctx.monitor("roundtrip-xprv")
                if outcome(p[1].xprv) != s:
                    ctx.violation("xprv-roundtrip-changes-string", f"version {vhex}: parse(s).xprv() differs", {"op": "roundtrip", "s": s[1], "kind": "prv"})
    for vhex in PUB_VERSIONS["mainnet"] + PUB_VERSIONS["testnet"]:
        s = outcome(cur.xpub, bytes.fromhex(vhex))
        if s[0] == "ok":
            p = outcome(HDPublicKey.parse, s[1])
            if p[0] == "ok":
                ctx.monitor("roundtrip-xpub")
                if outcome(p[1].xpub) != s:
                    ctx.violation("xpub-roundtrip-changes-string", f"version {vhex}: parse(s).xpub() differs", {"op": "roundtrip", "s": s[1], "kind": "pub"})
    # raw_parse with an explicit network (what PSBT parsing does)
    raw_pub = bip32.b58check_decode(outcome(cur.xpub)[1]) if outcome(cur.xpub)[0] == "ok" else None
    if raw_pub:
        for net in NETWORKS:
            outcome(HDPublicKey.raw_parse, BytesIO(raw_pub), net)
    sx = outcome(cur.xprv)
    if sx[0] == "ok":
        outcome(HDPrivateKey.raw_parse, BytesIO(bip32.b58check_decode(sx[1])), NETWORKS[(j + 1) % 4])

    # -- strings that are not extended keys (BIP32 test vector 5 style): observations only ------------
    if raw_pub and j % 4 == 0:
        with_prv_data = raw_pub[:45] + b"\x00" + bip32.ser256(k0)
        bad_prefix = raw_pub[:45] + bytes([rng.choice([4, 5, 0, 1])]) + raw_pub[46:]
        for label, raw in (("pub-version-with-private-key-data", with_prv_data), ("pubkey-prefix-not-02-03", bad_prefix)):
            o = outcome(HDPublicKey.parse, bip32.b58check_encode(raw))
            ctx.count("observed:invalid-xpub:%s:%s" % (label, "accepted" if o[0] == "ok" else "refused"))
        if sx[0] == "ok":
            rawp = bip32.b58check_decode(sx[1])
            o = outcome(HDPrivateKey.parse, bip32.b58check_encode(rawp[:45] + raw_pub[45:]))
            ctx.count("observed:invalid-xprv:prv-version-with-public-key-data:" + ("accepted" if o[0] == "ok" else "refused"))
            o = outcome(HDPrivateKey.parse, bip32.b58check_encode(rawp[:46] + b"\x00" * 32))
            ctx.count("observed:invalid-xprv:zero-key:" + ("accepted" if o[0] == "ok" else "refused"))

    # -- blinding -----------------------------------------------------------------------------------
    sdepth = rng.randrange(0, 5)
    spath = [H + rng.choice([44, 48, 84, 0, 1, 2, rng.randrange(H)]) for _ in range(sdepth)]
    if rng.random() < 0.3 and sdepth:
        spath[-1] = rng.randrange(H)
    snode = bip32.node_priv(k0, c0, spath)
    family_pub = PUB_VERSIONS[family][(j + shard_idx) % 5]
    sxpub = bip32.serialize_xpub(family_pub, snode["depth"], snode["parent_fp"], snode["child_num"], snode["chain_code"], snode["point"])
    if j % 3 == 0:
        osec = outcome(secure_secret_path, rng.randrange(1, 4))
        secret = osec[1] if osec[0] == "ok" else "m/1"
    else:
        secret = bip32.path_str([rng.choice([0, H - 1, rng.randrange(H)]) for _ in range(rng.randrange(1, 4))], "'", "M" if j % 5 == 1 else "m")
    sp_str = bip32.path_str(spath, ["h", "'", "H"][j % 3], "M" if j % 7 == 3 else "m")
    ob = outcome(blind_xpub, sxpub, sp_str, secret)
    if ob[0] == "ok":
        ctx.monitor("blind-from-root")
        try:
            full = bip32.parse_path(ob[1]["blinded_full_path"])
            want = bip32.node_priv(k0, c0, full)
            got = bip32.parse_xkey(ob[1]["blinded_child_xpub"])
            good = (got["point"], got["chain_code"], got["depth"], got["parent_fp"], got["child_num"], got["version"].hex()) == (
                want["point"], want["chain_code"], want["depth"], want["parent_fp"], want["child_num"], family_pub)
        except (ValueError, TypeError, KeyError):
            good = False
        if not good:
            ctx.violation("blind-not-key-at-combined-path", "blinded xpub is not the key at the combined path from the root", {"op": "blind-root", "seed": seed, "xpub": sxpub, "path": sp_str, "secret": secret})
    # a hardened secret path cannot be followed from an xpub
    outcome(blind_xpub, sxpub, sp_str, bip32.path_str([rng.randrange(H), H + rng.randrange(H)], "h", "m"))
    check_memo(ctx)


def _stub_entropy(rng):
    from buidl import blinding

    blinding.randbelow = lambda n: rng.randrange(n)


def _run_repo_tests(ctx, names):
    """Thorough tier only: the repository's own test modules executed under the installed contracts
    (an additional workload; a failing test is noted, never a verdict by itself)."""
    import io
    import unittest

    from vmon.core import Quiet

    suite = unittest.defaultTestLoader.loadTestsFromNames(names)
    with Quiet():
        res = unittest.TextTestRunner(stream=io.StringIO(), verbosity=0).run(suite)
    ctx.note("repotests", {"modules": names, "run": res.testsRun, "failures": len(res.failures), "errors": len(res.errors), "skipped": len(res.skipped),
                           "not-passing": [str(t[0]) for t in (res.failures + res.errors)][:12]})
    ctx.count("repotests:run", res.testsRun)


def run_shard(desc, ctx):
    ec.selfcheck()
    bip32.selfcheck()
    install()
    if desc["name"] == "repotests":
        _run_repo_tests(ctx, desc["modules"])
        check_memo(ctx)
        return
    rng = ctx.rng()
    _stub_entropy(ctx.rng("entropy"))
    for j in range(desc["per"]):
        if ctx.out_of_time():
            return
        one_case(ctx, rng, j, desc["idx"])


def replay(case, ctx):
    from io import BytesIO

    from buidl.blinding import blind_xpub, combine_bip32_paths
    from buidl.hd import HDPrivateKey, HDPublicKey

    ec.selfcheck()
    bip32.selfcheck()
    install()
    op = case.get("op")
    if op == "from_seed":
        outcome(HDPrivateKey.from_seed, case["seed"], network=case["net"], priv_version=case.get("pv"), pub_version=case.get("uv"))
    elif op == "priv-child":
        outcome(_mk_priv(case["node"]).child, case["i"])
    elif op == "pub-child":
        outcome(_mk_pub(case["node"]).child, case["i"])
    elif op == "priv-pub-agree":
        node = _mk_priv(case["node"])
        a, b = outcome(node.child, case["i"]), outcome(node.pub.child, case["i"])
        if a[0] == "ok" and b[0] == "ok" and (_pt(a[1].pub.point), a[1].chain_code) != (_pt(b[1].point), b[1].chain_code):
            ctx.violation("private-public-derivation-disagree", "priv.child(i).pub != pub.child(i)", case)
    elif op in ("priv-traverse", "fold"):
        node = _mk_priv(case["node"])
        t = outcome(node.traverse, case["path"])
        cur = node
        try:
            for i in bip32.parse_path(case["path"]):
                cur = cur.child(i)
            if t[0] == "ok" and t[1].xprv() != cur.xprv():
                ctx.violation("traverse-differs-from-fold", "traverse != fold", case)
        except Exception:  # noqa: BLE001
            pass
    elif op in ("pub-traverse", "pub-fold"):
        outcome(_mk_pub(case["node"]).traverse, case["path"])
    elif op == "fingerprint":
        from buidl.pecc import S256Point

        outcome(HDPublicKey(S256Point.parse(case["sec"]), b"\x00" * 32, 0, b"\x00" * 4, 0).fingerprint)
    elif op == "xprv":
        outcome(_mk_priv(case["node"]).xprv, case["version"])
    elif op == "xpub":
        outcome(_mk_pub(case["node"]).xpub, case["version"])
    elif op in ("parse-prv", "parse-pub", "roundtrip"):
        cls = HDPrivateKey if (op == "parse-prv" or case.get("kind") == "prv") else HDPublicKey
        p = outcome(cls.parse, case["s"])
        if p[0] == "ok":
            back = outcome(p[1].xprv if cls is HDPrivateKey else p[1].xpub)
            if back != ("ok", case["s"]):
                ctx.violation("x%s-roundtrip-changes-string" % ("prv" if cls is HDPrivateKey else "pub"), "parse(s) serialises differently", case)
    elif op in ("raw-parse-prv", "raw-parse-pub"):
        cls = HDPrivateKey if op.endswith("prv") else HDPublicKey
        outcome(cls.raw_parse, BytesIO(case["raw"]), case.get("net"))
    elif op == "combine":
        outcome(combine_bip32_paths, case["a"], case["b"])
    elif op in ("blind", "blind-root"):
        outcome(blind_xpub, case["xpub"], case["path"], case["secret"])
    elif op == "memo":
        pub = _mk_pub(case["node"])
        outcome(pub.raw_serialize)
        _state["tracked"] = [pub]
        check_memo(ctx)
