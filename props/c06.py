"""C06 - input verification: completeness on library-signed spends, soundness on everything unauthorised.

Boundary monitor around Tx.verify_input:
  * positives: spends built and signed through the library API for every supported output type must verify;
  * negatives: a mutation catalogue applied to each signed spend; every mutated spend is classified by the
    reference *authorisation analyser* (ref.spend): if fewer than m distinct script keys have a valid
    signature over the transaction as it now is (or the committed script is absent), the library answering
    True is the refuting event.
In-situ contracts on op_checksig / op_checkmultisig / op_checksig_schnorr / op_checksigadd_schnorr: a pushed
"true" must be backed by reference-valid signatures (these also fire inside other properties' workloads).
"""
import io

from ref import ec, sighash as sh, spend, txcodec as tc
from vmon import contracts
from vmon.bridge import build_tx, model_of_tx, script_raw_from_fields
from vmon.core import outcome

PROPERTY_ID = "C06"
REPO_TEST_MODULES = ["test_tx", "test_script", "test_taproot", "test_musig", "test_psbt"]  # thorough tier: run as an extra workload under the contracts
RULE = (
    "cases = (spend type, wallet, transaction, mutation) tuples: a library-signed spend (positive) or a mutated copy "
    "classified unauthorised by the reference analyser (negative, carrying that classification as its proof); each is "
    "run through Tx.verify_input; distinct = serialized transaction + spent outputs + index by hash; non-trivial = a "
    "positive that was completely signed through the API, or a negative the analyser proved unauthorised"
)
ASSUMPTIONS = [
    "spends that still carry >= m valid signatures by distinct script keys (e.g. malleated n-s, harmless extra items) are not asserted either way",
    "legacy sighash does not commit to the spent amount; amount changes are only used as negatives for segwit/taproot inputs",
    "rejection may be False or any exception",
]

KINDS = ["p2pkh", "p2pkh-uncompressed", "p2sh-ms", "p2wpkh", "p2sh-p2wpkh", "p2wsh-ms", "p2sh-p2wsh-ms", "p2tr-key", "p2tr-key-tree",
         "p2tr-script-p2pk", "p2tr-ms-single", "p2tr-ms-multi", "p2tr-key-annex", "p2tr-script-p2pk-annex"]

MUTATION_CLASSES = [
    "drop-sig", "blank-sig", "foreign-key-sig", "junk-der-sig", "non-signature-bytes", "reorder-sigs", "duplicate-sig", "flip-sighash-byte",
    "spent-amount", "output-amount", "output-script", "add-output", "sequence", "other-sequence", "locktime", "outpoint", "version",
    "wrong-pubkey", "wrong-script", "foreign-script-with-its-sigs", "control-block-byte", "control-block-length", "leaf-script-byte",
    "truncate-witness", "empty-auth", "annex-only", "annex-plus-junk", "sigfree-scriptsig-extras", "scriptsig-on-native-witness",
    "junk-before-wrapped-redeem", "legacy-style-spend-of-witness-output", "witness-script-op-true", "sig-for-other-input",
    "witness-program-shape-in-scriptsig", "undefined-sighash-byte",
]

GATES = {
    "positives-per-kind": ["pos:" + k for k in KINDS],
    "negatives-proved": ["neg:proved-unauthorised"],
    "mutation-classes": ["mut:" + m for m in MUTATION_CLASSES],
    "negatives-per-kind": ["negkind:" + k for k in KINDS],
    "op-contracts-ran": ["op_checksig", "op_checkmultisig", "op_checksig_schnorr", "op_checksigadd_schnorr"],
    "evaluate-rules": ["rule:p2sh", "rule:p2wpkh", "rule:p2wsh", "rule:p2tr-key", "rule:p2tr-script"],
    "in-place-histories": ["history:in-place-edit-then-verify"],
    "key-object-flags": ["pos:segwit-v0-with-uncompressed-key-object"],
    "keyless-attacker-fuzz": ["keyless:" + k for k in KINDS] + ["keyless:analyser-proved"],
    "shape-confusion-negatives-proved": ["negcls:witness-program-shape-in-scriptsig", "negcls:undefined-sighash-byte"],
}


def anchors():
    from buidl import op, script, tx

    return [script.Script.evaluate, tx.Tx.verify_input, op.op_checksig, op.op_checkmultisig, op.op_checksig_schnorr, op.op_checksigadd_schnorr]


# ---- in-situ contracts on the signature opcodes ----------------------------------------------------------
def _ctx_of_tx(tx_obj):
    model = model_of_tx(tx_obj)
    spent = []
    for i in tx_obj.tx_ins:
        if i._script_pubkey is None or i._value is None:
            return None, None
        spent.append({"amount": i._value, "script": script_raw_from_fields(i._script_pubkey)})
    return model, spent


def snap_stack(stack, tx_obj, input_index):
    return [bytes(x) for x in stack]


def _digest_fn(model, spent, idx):
    def f(ht):
        return sh.dispatch(model, idx, spent, ht)[1]
    return f


def post_checksig(args, kwargs, pre, out):
    ctx = contracts.ctx()
    stack, tx_obj, idx = args[0], args[1], args[2]
    if out[0] != "ok" or out[1] is not True or len(pre) < 2 or not stack:
        return NotImplemented
    pushed_true = stack[-1] == b"\x01"
    model, spent = _ctx_of_tx(tx_obj)
    if model is None:
        return NotImplemented
    pub = ec.parse_sec(pre[-1])
    try:
        valid = pub is not None and spend.ecdsa_blob_valid(pre[-2], pub, _digest_fn(model, spent, idx))
    except Exception:  # noqa: BLE001 - context outside the standard templates
        return NotImplemented
    if pushed_true and not valid:
        ctx.violation("op_checksig-true-without-valid-signature", f"sig {pre[-2].hex()} key {pre[-1].hex()}",
                      {"op": "verify", "model": model, "spent": spent, "index": idx})
    if valid and not pushed_true:
        ctx.violation("op_checksig-false-on-valid-signature", f"sig {pre[-2].hex()} key {pre[-1].hex()}",
                      {"op": "verify", "model": model, "spent": spent, "index": idx})


def post_checkmultisig(args, kwargs, pre, out):
    ctx = contracts.ctx()
    stack, tx_obj, idx = args[0], args[1], args[2]
    if out[0] != "ok" or out[1] is not True or not stack or stack[-1] != b"\x01":
        return NotImplemented
    model, spent = _ctx_of_tx(tx_obj)
    if model is None:
        return NotImplemented
    try:
        st = list(pre)
        n = _num(st.pop())
        keys = [st.pop() for _ in range(n)]  # top of stack first = last key first
        m = _num(st.pop())
        sigs = [st.pop() for _ in range(m)]
        keys.reverse()
        sigs.reverse()
        fn = _digest_fn(model, spent, idx)
        # consensus matching: signatures in order, each consumed by a later-or-equal key
        ki = 0
        ok = True
        for s in sigs:
            found = False
            while ki < len(keys):
                pub = ec.parse_sec(keys[ki])
                ki += 1
                if pub is not None and spend.ecdsa_blob_valid(s, pub, fn):
                    found = True
                    break
            if not found:
                ok = False
                break
    except Exception:  # noqa: BLE001
        return NotImplemented
    if not ok:
        ctx.violation("op_checkmultisig-true-without-m-valid-signatures", f"m={m} n={n}",
                      {"op": "verify", "model": model, "spent": spent, "index": idx})


def _num(b):
    if b == b"":
        return 0
    v = int.from_bytes(b, "little")
    if b[-1] & 0x80:
        v = -(v & ~(0x80 << (8 * (len(b) - 1))))
    return v


def _schnorr_post(nargs):
    def post(args, kwargs, pre, out):
        ctx = contracts.ctx()
        stack, tx_obj, idx = args[0], args[1], args[2]
        if out[0] != "ok" or out[1] is not True or len(pre) < nargs or not stack:
            return NotImplemented
        model, spent = _ctx_of_tx(tx_obj)
        if model is None:
            return NotImplemented
        pk = pre[-1]
        sig = pre[-2] if nargs == 2 else pre[-3]
        if nargs == 2:
            claimed = stack[-1] == b"\x01"
        else:
            claimed = _num(stack[-1]) == _num(pre[-2]) + 1
        try:
            valid = spend.schnorr_blob_valid(sig, pk, _digest_fn(model, spent, idx))
        except Exception:  # noqa: BLE001
            return NotImplemented
        if claimed and not valid:
            ctx.violation("tapscript-checksig-true-without-valid-signature", f"sig {sig.hex()} key {pk.hex()}",
                          {"op": "verify", "model": model, "spent": spent, "index": idx})
        if valid and not claimed:
            ctx.violation("tapscript-checksig-false-on-valid-signature", f"sig {sig.hex()} key {pk.hex()}",
                          {"op": "verify", "model": model, "spent": spent, "index": idx})
    return post


def install():
    import buidl.script  # noqa: F401 (alias of op_checksig_schnorr)
    from buidl import op

    contracts.install(op, "op_checksig", post_checksig, snap=snap_stack)
    contracts.install(op, "op_checkmultisig", post_checkmultisig, snap=snap_stack)
    contracts.install(op, "op_checksig_schnorr", _schnorr_post(2), snap=snap_stack)
    contracts.install(op, "op_checksigadd_schnorr", _schnorr_post(3), snap=snap_stack)


# ---- building signed spends through the library API -----------------------------------------------------------
def dummy_input(rng):
    txin = {"txid": rng.randbytes(32), "vout": rng.randrange(4), "script": b"", "sequence": rng.choice([0xFFFFFFFF, 0xFFFFFFFE]), "witness": []}
    return txin, {"amount": rng.randrange(1000, 10**8), "script": b"\x00\x14" + rng.randbytes(20)}


def materialise(model, spent):
    from buidl.script import ScriptPubKey

    tx = build_tx(model)
    for ti, s in zip(tx.tx_ins, spent):
        ti._value = s["amount"]
        ti._script_pubkey = ScriptPubKey.parse(io.BytesIO(sh.varbytes(s["script"])))
    return tx


def build_signed(rng, kind, small):
    """Returns (tx_obj, index, spent, meta).  Everything is created and signed with the library's own API."""
    from buidl.pecc import PrivateKey
    from buidl.script import RedeemScript, WitnessScript
    from buidl.taproot import P2PKTapScript, TapBranch, TapLeaf, TapRootMultiSig
    from buidl.witness import Witness

    n_in = rng.randrange(2, 4) if kind in ("p2pkh", "p2wpkh", "p2sh-p2wpkh", "p2tr-key") else rng.randrange(1, 4)
    n_out = rng.randrange(1, 4)
    index = rng.randrange(n_in)
    ins, spent = [], []
    for _ in range(n_in):
        a, b = dummy_input(rng)
        ins.append(a)
        spent.append(b)
    outs = [{"amount": rng.randrange(546, 10**7), "script": rng.choice([b"\x00\x14" + rng.randbytes(20), sh.p2pkh_script(rng.randbytes(20))])} for _ in range(n_out)]
    model = {"version": rng.choice([1, 2]), "ins": ins, "outs": outs, "locktime": rng.choice([0, 0, 700000]), "segwit": True}
    amount = rng.randrange(10**5, 10**9)
    meta = {"kind": kind, "m": 1, "n": 1}
    nmax = 3 if small else 5

    def keys(k):
        return [PrivateKey(rng.randrange(1, ec.N)) for _ in range(k)]

    def finish(spk_obj):
        spent[index] = {"amount": amount, "script": spk_obj.raw_serialize()}
        return materialise(model, spent)

    if kind in ("p2pkh", "p2pkh-uncompressed"):
        comp = kind == "p2pkh"
        priv = PrivateKey(rng.randrange(1, ec.N), compressed=comp)
        tx = finish(priv.point.p2pkh_script(comp))
        meta["secrets"] = [priv.secret]
        ok = tx.sign_p2pkh(index, priv)
    elif kind == "p2wpkh":
        # the key OBJECT may carry compressed=False (parsed from an uncompressed WIF): the output still commits to the
        # compressed key (BIP143 keys are compressed), so the spend has to use that encoding
        priv = PrivateKey(rng.randrange(1, ec.N), compressed=rng.random() < 0.5)
        meta["key_object_uncompressed"] = not priv.compressed
        tx = finish(priv.point.p2wpkh_script())
        meta["secrets"] = [priv.secret]
        ok = tx.sign_p2wpkh(index, priv)
    elif kind == "p2sh-p2wpkh":
        priv = PrivateKey(rng.randrange(1, ec.N), compressed=rng.random() < 0.5)
        meta["key_object_uncompressed"] = not priv.compressed
        redeem = priv.point.p2sh_p2wpkh_redeem_script()
        tx = finish(redeem.script_pubkey())
        meta["secrets"] = [priv.secret]
        ok = tx.sign_p2sh_p2wpkh(index, priv)
    elif kind in ("p2sh-ms", "p2wsh-ms", "p2sh-p2wsh-ms"):
        n = rng.randrange(1, nmax + 1)
        m = rng.randrange(1, n + 1)
        ks = keys(n)
        cmds = [0x50 + m] + [k.point.sec() for k in ks] + [0x50 + n, 0xAE]
        signers = sorted(rng.sample(range(n), m))
        meta.update(m=m, n=n)
        if kind == "p2sh-ms":
            redeem = RedeemScript(cmds)
            tx = finish(redeem.script_pubkey())
            sigs = [tx.get_sig_legacy(index, ks[j], redeem_script=redeem) for j in signers]
            tx.tx_ins[index].finalize_p2sh_multisig(sigs, redeem)
        else:
            ws = WitnessScript(cmds)
            if kind == "p2wsh-ms":
                tx = finish(ws.script_pubkey())
            else:
                tx = finish(ws.script_pubkey().redeem_script().script_pubkey())
            sigs = [tx.get_sig_segwit(index, ks[j], witness_script=ws) for j in signers]
            if kind == "p2wsh-ms":
                tx.tx_ins[index].finalize_p2wsh_multisig(sigs, ws)
            else:
                tx.tx_ins[index].finalize_p2sh_p2wsh_multisig(sigs, ws)
        ok = tx.verify_input(index)
    elif kind == "p2tr-key":
        priv = keys(1)[0]
        tx = finish(priv.point.p2tr_script())
        # SIGHASH_SINGLE only where a matching output exists (without one BIP341 specifies failure, nothing to sign)
        ht = rng.choice([0, 0, 1, 3, 0x81] if index < n_out else [0, 0, 1, 0x81, 2])
        meta["secrets"] = [priv.tweaked_key().secret]
        ok = tx.sign_p2tr_keypath(index, priv.tweaked_key(), hash_type=ht)
    elif kind == "p2tr-key-tree":
        priv, leafkey = keys(2)
        leaf = TapLeaf(P2PKTapScript(leafkey.point))
        root = leaf.hash()
        tx = finish(priv.point.p2tr_script(root))
        ok = tx.sign_p2tr_keypath(index, priv.tweaked_key(root))
    elif kind == "p2tr-script-p2pk":
        internal, leafkey, other = keys(3)
        leaf = TapLeaf(P2PKTapScript(leafkey.point))
        tree = leaf
        if rng.random() < 0.7:
            sib = TapLeaf(P2PKTapScript(other.point))
            tree = TapBranch(leaf, sib) if rng.random() < 0.5 else TapBranch(sib, leaf)
            if rng.random() < 0.4:
                tree = TapBranch(tree, TapLeaf(P2PKTapScript(keys(1)[0].point)))
        tx = finish(internal.point.p2tr_script(tree.hash()))
        cb = tree.control_block(internal.point, leaf)
        ti = tx.tx_ins[index]
        ti.witness = Witness([leaf.tap_script.raw_serialize(), cb.serialize()])
        sig = tx.get_sig_taproot(index, leafkey, ext_flag=1)
        ti.witness = Witness([sig, leaf.tap_script.raw_serialize(), cb.serialize()])
        ok = tx.verify_input(index)
    elif kind == "p2tr-key-annex":
        # key path spend carrying an annex: the digest commits to the annex, so it is in place while signing
        priv = keys(1)[0]
        tx = finish(priv.point.p2tr_script())
        annex = b"\x50" + rng.randbytes(rng.choice([0, 1, 40, 300]))
        ti = tx.tx_ins[index]
        ti.witness = Witness([b"\x00" * 64, annex])
        ht = rng.choice([0, 1, 0x81] + ([3, 0x83] if index < n_out else [2]))
        sig = tx.get_sig_taproot(index, priv.tweaked_key(), hash_type=ht)
        ti.witness = Witness([sig, annex])
        meta["secrets"] = [priv.tweaked_key().secret]
        ok = tx.verify_input(index)
    elif kind == "p2tr-script-p2pk-annex":
        internal, leafkey, other = keys(3)
        leaf = TapLeaf(P2PKTapScript(leafkey.point))
        tree = TapBranch(leaf, TapLeaf(P2PKTapScript(other.point))) if rng.random() < 0.6 else leaf
        tx = finish(internal.point.p2tr_script(tree.hash()))
        cb = tree.control_block(internal.point, leaf)
        annex = b"\x50" + rng.randbytes(rng.choice([0, 2, 64]))
        ti = tx.tx_ins[index]
        ti.witness = Witness([leaf.tap_script.raw_serialize(), cb.serialize(), annex])
        sig = tx.get_sig_taproot(index, leafkey, ext_flag=1, hash_type=rng.choice([0, 1, 0x82]))
        ti.witness = Witness([sig, leaf.tap_script.raw_serialize(), cb.serialize(), annex])
        ok = tx.verify_input(index)
    elif kind in ("p2tr-ms-single", "p2tr-ms-multi"):
        n = rng.randrange(2, nmax + 1)
        k = rng.randrange(1, n + 1)
        ks = keys(n)
        pts = [x.point for x in ks]
        trm = TapRootMultiSig(pts, k)
        internal = trm.default_internal_pubkey
        signers = sorted(rng.sample(range(n), k))
        meta.update(m=k, n=n)
        if kind == "p2tr-ms-single":
            tree = trm.single_leaf()
            leaf = tree
        else:
            tree = trm.multi_leaf_tree()
            want = sorted(pts[j].xonly() for j in signers)
            leaf = [lf for lf in tree.leaves() if sorted(p.xonly() for p in lf.tap_script.points) == want][0]
        tx = finish(internal.p2tr_script(tree.hash()))
        cb = tree.control_block(internal, leaf)
        tx.initialize_p2tr_multisig(index, cb, leaf.tap_script)
        # every signer picks its own sighash flag (64-byte DEFAULT and 65-byte explicit types mixed)
        flags = [rng.choice([0, 0, 1, 0x81, 2] + ([3] if index < n_out else [])) for _ in range(n)]
        meta["flags"] = flags
        sigs = [tx.get_sig_taproot(index, ks[j], ext_flag=1, hash_type=flags[j]) if j in signers else b"" for j in range(n)]
        if kind == "p2tr-ms-multi":
            sigs = [s for s in sigs if s]
        ok = tx.finalize_p2tr_multisig(index, sigs)
    else:
        raise KeyError(kind)
    meta["lib_said"] = ok
    return tx, index, spent, meta


# ---- mutation catalogue (on the reference model of the signed spend) --------------------------------------------
def ss_cmds(model, index):
    return list(tc.script_parse(model["ins"][index]["script"])[0])


def set_ss(model, index, cmds):
    model["ins"][index]["script"] = tc.script_bytes(cmds)


def clone(model, spent):
    m = {**model, "ins": [dict(i, witness=list(i["witness"])) for i in model["ins"]], "outs": [dict(o) for o in model["outs"]]}
    return m, [dict(s) for s in spent]


def is_ecdsa_blob(b):
    return isinstance(b, (bytes, bytearray)) and 60 <= len(b) <= 74 and b[0] == 0x30 and spend.lax_der(b[:-1]) is not None


def sig_slots(model, index, kind):
    """[(container, position)] of the signature items."""
    out = []
    if kind.startswith("p2tr"):
        wit = model["ins"][index]["witness"]
        n = len(wit) - (1 if sh.annex_of([bytes(x) for x in wit]) is not None else 0)
        last = n if kind.startswith("p2tr-key") else n - 2  # script path: script and control block are not signatures
        for p, it in enumerate(wit[:max(last, 0)]):
            if len(it) in (64, 65):
                out.append(("wit", p))
        return out
    for p, c in enumerate(ss_cmds(model, index)):
        if is_ecdsa_blob(c):
            out.append(("ss", p))
    for p, it in enumerate(model["ins"][index]["witness"]):
        if is_ecdsa_blob(it):
            out.append(("wit", p))
    return out


def get_item(model, index, slot):
    c, p = slot
    return ss_cmds(model, index)[p] if c == "ss" else model["ins"][index]["witness"][p]


def put_item(model, index, slot, value):
    c, p = slot
    if c == "ss":
        cmds = ss_cmds(model, index)
        if value is None:
            cmds.pop(p)
        else:
            cmds[p] = value
        set_ss(model, index, cmds)
    else:
        if value is None:
            model["ins"][index]["witness"].pop(p)
        else:
            model["ins"][index]["witness"][p] = value


def ref_sign_like(rng, model, spent, index, kind, secret=None, ht=None):
    """A signature over the *current* model for this input by an arbitrary key, made with the reference."""
    d = secret or rng.randrange(1, ec.N)
    if kind.startswith("p2tr"):
        ht = 0 if ht is None else ht
        _, digest = sh.dispatch(model, index, spent, ht)
        sig, _ = ec.schnorr_sign(d, digest, rng.randbytes(32))
        return sig + (bytes([ht]) if ht else b"")
    ht = 1 if ht is None else ht
    _, digest = sh.dispatch(model, index, spent, ht)
    r, s, _, _ = ec.ecdsa_sign(d, int.from_bytes(digest, "big"))
    return ec.der(r, s) + bytes([ht])


def mutations(rng, model, spent, index, meta):
    """Yields (class name, model', spent')."""
    kind = meta["kind"]
    taproot = kind.startswith("p2tr")
    segwit_like = kind in ("p2wpkh", "p2sh-p2wpkh", "p2wsh-ms", "p2sh-p2wsh-ms") or taproot
    slots = sig_slots(model, index, kind)

    def fresh():
        return clone(model, spent)

    if slots:
        sl = rng.choice(slots)
        m, s = fresh(); put_item(m, index, sl, None); yield "drop-sig", m, s  # noqa: E702
        m, s = fresh(); put_item(m, index, sl, b""); yield "blank-sig", m, s  # noqa: E702
        m, s = fresh(); put_item(m, index, sl, ref_sign_like(rng, m, s, index, kind)); yield "foreign-key-sig", m, s  # noqa: E702
        m, s = fresh()
        junk = (ec.der(rng.randrange(1, ec.N), rng.randrange(1, ec.N // 2)) + b"\x01") if not taproot else rng.randbytes(64)
        put_item(m, index, sl, junk); yield "junk-der-sig", m, s  # noqa: E702
        # bytes that are not even DER (or not 64/65 bytes for schnorr): in one slot, and in every slot
        def nonsig():
            return rng.choice([b"\x01\x01", rng.randbytes(9), b"\x30\x06\x02\x01\x01", b"\x00", rng.randbytes(40), b"\x30" + rng.randbytes(70) + b"\x01"])
        m, s = fresh(); put_item(m, index, sl, nonsig()); yield "non-signature-bytes", m, s  # noqa: E702
        m, s = fresh()
        for sl2 in slots:
            put_item(m, index, sl2, nonsig())
        yield "non-signature-bytes", m, s
        m, s = fresh()
        blob = bytes(get_item(m, index, sl))
        if taproot:
            nb = blob[:64] + bytes([rng.choice([1, 2, 3, 0x81, 0x83])]) if len(blob) == 64 else blob[:64] + bytes([rng.choice([x for x in (1, 2, 3, 0x81, 0x82, 0x83) if x != blob[-1]])])
        else:
            nb = blob[:-1] + bytes([rng.choice([x for x in (1, 2, 3, 0x81, 0x82, 0x83) if x != blob[-1]])])
        put_item(m, index, sl, nb); yield "flip-sighash-byte", m, s  # noqa: E702
        if not taproot:
            # hash type bytes outside the named set: the digest still commits to the byte as it stands, so a
            # signature made for ALL does not become valid under 0x00 / 0x04 / 0x80 / 0xff ("treated like ALL")
            for hb in (0x00, rng.choice([0x04, 0x80, 0x84, 0xFF, 0x41])):
                m, s = fresh()
                put_item(m, index, sl, blob[:-1] + bytes([hb]))
                yield "undefined-sighash-byte", m, s
        if len(model["ins"]) > 1:
            # a perfectly valid signature by the right key - but made for another input of the same transaction
            other = (index + 1) % len(model["ins"])
            m, s = fresh()
            m2, s2 = fresh()
            s2[other] = dict(s2[index])
            m2["ins"][other]["script"] = m2["ins"][index]["script"]
            m2["ins"][other]["witness"] = list(m2["ins"][index]["witness"])
            if meta.get("secrets"):
                put_item(m, index, sl, ref_sign_like(rng, m2, s2, other, kind, secret=meta["secrets"][0]))
                yield "sig-for-other-input", m, s
    if len(slots) >= 2:
        a, b = rng.sample(slots, 2)
        m, s = fresh()
        va, vb = get_item(m, index, a), get_item(m, index, b)
        put_item(m, index, a, vb); put_item(m, index, b, va); yield "reorder-sigs", m, s  # noqa: E702
        m, s = fresh(); put_item(m, index, b, get_item(m, index, a)); yield "duplicate-sig", m, s  # noqa: E702
    # committed-field edits after signing
    if segwit_like:
        m, s = fresh(); s[index]["amount"] += rng.choice([1, -1, 1000]); yield "spent-amount", m, s  # noqa: E702
    m, s = fresh(); m["outs"][rng.randrange(len(m["outs"]))]["amount"] += 1; yield "output-amount", m, s  # noqa: E702
    m, s = fresh(); m["outs"][rng.randrange(len(m["outs"]))]["script"] = b"\x00\x14" + rng.randbytes(20); yield "output-script", m, s  # noqa: E702
    m, s = fresh(); m["outs"].append({"amount": 1, "script": b"\x51"}); yield "add-output", m, s  # noqa: E702
    m, s = fresh(); m["ins"][index]["sequence"] ^= 1; yield "sequence", m, s  # noqa: E702
    if len(model["ins"]) > 1:
        m, s = fresh(); m["ins"][(index + 1) % len(m["ins"])]["sequence"] ^= 1; yield "other-sequence", m, s  # noqa: E702
    m, s = fresh(); m["locktime"] ^= 1; yield "locktime", m, s  # noqa: E702
    m, s = fresh(); m["ins"][index]["vout"] ^= 1; yield "outpoint", m, s  # noqa: E702
    m, s = fresh(); m["version"] ^= 3; yield "version", m, s  # noqa: E702
    # wrong keys / scripts
    if kind in ("p2pkh", "p2pkh-uncompressed", "p2wpkh", "p2sh-p2wpkh"):
        m, s = fresh()
        d = rng.randrange(1, ec.N)
        sec_new = ec.sec(ec.mul(d), kind != "p2pkh-uncompressed")
        if kind.startswith("p2pkh"):
            cm = ss_cmds(m, index); cm[-1] = sec_new; cm[0] = ref_sign_like(rng, m, s, index, kind, secret=d); set_ss(m, index, cm)  # noqa: E702
        else:
            m["ins"][index]["witness"][-1] = sec_new
            m["ins"][index]["witness"][0] = ref_sign_like(rng, m, s, index, kind, secret=d)
        yield "wrong-pubkey", m, s
    if kind in ("p2sh-ms", "p2wsh-ms", "p2sh-p2wsh-ms"):
        # flip one byte of the committed script
        m, s = fresh()
        if kind == "p2sh-ms":
            cm = ss_cmds(m, index); r = bytearray(cm[-1]); r[rng.randrange(len(r))] ^= 1; cm[-1] = bytes(r); set_ss(m, index, cm)  # noqa: E702
        else:
            w = bytearray(m["ins"][index]["witness"][-1]); w[rng.randrange(len(w))] ^= 1; m["ins"][index]["witness"][-1] = bytes(w)  # noqa: E702
        yield "wrong-script", m, s
        # the attacker's own 1-of-1 script with the attacker's valid signature for it
        m, s = fresh()
        d = rng.randrange(1, ec.N)
        own = tc.script_bytes([0x51, ec.sec(ec.mul(d)), 0x51, 0xAE])
        if kind == "p2sh-ms":
            zz = int.from_bytes(sh.legacy(m, index, own, 1), "big")
            r_, s_, _, _ = ec.ecdsa_sign(d, zz)
            set_ss(m, index, [0, ec.der(r_, s_) + b"\x01", own])
        else:
            zz = int.from_bytes(sh.bip143(m, index, own, s[index]["amount"], 1), "big")
            r_, s_, _, _ = ec.ecdsa_sign(d, zz)
            m["ins"][index]["witness"] = [b"", ec.der(r_, s_) + b"\x01", own]
        yield "foreign-script-with-its-sigs", m, s
        if kind != "p2sh-ms":
            m, s = fresh(); m["ins"][index]["witness"] = [b"\x51"]; yield "witness-script-op-true", m, s  # noqa: E702
            m, s = fresh(); m["ins"][index]["witness"] = [b"\x01", b"\x51"]; yield "witness-script-op-true", m, s  # noqa: E702
    if kind in ("p2tr-script-p2pk", "p2tr-ms-single", "p2tr-ms-multi"):
        wit = model["ins"][index]["witness"]
        cbpos, scpos = len(wit) - 1, len(wit) - 2
        for _ in range(3):
            m, s = fresh()
            cb = bytearray(m["ins"][index]["witness"][cbpos])
            pos = rng.choice([0, rng.randrange(1, 33)] + ([rng.randrange(33, len(cb))] if len(cb) > 33 else []))
            cb[pos] ^= 1 << rng.randrange(8) if pos else rng.choice([1, 2, 0x40])
            m["ins"][index]["witness"][cbpos] = bytes(cb)
            yield "control-block-byte", m, s
        m, s = fresh()
        cb = m["ins"][index]["witness"][cbpos]
        m["ins"][index]["witness"][cbpos] = rng.choice([cb + rng.randbytes(32), cb[:-32] if len(cb) > 33 else cb[:32], cb[:33]]) if True else cb
        yield "control-block-length", m, s
        m, s = fresh()
        sc = bytearray(m["ins"][index]["witness"][scpos]); sc[rng.randrange(len(sc))] ^= 1 << rng.randrange(8); m["ins"][index]["witness"][scpos] = bytes(sc)  # noqa: E702
        yield "leaf-script-byte", m, s
        # attacker's own leaf (valid signature for it) with the victim's control block
        m, s = fresh()
        d = rng.randrange(1, ec.N)
        own = tc.script_bytes([ec.b32(ec.mul(d)[0]), 0xAC])
        m["ins"][index]["witness"] = [b"", own, wit[cbpos]]
        leafh = sh.tapleaf_hash(wit[cbpos][0] & 0xFE, own)
        dg = sh.bip341(m, index, s, 0, 1, None, leafh)
        m["ins"][index]["witness"][0] = ec.schnorr_sign(d, dg, rng.randbytes(32))[0]
        yield "foreign-script-with-its-sigs", m, s
    # truncation / emptiness
    if model["ins"][index]["witness"]:
        m, s = fresh(); m["ins"][index]["witness"] = m["ins"][index]["witness"][:-1]; yield "truncate-witness", m, s  # noqa: E702
    m, s = fresh(); m["ins"][index]["witness"] = []; m["ins"][index]["script"] = b""; yield "empty-auth", m, s  # noqa: E702
    if taproot:
        for w in ([b"\x50" + rng.randbytes(63)], [b"\x50" + rng.randbytes(64)], [b"\x50"], [b"\x50" + rng.randbytes(10)], [b"\x50" * 64]):
            m, s = fresh(); m["ins"][index]["witness"] = list(w); yield "annex-only", m, s  # noqa: E702
        for w in ([rng.randbytes(64), b"\x50" + rng.randbytes(5)], [b"\x01", b"\x50\x00"], [b"", b"\x50"], [b"\x50" + rng.randbytes(63), b"\x50" + rng.randbytes(3)]):
            m, s = fresh(); m["ins"][index]["witness"] = list(w); yield "annex-plus-junk", m, s  # noqa: E702
    # scriptSig games
    if kind in ("p2sh-ms", "p2sh-p2wpkh", "p2sh-p2wsh-ms"):
        redeem = ss_cmds(model, index)[-1]
        variants = [[redeem], [0x51, redeem], [rng.randbytes(5), redeem], [0, redeem], [0x51, 0x51, redeem], [redeem, 0x51], [0x51, 0x75, 0x51, redeem], [b"\x01", redeem],
                    # non-push opcodes after the redeem script (BIP16: a P2SH scriptSig is push-only and its last push is the script)
                    [redeem, 0x61], [redeem, 0x61, 0x61], [0, redeem, 0x61], [redeem, 0x76, 0x75], [redeem, 0xB0], [0x51, redeem, 0x61]]
        for v in variants:
            m, s = fresh(); set_ss(m, index, v)  # noqa: E702
            if kind != "p2sh-ms":
                m["ins"][index]["witness"] = []
            yield "sigfree-scriptsig-extras", m, s
        if kind != "p2sh-ms":
            for v in ([0x51, redeem], [rng.randbytes(8), redeem], [b"\x01", redeem], [0x51, 0x51, redeem]):
                m, s = fresh(); set_ss(m, index, v); m["ins"][index]["witness"] = []; yield "junk-before-wrapped-redeem", m, s  # noqa: E702
                m, s = fresh(); set_ss(m, index, v)  # noqa: E702
                m["ins"][index]["witness"] = [b"", b""] if kind == "p2sh-p2wpkh" else m["ins"][index]["witness"]
                yield "junk-before-wrapped-redeem", m, s
    # witness-program shaped pushes planted in the scriptSig of an output that is NOT a witness program, with the
    # attacker's own key / script and a valid signature for it in the witness: an interpreter that recognises
    # "0 <20 bytes>", "0 <32 bytes>" or "1 <32 bytes>" by the shape of the stack instead of by the scriptPubKey
    # (or the sole-push redeem script) would let the attacker's witness decide the spend
    if kind in ("p2pkh", "p2pkh-uncompressed", "p2sh-ms", "p2sh-p2wpkh", "p2sh-p2wsh-ms"):
        d = rng.randrange(1, ec.N)
        sec_d = ec.sec(ec.mul(d))
        x_d = spend.hash160(sec_d)
        tail = [ss_cmds(model, index)[-1]] if kind.startswith("p2sh") else []
        p2pkh_code = sh.p2pkh_script(x_d)
        own_ws = tc.script_bytes([0x51])
        for pre_name in ("v0-keyhash", "v0-scripthash-op-true", "v1-key"):
            for code_name in ("legacy-committed-script", "legacy-spk", "bip143-p2pkh"):
                m, s = fresh()
                if pre_name == "v0-keyhash":
                    set_ss(m, index, [0, x_d] + tail)
                    m["ins"][index]["witness"] = [b"", sec_d]
                    if code_name == "legacy-committed-script":
                        dg = sh.legacy(m, index, tail[0] if tail else s[index]["script"], 1)
                    elif code_name == "legacy-spk":
                        dg = sh.legacy(m, index, p2pkh_code, 1)
                    else:
                        dg = sh.bip143(m, index, p2pkh_code, s[index]["amount"], 1)
                    r_, s_, _, _ = ec.ecdsa_sign(d, int.from_bytes(dg, "big"))
                    m["ins"][index]["witness"][0] = ec.der(r_, s_) + b"\x01"
                elif pre_name == "v0-scripthash-op-true":
                    if code_name != "legacy-committed-script":
                        continue
                    set_ss(m, index, [0, sh.sha256(own_ws)] + tail)
                    m["ins"][index]["witness"] = [own_ws]
                else:
                    if code_name != "legacy-committed-script":
                        continue
                    set_ss(m, index, [0x51, ec.b32(ec.mul(d)[0])] + tail)
                    # BIP341 key-path signature by the attacker's (even-y) key over this transaction
                    dd = d if ec.mul(d)[1] % 2 == 0 else ec.N - d
                    try:
                        dg = sh.bip341(m, index, s, 0, 0, None, None)
                    except Exception:  # noqa: BLE001
                        dg = rng.randbytes(32)
                    m["ins"][index]["witness"] = [ec.schnorr_sign(dd, dg, rng.randbytes(32))[0]]
                yield "witness-program-shape-in-scriptsig", m, s
    if kind in ("p2wpkh", "p2wsh-ms") or taproot:
        for v in ([0x51], [b"\x01"], [rng.randbytes(4)], [0x51, 0x51], [0x00, 0x51]):
            m, s = fresh(); set_ss(m, index, v); m["ins"][index]["witness"] = []; yield "scriptsig-on-native-witness", m, s  # noqa: E702
            m, s = fresh(); set_ss(m, index, v); yield "scriptsig-on-native-witness", m, s  # noqa: E702
        # the authorisation data moved from the witness to the scriptSig (legacy-style spend)
        m, s = fresh(); set_ss(m, index, [bytes(x) for x in m["ins"][index]["witness"] if len(x) <= 520]); m["ins"][index]["witness"] = []  # noqa: E702
        yield "legacy-style-spend-of-witness-output", m, s


# ---- keyless attacker: structure-aware random scriptSigs / witnesses built WITHOUT any wallet key -----------------------
FUZZ_OPS = [0x00, 0x4F, 0x51, 0x52, 0x53, 0x60, 0x61, 0x63, 0x64, 0x67, 0x68, 0x69, 0x6B, 0x6C, 0x73, 0x74, 0x75, 0x76, 0x77, 0x78, 0x7C, 0x82,
            0x87, 0x88, 0x91, 0x92, 0x9A, 0x9B, 0xA8, 0xA9, 0xAA, 0xAC, 0xAD, 0xAE, 0xAF, 0xB1, 0xB2, 0xBA]


def keyless_vocab(rng, model, spent, index, kind):
    """Everything an attacker who holds NO key of the spent output can put into a scriptSig / witness: public items of
    the honest spend (scripts, control block, public keys), own keys / scripts / hashes, and own *valid* signatures
    over this transaction under every digest algorithm and script code in sight."""
    taproot = kind.startswith("p2tr")
    sig_at = set(sig_slots(model, index, kind))
    ss = ss_cmds(model, index)
    wit = [bytes(x) for x in model["ins"][index]["witness"]]
    public = [c for p, c in enumerate(ss) if isinstance(c, bytes) and ("ss", p) not in sig_at and c]
    public += [w for p, w in enumerate(wit) if ("wit", p) not in sig_at and w]
    d = rng.randrange(1, ec.N)
    pt = ec.mul(d)
    sec_d, x_d = ec.sec(pt), ec.b32(pt[0])
    d_even = d if pt[1] % 2 == 0 else ec.N - d
    h_d = spend.hash160(sec_d)
    own = [tc.script_bytes([0x51]), tc.script_bytes([sec_d, 0xAC]), tc.script_bytes([0x51, sec_d, 0x51, 0xAE]), tc.script_bytes([x_d, 0xAC]),
           sh.p2pkh_script(h_d), b"\x00\x14" + h_d, b"\x51\x20" + x_d]
    hashes = [h_d] + [spend.hash160(s) for s in own[:3]] + [sh.sha256(s) for s in own[:4]]
    codes = [spent[index]["script"]] + [p for p in public if 1 <= len(p) <= 520][:3] + own[:5]
    sigs = []
    amount = spent[index]["amount"]
    for code in codes:
        for alg in ("legacy", "bip143"):
            ht = rng.choice([1, 1, 1, 2, 3, 0x81])
            try:
                dg = sh.legacy(model, index, code, ht) if alg == "legacy" else sh.bip143(model, index, code, amount, ht)
            except Exception:  # noqa: BLE001
                continue
            r_, s_, _, _ = ec.ecdsa_sign(d, int.from_bytes(dg, "big"))
            sigs.append(ec.der(r_, s_) + bytes([ht]))
    try:
        sigs.append(ec.schnorr_sign(d_even, sh.bip341(model, index, spent, 0, 0, None, None), rng.randbytes(32))[0])
        for leaf_script in [own[3]] + [p for p in public if len(p) < 200][:2]:
            lh = sh.tapleaf_hash(0xC0, leaf_script)
            sigs.append(ec.schnorr_sign(d_even, sh.bip341(model, index, spent, 0, 1, None, lh), rng.randbytes(32))[0])
    except Exception:  # noqa: BLE001
        pass
    cb_own = bytes([0xC0 | rng.getrandbits(1)]) + x_d
    misc = [b"", b"\x01", b"\x00", b"\x81", rng.randbytes(20), rng.randbytes(32), sec_d, x_d, cb_own, cb_own + rng.randbytes(32), b"\x50" + rng.randbytes(4)]
    return {"public": public, "own": own, "hashes": hashes, "sigs": sigs, "misc": misc}


def keyless_candidates(rng, model, spent, index, kind, count):
    voc = keyless_vocab(rng, model, spent, index, kind)
    items = voc["public"] + voc["own"] + voc["hashes"] + voc["sigs"] + voc["misc"]
    ss0 = ss_cmds(model, index)
    wit0 = [bytes(x) for x in model["ins"][index]["witness"]]
    for _ in range(count):
        m, s = clone(model, spent)
        n_ss, n_w = rng.choice([0, 0, 1, 2, 3, 4, 6]), rng.choice([0, 0, 1, 2, 3, 4, 5])
        ss = []
        for _j in range(n_ss):
            r = rng.random()
            ss.append(rng.choice(FUZZ_OPS) if r < 0.3 else rng.choice(voc["sigs"]) if r < 0.5 and voc["sigs"] else rng.choice(items))
        wit = [rng.choice(voc["sigs"]) if rng.random() < 0.35 and voc["sigs"] else rng.choice(items) for _j in range(n_w)]
        if rng.random() < 0.5 and voc["sigs"]:
            # themes: fragments that look like (or are) complete spends of the ATTACKER's own key / script, planted where the
            # committed script is not - every digest / script-code combination is tried over the candidates
            sig = rng.choice(voc["sigs"])
            own, sec_d, x_d = voc["own"], voc["misc"][6], voc["misc"][7]
            theme = rng.randrange(7)
            if theme == 0:
                ss, wit = [0, voc["hashes"][0]], [sig, sec_d]
            elif theme == 1:
                k = rng.randrange(3)
                ss, wit = [0, sh.sha256(own[k])], [[], [sig], [b"", sig]][k] + [own[k]]
            elif theme == 2:
                ss, wit = [0x51, x_d], [sig]
            elif theme == 3:
                ss, wit = [0x51, x_d], [sig, own[3], voc["misc"][8]]
            elif theme == 4:
                k = rng.randrange(3)
                ss, wit = [[], [sig], [0, sig]][k] + [own[k]], []
            elif theme == 5:
                ss, wit = [sig, sec_d], wit
            else:
                ss, wit = [own[5]], [sig, sec_d]  # own p2wpkh program as the "redeem script"
            if rng.random() < 0.2:
                ss.insert(rng.randrange(len(ss) + 1), rng.choice(FUZZ_OPS + items))
        # keep the committed scripts in place most of the time so that they are reached and executed on attacker data
        if kind.startswith("p2sh") and ss0 and rng.random() < 0.7:
            ss.append(ss0[-1])
        if kind in ("p2wsh-ms", "p2sh-p2wsh-ms") and wit0 and rng.random() < 0.7:
            wit.append(wit0[-1])
        if kind in ("p2tr-script-p2pk", "p2tr-ms-single", "p2tr-ms-multi", "p2tr-script-p2pk-annex") and len(wit0) >= 2 and rng.random() < 0.7:
            tail = wit0[-3:] if sh.annex_of(wit0) is not None else wit0[-2:]
            wit.extend(tail if rng.random() < 0.8 else tail[:2])
        if kind.startswith("p2pkh") and rng.random() < 0.3:
            # the victim's public key is public; the victim's signature of course is not part of what a keyless attacker has
            ss = ss[:2] + [rng.choice(voc["sigs"] or [b""]), rng.choice([c for c in ss0 if isinstance(c, bytes) and not is_ecdsa_blob(c)] or [b""])]
        try:
            set_ss(m, index, ss)
        except Exception:  # noqa: BLE001
            continue
        m["ins"][index]["witness"] = [bytes(x) for x in wit]
        yield m, s


def keyless_fuzz(ctx, rng, kind, model, spent, index, count):
    """No candidate carries a signature by a key of the spent output (the attacker's keys are fresh), so by the
    statement every one of them has to be refused - whatever items or opcodes it contains."""
    for m, s in keyless_candidates(rng, model, spent, index, kind, count):
        if ctx.out_of_time():
            return
        info = spend.analyse(m, s, index)
        if info["authorised"] is True:
            ctx.count("keyless:analyser-says-authorised(harness contradiction)")
            raise RuntimeError(f"harness: analyser authorises a keyless spend: {info}")
        o = lib_verify(m, s, index)
        ctx.monitor("verify_input-keyless")
        ctx.count("keyless:" + kind)
        ctx.count("keyless:analyser-" + ("proved" if info["authorised"] is False else "undecided"))
        if o[0] == "ok" and o[1]:
            ctx.violation(f"verify-accepts-keyless-spend:{kind}", f"verify_input returned {o[1]!r} for a scriptSig/witness built without any key of the output; analyser: {info['why']}",
                          {"op": "keyless", "model": m, "spent": s, "index": index, "kind": kind})
        elif o[0] == "exc":
            ctx.rejected_by_exception += 1
        ctx.case((tc.encode(m), [(x["amount"], x["script"]) for x in s], index, "keyless"))


# ---- the boundary monitor ------------------------------------------------------------------------------------------
def lib_verify(model, spent, index):
    def go():
        return materialise(model, spent).verify_input(index)
    return outcome(go)


def note_rule(ctx, kind):
    r = {"p2sh-ms": ["rule:p2sh"], "p2wpkh": ["rule:p2wpkh"], "p2sh-p2wpkh": ["rule:p2sh", "rule:p2wpkh"], "p2wsh-ms": ["rule:p2wsh"],
         "p2sh-p2wsh-ms": ["rule:p2sh", "rule:p2wsh"], "p2tr-key": ["rule:p2tr-key"], "p2tr-key-tree": ["rule:p2tr-key"],
         "p2tr-script-p2pk": ["rule:p2tr-script"], "p2tr-ms-single": ["rule:p2tr-script"], "p2tr-ms-multi": ["rule:p2tr-script"],
         "p2tr-key-annex": ["rule:p2tr-key", "rule:annex"], "p2tr-script-p2pk-annex": ["rule:p2tr-script", "rule:annex"]}.get(kind, [])
    for x in r:
        ctx.count(x)


def judge_negative(ctx, cls, kind, model, spent, index):
    info = spend.analyse(model, spent, index)
    case = {"op": "verify", "model": model, "spent": spent, "index": index, "cls": cls, "kind": kind}
    ctx.count("mut:" + cls)
    if info["authorised"] is not False:
        ctx.count("neg:still-authorised-or-undecided(not asserted)")
        return
    ctx.count("neg:proved-unauthorised")
    ctx.count("negkind:" + kind)
    ctx.count("negcls:" + cls)
    o = lib_verify(model, spent, index)
    ctx.monitor("verify_input-negative")
    if o[0] == "ok" and o[1]:
        ctx.violation(f"verify-accepts-unauthorised:{kind}:{cls}", f"verify_input returned {o[1]!r}; analyser: {info['why']}", case)
    elif o[0] == "exc":
        ctx.rejected_by_exception += 1
    ctx.case((tc.encode(model), [(s["amount"], s["script"]) for s in spent], index), cls=None)


def in_place_history(ctx, rng, tx, index, spent, kind):
    """History on the signed Tx OBJECT itself (not a rebuilt copy): verify, edit a committed field in place,
    verify again.  The second answer must follow the transaction as it is now (a digest midstate remembered
    from signing or from the first verification must not make an invalidated signature look valid)."""
    from buidl.timelock import Locktime, Sequence

    taproot_or_segwit = kind.startswith("p2tr") or kind in ("p2wpkh", "p2sh-p2wpkh", "p2wsh-ms", "p2sh-p2wsh-ms")
    edits = ["output-amount", "locktime", "sequence"] + (["spent-amount", "other-spent-amount"] if taproot_or_segwit else [])
    first = outcome(tx.verify_input, index)
    for edit in rng.sample(edits, 2):
        undo = None
        sp = [dict(s) for s in spent]
        if edit == "output-amount":
            o = tx.tx_outs[rng.randrange(len(tx.tx_outs))]
            old = o.amount
            o.amount = old + 1
            undo = lambda o=o, old=old: setattr(o, "amount", old)  # noqa: E731
        elif edit == "locktime":
            old = tx.locktime
            tx.locktime = Locktime(int(old) ^ 1)
            undo = lambda old=old: setattr(tx, "locktime", old)  # noqa: E731
        elif edit == "sequence":
            ti = tx.tx_ins[index]
            old = ti.sequence
            ti.sequence = Sequence(int(old) ^ 1)
            undo = lambda ti=ti, old=old: setattr(ti, "sequence", old)  # noqa: E731
        elif edit == "spent-amount":
            ti = tx.tx_ins[index]
            old = ti._value
            ti._value = old + 1
            sp[index]["amount"] = old + 1
            undo = lambda ti=ti, old=old: setattr(ti, "_value", old)  # noqa: E731
        elif edit == "other-spent-amount":
            if len(tx.tx_ins) < 2 or not kind.startswith("p2tr"):
                continue  # only BIP341 commits to the other inputs' amounts
            k = (index + 1) % len(tx.tx_ins)
            ti = tx.tx_ins[k]
            old = ti._value
            ti._value = old + 1
            sp[k]["amount"] = old + 1
            undo = lambda ti=ti, old=old: setattr(ti, "_value", old)  # noqa: E731
        with contracts.suspended():
            model = model_of_tx(tx)
        info = spend.analyse(model, sp, index)
        o2 = outcome(tx.verify_input, index)
        ctx.monitor("verify_input-in-place-history")
        ctx.count("history:in-place-edit-then-verify")
        if info["authorised"] is False and o2[0] == "ok" and o2[1]:
            ctx.violation(f"verify-accepts-unauthorised:{kind}:in-place-{edit}", f"same Tx object verified {first}, then {edit} was edited in place and verify_input still returned True; analyser: {info['why']}",
                          {"op": "verify", "model": model, "spent": sp, "index": index, "cls": "in-place-" + edit, "kind": kind})
        undo()
        o3 = outcome(tx.verify_input, index)
        if not (o3[0] == "ok" and o3[1] is True):
            ctx.violation(f"verify-rejects-authorised:{kind}:after-undoing-in-place-edit", f"after restoring {edit}: {o3}", {"op": "build", "kind": kind})


def one_job(ctx, rng, kind):
    small = ctx.tier == "quick"
    o = outcome(build_signed, rng, kind, small)
    if o[0] != "ok":
        ctx.violation(f"signing-raises:{kind}", o[1], {"op": "build", "kind": kind})
        return
    tx, index, spent, meta = o[1]
    with contracts.suspended():
        model = model_of_tx(tx)
    case = {"op": "verify", "model": model, "spent": spent, "index": index, "cls": "positive", "kind": kind}
    info = spend.analyse(model, spent, index)
    if info["authorised"] is not True:
        # the library's own signer produced something the reference does not consider authorised
        ctx.violation(f"library-signed-spend-not-authorised:{kind}", f"analyser: {info}", case)
        return
    ctx.count("pos:" + kind)
    if meta.get("key_object_uncompressed"):
        ctx.count("pos:segwit-v0-with-uncompressed-key-object")
    note_rule(ctx, kind)
    v = lib_verify(model, spent, index)
    ctx.monitor("verify_input-positive")
    if not (v[0] == "ok" and v[1] is True):
        ctx.violation(f"verify-rejects-authorised:{kind}", f"verify_input gave {v}", case)
    if meta["lib_said"] is not True:
        ctx.violation(f"sign-helper-reports-failure:{kind}", f"sign/finalize returned {meta['lib_said']!r}", case)
    ctx.case((tc.encode(model), [(s["amount"], s["script"]) for s in spent], index))
    if len(ctx.samples) < 3:
        ctx.sample({"kind": kind, "m": meta["m"], "n": meta["n"], "tx": tc.encode(model)[:300], "index": index})
    in_place_history(ctx, rng, tx, index, spent, kind)
    for cls, m2, s2 in mutations(rng, model, spent, index, meta):
        if ctx.out_of_time():
            return
        try:
            judge_negative(ctx, cls, kind, m2, s2, index)
        except ValueError:
            ctx.count("mut:unbuildable")
    keyless_fuzz(ctx, rng, kind, model, spent, index, 30 if small else 250)


def shards(tier, seed):
    n = 16
    q = tier == "quick"
    return [{"name": "spends", "idx": i, "n": n, "jobs": 3 if q else 45, "budget_s": 1200 if q else 6000} for i in range(n)]


def run_shard(desc, ctx):
    ec.selfcheck()
    sh.selfcheck()
    spend.selfcheck()
    install()
    rng = ctx.rng()
    idx = desc["idx"]
    for j in range(desc["jobs"]):
        if ctx.out_of_time():
            return
        kind = KINDS[(idx * desc["jobs"] + j) % len(KINDS)] if ctx.tier == "quick" else KINDS[(idx + j) % len(KINDS)]
        one_job(ctx, rng, kind)


def replay(case, ctx):
    install()
    if case.get("op") == "verify":
        model, spent, index = case["model"], case["spent"], case["index"]
        info = spend.analyse(model, spent, index)
        o = lib_verify(model, spent, index)
        ctx.monitor("verify_input-replay")
        if info["authorised"] is False and o[0] == "ok" and o[1]:
            ctx.violation(f"verify-accepts-unauthorised:{case.get('kind')}:{case.get('cls')}", f"{o}; analyser {info['why']}", case)
        if info["authorised"] is True and case.get("cls") == "positive" and not (o[0] == "ok" and o[1] is True):
            ctx.violation(f"verify-rejects-authorised:{case.get('kind')}", f"{o}", case)
    elif case.get("op") == "keyless":
        o = lib_verify(case["model"], case["spent"], case["index"])
        ctx.monitor("verify_input-replay")
        if o[0] == "ok" and o[1]:
            ctx.violation(f"verify-accepts-keyless-spend:{case.get('kind')}", f"{o}", case)
    else:
        one_job(ctx, ctx.rng("replay"), case.get("kind", "p2wpkh"))
