"""C11 - PSBT review summary is faithful: sums add up and "change" is only what the wallet can spend.

Boundary monitor around PSBT.parse + describe_basic_multisig on honest PSBTs and on a tamper catalogue
applied at the BIP174 key-value level (independent TLV codec).  Oracles:
  * arithmetic: fee == sum(inputs) - sum(outputs), spend + change + fee == sum(inputs), against the returned
    dict AND against ground truth known to the workload;
  * independent change oracle: for every output the library labels change, re-derive - with the reference
    BIP32 from the wallet *seeds* - one child key per declared cosigner at the path stated in the output's
    metadata, rebuild the sorted m-of-n script with the inputs' quorum and require the scriptPubKey to be
    its P2SH / P2WSH commitment;
  * tampered PSBTs: an exception, or (for output tampers) "not labelled change and sums still truthful".
Contract on describe_basic_multisig: conservation inside the returned dict (fires in any workload).
"""
import hashlib

from ref import bip32, ec, psbt as rp, sighash as sh, txcodec as tc
from vmon import contracts
from vmon.core import outcome

PROPERTY_ID = "C11"
REPO_TEST_MODULES = ["test_psbt", "test_psbt_helper"]  # thorough tier: run as an extra workload under the contracts
RULE = (
    "cases = (wallet kind, m-of-n, inputs, output layout, tamper class) PSBTs given to PSBT.parse + "
    "describe_basic_multisig (with the PSBT's own xpubs or an explicit hdpubkey_map); honest ones must be summarised "
    "with exact sums and only genuine change labelled; tampered ones must raise or stay truthful; distinct = PSBT "
    "bytes + map mode by hash; non-trivial = the summary (or the exception) was compared with ground truth and every "
    "change label was re-derived by the reference"
)
ASSUMPTIONS = [
    "a witness-UTXO amount altered while no signature is present is not detectable by any PSBT reader and is not demanded",
    "describe_basic_multisig supports P2SH and P2WSH wallets only (P2SH-P2WSH is refused by design)",
    "accepted outcomes for an output tamper: an exception, or the output not labelled change with truthful sums",
]

TAMPERS_OUT = [
    "swap-change-spk:p2pkh", "swap-change-spk:p2wpkh", "swap-change-spk:p2sh", "swap-change-spk:p2wsh", "swap-change-spk:p2tr",
    "swap-change-spk-redeem-only-metadata", "foreign-wallet-change", "single-cosigner-change", "duplicated-cosigner-change",
    "change-wrong-path", "change-foreign-fingerprint", "change-quorum-lowered", "second-change-output", "spend-output-dressed-as-change",
    "change-one-wallet-key-rest-foreign", "change-foreign-keys-unwalkable-path", "change-key-count-differs-from-op-n",
    "change-hash-under-wrong-template",
]
TAMPERS_IN = [
    "input-prev-tx-altered", "input-witness-utxo-amount-with-sig", "input-foreign-script", "input-derivation-wrong-path",
    "input-derivation-foreign-fingerprint", "global-xpub-replaced", "input-witness-utxo-amount-no-sig(not demanded)",
    "input-legacy-p2sh-amount-via-witness-utxo", "input-foreign-redeem-script-with-witness-utxo",
    "later-input-foreign-key-under-known-path", "in-place-prev-tx-amount",
    "input-p2wsh-foreign-witness-script-with-nonwitness-utxo", "input-both-utxo-forms-amount-mismatch",
    "input-wallet-script-in-unused-slot", "derivations-under-another-account-prefix",
]

GATES = {
    "contract-ran": ["PSBT.describe_basic_multisig"],
    "honest-kinds": ["honest:p2sh", "honest:p2wsh"],
    "honest-layouts": ["layout:with-change", "layout:sweep", "layout:batch"],
    "map-modes": ["map:psbt-xpubs", "map:explicit"],
    "change-oracle-ran": ["change-label-rederived"],
    "out-tampers": ["tamper:" + t for t in TAMPERS_OUT],
    "in-tampers": ["tamper:" + t for t in TAMPERS_IN],
    "tamper-raised": ["tamper-outcome:raised"],
    "input-shapes": ["inputs:two-outputs-of-one-prev-tx", "account-path:ends-unhardened"],
}


def anchors():
    from buidl import psbt

    return [psbt.PSBT.describe_basic_multisig, psbt.PSBT._describe_basic_multisig_inputs, psbt.PSBT._describe_basic_multisig_outputs,
            psbt.PSBTOut.validate, psbt.PSBTIn.validate]


def post_describe(args, kwargs, pre, out):
    ctx = contracts.ctx()
    if out[0] == "exc":
        return NotImplemented
    d = out[1]
    if d["tx_fee_sats"] != d["total_input_sats"] - d["total_output_sats"]:
        ctx.violation("summary-fee-not-inputs-minus-outputs", f"{d['tx_fee_sats']} != {d['total_input_sats']} - {d['total_output_sats']}", {"op": "summary", "d": {k: d[k] for k in ("tx_fee_sats", "total_input_sats", "total_output_sats", "spend_sats", "change_sats")}})
    if d["spend_sats"] + d["change_sats"] + d["tx_fee_sats"] != d["total_input_sats"]:
        ctx.violation("summary-spend-change-fee-not-inputs", f"{d['spend_sats']}+{d['change_sats']}+{d['tx_fee_sats']} != {d['total_input_sats']}", {"op": "summary"})
    if sum(o["sats"] for o in d["outputs_desc"]) != d["total_output_sats"] or sum(i["sats"] for i in d["inputs_desc"]) != d["total_input_sats"]:
        ctx.violation("summary-totals-not-sum-of-parts", "totals differ from the per-input/per-output rows", {"op": "summary"})


def install():
    from buidl import psbt

    contracts.install(psbt.PSBT, "describe_basic_multisig", post_describe)


# ---- ground truth from seeds with the reference BIP32 --------------------------------------------------------
class Truth:
    def __init__(self, wallet):
        self.kind, self.m, self.n = wallet.kind, wallet.m, wallet.n
        self.account_path = bip32.parse_path(wallet.account_path)
        self.accounts = []  # (xfp bytes, K point, chain code)
        for seed in wallet.seeds:
            k, c = bip32.master(seed)
            xfp = bip32.fingerprint(ec.mul(k))
            ka, ca = bip32.derive_path_priv(k, c, self.account_path)
            self.accounts.append((xfp, ec.mul(ka), ca))

    def child_keys(self, branch, idx):
        out = []
        for xfp, K, c in self.accounts:
            K1, c1 = bip32.ckd_pub(K, c, branch)
            K2, _ = bip32.ckd_pub(K1, c1, idx)
            out.append(ec.sec(K2))
        return out

    def script(self, secs, m=None):
        return tc.script_bytes([0x50 + (m or self.m)] + sorted(secs) + [0x50 + len(secs), 0xAE])

    def commit(self, script, kind=None):
        kind = kind or self.kind
        if kind == "p2sh":
            return b"\xa9\x14" + hashlib.new("ripemd160", hashlib.sha256(script).digest()).digest() + b"\x87"
        return b"\x00\x20" + hashlib.sha256(script).digest()

    def deriv_value(self, who, branch, idx):
        return self.accounts[who][0] + b"".join(i.to_bytes(4, "little") for i in self.account_path + [branch, idx])

    def change_label_faithful(self, spk, out_map):
        """The independent change oracle (see module docstring)."""
        derivs = [(k[1:], v) for k, v in out_map if k[:1] == b"\x02" and len(k) == 34]
        keys = []
        used = set()
        for xfp, K, c in self.accounts:
            mine = [(pk, v) for pk, v in derivs if v[:4] == xfp]
            if len(mine) != 1:
                return False, f"{len(mine)} derivations for cosigner {xfp.hex()}"
            pk, v = mine[0]
            path = [int.from_bytes(v[4 + 4 * j: 8 + 4 * j], "little") for j in range((len(v) - 4) // 4)]
            if path[: len(self.account_path)] != self.account_path or any(p >= 2**31 for p in path[len(self.account_path):]):
                return False, "path does not extend the cosigner's account path without hardening"
            Kc, cc = K, c
            for p in path[len(self.account_path):]:
                Kc, cc = bip32.ckd_pub(Kc, cc, p)
            if ec.sec(Kc) != pk:
                return False, "stated key is not the key at the stated path"
            keys.append(pk)
            used.add(xfp)
        if len(derivs) != len(self.accounts):
            return False, "more derivations than cosigners"
        script = self.script(keys)
        if spk != self.commit(script):
            return False, "scriptPubKey is not the commitment of the m-of-n script over the cosigners' keys"
        return True, "ok"


# ---- describe through the library ----------------------------------------------------------------------------
def lib_describe(raw, network, explicit_map=None):
    from props.psbtlib import reparse

    def go():
        p = reparse(raw, network)
        if explicit_map is not None:
            return p.describe_basic_multisig(hdpubkey_map=explicit_map)
        return p.describe_basic_multisig()

    return outcome(go)


def judge(ctx, cls, expectation, raw, wallet, truth, o, map_mode):
    """expectation: honest | must-raise | raise-or-not-change | not-demanded"""
    maps = rp.decode(raw)
    model = maps["tx"]
    case = {"op": "describe", "raw": raw, "network": wallet.network, "cls": cls, "seeds": wallet.seeds, "kind": wallet.kind, "m": wallet.m,
            "n": wallet.n, "path": wallet.account_path, "map": map_mode}
    ctx.monitor("describe-judged")
    ctx.case((raw, map_mode))
    if o[0] == "exc":
        if expectation == "honest":
            ctx.violation(f"honest-psbt-not-summarised:{wallet.kind}", o[1], case)
        else:
            ctx.count("tamper-outcome:raised")
            ctx.rejected_by_exception += 1
        return
    d = o[1]
    if expectation == "must-raise":
        ctx.violation(f"tampered-psbt-summarised:{cls}", f"summary returned (fee {d['tx_fee_sats']})", case)
        return
    # sums against ground truth read from the PSBT bytes with the independent reader
    in_total = 0
    for k, imap in enumerate(maps["ins"]):
        vout = model["ins"][k]["vout"]
        amt = None
        for key, val in imap:
            if key == b"\x00":
                prev, _ = tc.decode(val)
                amt = prev["outs"][vout]["amount"]
            elif key == b"\x01":
                amt = int.from_bytes(val[:8], "little")
        in_total += amt or 0
    out_total = sum(o_["amount"] for o_ in model["outs"])
    if d["tx_fee_sats"] != in_total - out_total or d["total_input_sats"] != in_total or d["total_output_sats"] != out_total:
        ctx.violation(f"summary-sums-wrong:{cls}", f"fee {d['tx_fee_sats']} expected {in_total - out_total}", case)
    if d["spend_sats"] + d["change_sats"] + d["tx_fee_sats"] != in_total:
        ctx.violation(f"summary-not-conserved:{cls}", f"{d['spend_sats']}+{d['change_sats']}+{d['tx_fee_sats']} != {in_total}", case)
    labelled = 0
    for k, od in enumerate(d["outputs_desc"]):
        if od.get("is_change"):
            labelled += 1
            ctx.count("change-label-rederived")
            ok, why = truth.change_label_faithful(model["outs"][k]["script"], maps["outs"][k])
            if not ok:
                ctx.violation(f"change-label-unfaithful:{cls}", f"output {k} labelled change: {why}", case)
    if d["change_sats"] != sum(od["sats"] for od in d["outputs_desc"] if od.get("is_change")):
        ctx.violation(f"summary-change-sats-wrong:{cls}", "change_sats differs from the labelled outputs", case)
    if expectation == "honest":
        want = [bool(x) for x in case.get("_truth_change", [])]
        ctx.count("honest-summarised")
    elif expectation == "raise-or-not-change":
        ctx.count("tamper-outcome:summarised-truthfully" if not labelled else "tamper-outcome:summarised-with-change-label")


# ---- tamper catalogue (BIP174 key-value level) -----------------------------------------------------------------
def with_tx(maps, model):
    g = [(k, tc.encode_stripped(model) if k == b"\x00" else v) for k, v in maps["global"]]
    return {"global": g, "ins": [list(x) for x in maps["ins"]], "outs": [list(x) for x in maps["outs"]]}


def copy_model(model):
    return dict(model, ins=[dict(i) for i in model["ins"]], outs=[dict(o) for o in model["outs"]])


def out_meta(truth, secs_by_who_path, script, kind):
    """Output map for a change script: script entry + derivations.  secs_by_who_path: [(sec, deriv value)]"""
    m = [((b"\x00" if kind == "p2sh" else b"\x01"), script)]
    for sec, val in sorted(secs_by_who_path):
        m.append((b"\x02" + sec, val))
    return m


def tampers(ctx, rng, raw, signed_raw, wallet, truth, change_pos, paths=None, prev_raws=None):
    """Yields (class, expectation, bytes)."""
    maps = rp.decode(raw)
    model = maps["tx"]
    kind = wallet.kind
    if change_pos is not None:
        foreign = {
            "p2pkh": sh.p2pkh_script(rng.randbytes(20)), "p2wpkh": b"\x00\x14" + rng.randbytes(20), "p2sh": b"\xa9\x14" + rng.randbytes(20) + b"\x87",
            "p2wsh": b"\x00\x20" + rng.randbytes(32), "p2tr": b"\x51\x20" + ec.b32(ec.mul(rng.randrange(1, ec.N))[0]),
        }
        for name, spk in foreign.items():
            mo = copy_model(model)
            mo["outs"][change_pos]["script"] = spk
            yield f"swap-change-spk:{name}", "raise-or-not-change", rp.encode(with_tx(maps, mo))
        # the genuine change script's hash placed under ANOTHER output template (metadata kept): P2TR / P2WPKH / P2PKH shaped
        # outputs carrying sha256(script) or hash160(script) do not commit to the script - the coins would be burnt
        cscript = [v for k, v in maps["outs"][change_pos] if k in (b"\x00", b"\x01")]
        if cscript:
            h256, h160 = hashlib.sha256(cscript[0]).digest(), hashlib.new("ripemd160", hashlib.sha256(cscript[0]).digest()).digest()
            for spk in (b"\x51\x20" + h256, b"\x00\x14" + h160, b"\x76\xa9\x14" + h160 + b"\x88\xac", b"\x52\x20" + h256):
                mo = copy_model(model)
                mo["outs"][change_pos]["script"] = spk
                yield "change-hash-under-wrong-template", "raise-or-not-change", rp.encode(with_tx(maps, mo))
        # metadata converted to redeem-script-only, output re-pointed to a foreign P2SH
        mo = copy_model(model)
        mo["outs"][change_pos]["script"] = b"\xa9\x14" + rng.randbytes(20) + b"\x87"
        mm = with_tx(maps, mo)
        mm["outs"][change_pos] = [((b"\x00", v) if k in (b"\x00", b"\x01") else (k, v)) for k, v in mm["outs"][change_pos]]
        yield "swap-change-spk-redeem-only-metadata", "raise-or-not-change", rp.encode(mm)
        # attacker's own wallet as "change"
        atk = [bip32.master(rng.randbytes(32)) for _ in range(truth.n)]
        secs = [(ec.sec(ec.mul(k)), bip32.fingerprint(ec.mul(k)) + b"".join(i.to_bytes(4, "little") for i in truth.account_path + [1, 0])) for k, _ in atk]
        script = truth.script([s for s, _ in secs])
        mo = copy_model(model)
        mo["outs"][change_pos]["script"] = truth.commit(script)
        mm = with_tx(maps, mo)
        mm["outs"][change_pos] = out_meta(truth, secs, script, kind)
        yield "foreign-wallet-change", "raise-or-not-change", rp.encode(mm)
        # foreign keys announced under the REAL cosigner fingerprints with a path the cosigner's xpub cannot walk
        # (a hardened step below the account key, or a path shorter than the account path)
        for variant in ("hardened-below-xpub", "shorter-than-xpub"):
            fkeys = [ec.sec(ec.mul(rng.randrange(1, ec.N))) for _ in range(truth.n)]
            if variant == "hardened-below-xpub":
                path = truth.account_path + [1, 3 + 2**31]
            else:
                path = truth.account_path[:-1]
            secs = [(fkeys[w], truth.accounts[w][0] + b"".join(i.to_bytes(4, "little") for i in path)) for w in range(truth.n)]
            script = truth.script(fkeys)
            mo = copy_model(model)
            mo["outs"][change_pos]["script"] = truth.commit(script)
            mm = with_tx(maps, mo)
            mm["outs"][change_pos] = out_meta(truth, secs, script, kind)
            yield "change-foreign-keys-unwalkable-path", "raise-or-not-change", rp.encode(mm)
        # all keys from cosigner 0 (n > 1), and cosigner 0 twice
        if truth.n > 1:
            xfp0, K0, c0 = truth.accounts[0]
            K1, c1 = bip32.ckd_pub(K0, c0, 1)
            base = rng.randrange(100, 1000)
            own = [(ec.sec(bip32.ckd_pub(K1, c1, base + j)[0]), truth.deriv_value(0, 1, base + j)) for j in range(truth.n)]
            script = truth.script([s for s, _ in own])
            mo = copy_model(model)
            mo["outs"][change_pos]["script"] = truth.commit(script)
            mm = with_tx(maps, mo)
            mm["outs"][change_pos] = out_meta(truth, own, script, kind)
            yield "single-cosigner-change", "raise-or-not-change", rp.encode(mm)
            cidx = rng.randrange(0, 50)
            honest = truth.child_keys(1, cidx)
            dup = [(own[0][0], own[0][1]), (own[1][0], own[1][1])] + [(honest[w], truth.deriv_value(w, 1, cidx)) for w in range(2, truth.n)]
            script = truth.script([s for s, _ in dup])
            mo = copy_model(model)
            mo["outs"][change_pos]["script"] = truth.commit(script)
            mm = with_tx(maps, mo)
            mm["outs"][change_pos] = out_meta(truth, dup, script, kind)
            yield "duplicated-cosigner-change", "raise-or-not-change", rp.encode(mm)
            # script and scriptPubKey swapped consistently for {one genuine wallet key + foreign keys}; the honest
            # derivations of ALL cosigners are kept as metadata
            honest_ent = [(k[1:], v) for k, v in maps["outs"][change_pos] if k[:1] == b"\x02"]
            keep = rng.choice(honest_ent)[0]
            mixed = [keep] + [ec.sec(ec.mul(rng.randrange(1, ec.N))) for _ in range(truth.n - 1)]
            script = truth.script(mixed)
            mo = copy_model(model)
            mo["outs"][change_pos]["script"] = truth.commit(script)
            mm = with_tx(maps, mo)
            mm["outs"][change_pos] = out_meta(truth, honest_ent, script, kind)
            yield "change-one-wallet-key-rest-foreign", "raise-or-not-change", rp.encode(mm)
        # the honest keys and derivations kept, the small-number opcodes m and n kept, but a surplus foreign key pushed
        # among the keys (OP_m <cosigner keys> <foreign> OP_n CHECKMULTISIG): not the wallet's script (not even spendable)
        honest_ent = [(k[1:], v) for k, v in maps["outs"][change_pos] if k[:1] == b"\x02"]
        hk = sorted(s for s, _ in honest_ent)
        for variant in ("surplus-last", "surplus-sorted-in", "key-missing", "op-n-slot-other-opcode"):
            extra = ec.sec(ec.mul(rng.randrange(1, ec.N)))
            n_slot = 0x50 + truth.n
            if variant == "surplus-last":
                keys = hk + [extra]
            elif variant == "surplus-sorted-in":
                keys = sorted(hk + [extra])
            elif variant == "op-n-slot-other-opcode":
                # all keys genuine, but the opcode where OP_n belongs is something else (OP_RETURN, another number, OP_NOP)
                keys = hk
                n_slot = rng.choice([c for c in (0x6A, 0x60, 0x51, 0x61, 0x50 + truth.n + 1) if c != 0x50 + truth.n])
            else:
                if len(hk) < 2:
                    continue
                keys = hk[:-1]
            script = tc.script_bytes([0x50 + truth.m] + keys + [n_slot, 0xAE])
            mo = copy_model(model)
            mo["outs"][change_pos]["script"] = truth.commit(script)
            mm = with_tx(maps, mo)
            mm["outs"][change_pos] = out_meta(truth, honest_ent, script, kind)
            yield "change-key-count-differs-from-op-n", "raise-or-not-change", rp.encode(mm)
        # wrong path / foreign fingerprint in one change derivation
        for name in ("change-wrong-path", "change-foreign-fingerprint"):
            mm = with_tx(maps, model)
            ent = [j for j, (k, _) in enumerate(mm["outs"][change_pos]) if k[:1] == b"\x02"]
            j = rng.choice(ent)
            k, v = mm["outs"][change_pos][j]
            if name == "change-wrong-path":
                v2 = v[:-4] + ((int.from_bytes(v[-4:], "little") + 1) % 2**31).to_bytes(4, "little")
            else:
                v2 = rng.randbytes(4) + v[4:]
            mm["outs"][change_pos][j] = (k, v2)
            yield name, "raise-or-not-change", rp.encode(mm)
        # lowered quorum on the change script (same keys)
        if truth.m > 1:
            ent = [(k[1:], v) for k, v in maps["outs"][change_pos] if k[:1] == b"\x02"]
            script = truth.script([s for s, _ in ent], m=truth.m - 1)
            mo = copy_model(model)
            mo["outs"][change_pos]["script"] = truth.commit(script)
            mm = with_tx(maps, mo)
            mm["outs"][change_pos] = out_meta(truth, ent, script, kind)
            yield "change-quorum-lowered", "raise-or-not-change", rp.encode(mm)
        else:
            ent = [(k[1:], v) for k, v in maps["outs"][change_pos] if k[:1] == b"\x02"]
            script = truth.script([s for s, _ in ent], m=truth.m + 1) if truth.n > truth.m else None
            if script:
                mo = copy_model(model)
                mo["outs"][change_pos]["script"] = truth.commit(script)
                mm = with_tx(maps, mo)
                mm["outs"][change_pos] = out_meta(truth, ent, script, kind)
                yield "change-quorum-lowered", "raise-or-not-change", rp.encode(mm)
    # a second genuine change output / a spend output dressed as change with the real change metadata
    spend_pos = [k for k in range(len(model["outs"])) if k != change_pos]
    if spend_pos:
        sp = rng.choice(spend_pos)
        cidx = rng.randrange(50, 90)
        keys = truth.child_keys(1, cidx)
        script = truth.script(keys)
        mo = copy_model(model)
        mo["outs"][sp]["script"] = truth.commit(script)
        mm = with_tx(maps, mo)
        mm["outs"][sp] = out_meta(truth, [(keys[w], truth.deriv_value(w, 1, cidx)) for w in range(truth.n)], script, kind)
        yield "second-change-output", "not-demanded", rp.encode(mm)
        if change_pos is not None:
            mm = with_tx(maps, model)
            mm["outs"][sp] = list(maps["outs"][change_pos])
            yield "spend-output-dressed-as-change", "raise-or-not-change", rp.encode(mm)
    # ---- inputs
    k_in = rng.randrange(len(model["ins"]))
    imap = maps["ins"][k_in]
    if kind == "p2sh":
        mm = with_tx(maps, model)
        new = []
        for k, v in imap:
            if k == b"\x00":
                prev, _ = tc.decode(v)
                prev["outs"][model["ins"][k_in]["vout"]]["amount"] += rng.choice([1, 100000])
                v = tc.encode(prev)
            new.append((k, v))
        mm["ins"][k_in] = new
        yield "input-prev-tx-altered", "must-raise", rp.encode(mm)
        # the previous transaction replaced by a bare (witness-style) UTXO: for a legacy P2SH input nothing then
        # ties the stated amount - or a foreign redeem script - to the transaction
        prev_raw = [v for k, v in imap if k == b"\x00"][0]
        prev, _ = tc.decode(prev_raw)
        po = prev["outs"][model["ins"][k_in]["vout"]]
        lied = {"amount": po["amount"] + rng.choice([1000, 10**6]), "script": po["script"]}
        mm = with_tx(maps, model)
        mm["ins"][k_in] = [((b"\x01", tc.txout_bytes(lied)) if k == b"\x00" else (k, v)) for k, v in imap]
        yield "input-legacy-p2sh-amount-via-witness-utxo", "must-raise", rp.encode(mm)
        mm = with_tx(maps, model)
        foreign_redeem = truth.script([ec.sec(ec.mul(rng.randrange(1, ec.N))) for _ in range(truth.n)])
        mm["ins"][k_in] = [((b"\x01", tc.txout_bytes(po)) if k == b"\x00" else ((k, foreign_redeem) if k == b"\x04" else (k, v))) for k, v in imap]
        yield "input-foreign-redeem-script-with-witness-utxo", "must-raise", rp.encode(mm)
    else:
        yield "input-prev-tx-altered", "skip", None
        for src, name, exp in ((raw, "input-witness-utxo-amount-no-sig(not demanded)", "not-demanded"), (signed_raw, "input-witness-utxo-amount-with-sig", "must-raise")):
            if src is None:
                continue
            ms = rp.decode(src)
            mm = with_tx(ms, ms["tx"])
            mm["ins"][k_in] = [((k, (int.from_bytes(v[:8], "little") + 1000).to_bytes(8, "little") + v[8:]) if k == b"\x01" else (k, v)) for k, v in ms["ins"][k_in]]
            yield name, exp, rp.encode(mm)
    if kind == "p2wsh" and prev_raws:
        # the witness UTXO replaced by the full previous transaction (BIP174 allows both forms), together with a FOREIGN
        # witness script: whichever record describes the UTXO, the script has to be the one the UTXO commits to
        foreign_ws = truth.script([ec.sec(ec.mul(rng.randrange(1, ec.N))) for _ in range(truth.n)], m=1)
        mm = with_tx(maps, model)
        mm["ins"][k_in] = [((b"\x00", prev_raws[k_in]) if k == b"\x01" else ((k, foreign_ws) if k == b"\x05" else (k, v))) for k, v in imap]
        yield "input-p2wsh-foreign-witness-script-with-nonwitness-utxo", "must-raise", rp.encode(mm)
        # both UTXO forms present and contradicting each other about the amount
        prev, _ = tc.decode(prev_raws[k_in])
        po = prev["outs"][model["ins"][k_in]["vout"]]
        lied = {"amount": max(1, po["amount"] // 50), "script": po["script"]}
        for order in ("witness-utxo-last", "witness-utxo-first"):
            mm = with_tx(maps, model)
            rest = [(k, v) for k, v in imap if k not in (b"\x00", b"\x01")]
            both = [(b"\x00", prev_raws[k_in]), (b"\x01", tc.txout_bytes(lied))]
            mm["ins"][k_in] = (both if order == "witness-utxo-last" else both[::-1]) + rest
            yield "input-both-utxo-forms-amount-mismatch", "must-raise", rp.encode(mm)
    # the wallet's script attached under the OTHER script key while the UTXO pays somewhere else: nothing compares a
    # script that sits in a slot the spent output's type does not use
    if kind == "p2wsh":
        mm = with_tx(maps, model)
        new = []
        for k, v in imap:
            if k == b"\x01":
                v = v[:8] + b"\x22\x00\x20" + rng.randbytes(32)  # same amount, foreign P2WSH
            elif k == b"\x05":
                k = b"\x04"
            new.append((k, v))
        mm["ins"][k_in] = new
        yield "input-wallet-script-in-unused-slot", "must-raise", rp.encode(mm)
    else:
        prev_raw = [v for k, v in imap if k == b"\x00"][0]
        prev, _ = tc.decode(prev_raw)
        vout = model["ins"][k_in]["vout"]
        for foreign_spk in (b"\xa9\x14" + rng.randbytes(20) + b"\x87", b"\x51\x20" + ec.b32(ec.mul(rng.randrange(1, ec.N))[0]), b"\x51", b"\x76\xa9\x14" + rng.randbytes(20) + b"\x88\xac"):
            p2 = dict(prev, outs=[dict(o) for o in prev["outs"]])
            p2["outs"][vout]["script"] = foreign_spk
            mo = copy_model(model)
            mo["ins"][k_in]["txid"] = tc.txid(p2)
            mm = with_tx(maps, mo)
            mm["ins"][k_in] = [((k, tc.encode(p2)) if k == b"\x00" else ((b"\x05", v) if k == b"\x04" else (k, v))) for k, v in imap]
            yield "input-wallet-script-in-unused-slot", "must-raise", rp.encode(mm)
    # foreign script on the input
    other = truth.script([ec.sec(ec.mul(rng.randrange(1, ec.N))) for _ in range(truth.n)])
    mm = with_tx(maps, model)
    mm["ins"][k_in] = [((k, other) if k in (b"\x04", b"\x05") else (k, v)) for k, v in imap]
    yield "input-foreign-script", "must-raise", rp.encode(mm)
    for name in ("input-derivation-wrong-path", "input-derivation-foreign-fingerprint"):
        mm = with_tx(maps, model)
        ent = [j for j, (k, _) in enumerate(mm["ins"][k_in]) if k[:1] == b"\x06"]
        j = rng.choice(ent)
        k, v = mm["ins"][k_in][j]
        v2 = v[:-4] + ((int.from_bytes(v[-4:], "little") + 1) % 2**31).to_bytes(4, "little") if name.endswith("path") else rng.randbytes(4) + v[4:]
        mm["ins"][k_in][j] = (k, v2)
        yield name, "must-raise", rp.encode(mm)
    # every derivation record (inputs and change) states another account prefix than the global xpub records do - same
    # depth, same tail: the keys are NOT at the stated paths (the xpubs' own records say where they sit)
    nacc = len(truth.account_path)
    # second variant: only the LAST account component differs, and its decimal text starts with the real one's (1 -> 17,
    # 2' -> 27'): a comparison of path strings without component boundaries takes it for a descendant
    last = truth.account_path[-1]
    sibling = (int(str(last % 2**31) + "7") % 2**31) + (2**31 if last >= 2**31 else 0)
    prefixes = [b"".join(((2**31) + x).to_bytes(4, "little") for x in (99, 7, 7, 7, 7, 7)[:nacc]),
                b"".join(x.to_bytes(4, "little") for x in truth.account_path[:-1] + [sibling])]
    for fake_prefix in prefixes:
        def reprefix(entries, tag, fake_prefix=fake_prefix):
            return [((k, v[:4] + fake_prefix + v[4 + 4 * nacc:]) if k[:1] == tag and len(v) >= 4 + 4 * nacc else (k, v)) for k, v in entries]

        mm = with_tx(maps, model)
        mm["ins"] = [reprefix(x, b"\x06") for x in mm["ins"]]
        mm["outs"] = [reprefix(x, b"\x02") for x in mm["outs"]]
        yield "derivations-under-another-account-prefix", "must-raise", rp.encode(mm)
    # one global xpub replaced by an attacker key (fingerprint/path kept)
    mm = with_tx(maps, model)
    gx = [j for j, (k, _) in enumerate(mm["global"]) if k[:1] == b"\x01"]
    if gx:
        j = rng.choice(gx)
        k, v = mm["global"][j]
        ak, ac = bip32.master(rng.randbytes(32))
        fake = k[:1] + k[1:14] + ac + ec.sec(ec.mul(ak))
        mm["global"][j] = (fake, v)
        yield "global-xpub-replaced", "must-raise", rp.encode(mm)
    # a later input rebuilt around a FOREIGN key that is announced under a cosigner's fingerprint and exactly the
    # path an earlier input already used (matching UTXO and script, so only the key derivation gives it away)
    if len(model["ins"]) >= 2 and paths:
        k_bad = 1 + rng.randrange(len(model["ins"]) - 1)
        branch, idx0 = paths[0]
        honest = truth.child_keys(branch, idx0)
        who = rng.randrange(truth.n)
        foreign_key = ec.sec(ec.mul(rng.randrange(1, ec.N)))
        keys = [foreign_key if w == who else honest[w] for w in range(truth.n)]
        script = truth.script(keys)
        utxo = {"amount": rng.randrange(200_000, 900_000), "script": truth.commit(script)}
        prev = {"version": 1, "ins": [{"txid": rng.randbytes(32), "vout": 0, "script": b"", "sequence": 0xFFFFFFFF, "witness": []}],
                "outs": [utxo], "locktime": 0, "segwit": False}
        mo = copy_model(model)
        mo["ins"][k_bad]["txid"] = tc.txid(prev)
        mo["ins"][k_bad]["vout"] = 0
        mm = with_tx(maps, mo)
        entries = [((b"\x00", tc.encode(prev)) if kind == "p2sh" else (b"\x01", tc.txout_bytes(utxo))), ((b"\x04" if kind == "p2sh" else b"\x05"), script)]
        entries += sorted((b"\x06" + keys[w], truth.deriv_value(w, branch, idx0)) for w in range(truth.n))
        mm["ins"][k_bad] = entries
        yield "later-input-foreign-key-under-known-path", "must-raise", rp.encode(mm)


# ---- one scenario -----------------------------------------------------------------------------------------------
def one_scenario(ctx, rng, kind, m, n, network, n_in, layout, quick, shared_prev=False):
    from buidl.hd import HDPublicKey
    from props.psbtlib import Scenario, Wallet, reparse

    # BIP45-style account paths end in an UNHARDENED component (m/45'/1): used for every third scenario
    acct = "m/45'/1" if ctx.classes.get("layout:" + layout, 0) % 3 == 1 or ctx.desc.get("idx", 0) % 3 == 2 else None
    if acct:
        ctx.count("account-path:ends-unhardened")
    wallet = Wallet(rng, kind, m, n, network, account_path=acct)
    truth = Truth(wallet)
    n_spend = {"with-change": 1, "sweep": 1, "batch": rng.choice([2, 3])}[layout]
    with_change = layout != "sweep"
    sc = Scenario(rng, wallet, n_in=n_in, n_spend=n_spend, with_change=with_change, shared_prev=shared_prev)
    ctx.count("layout:" + layout)
    if shared_prev and n_in >= 2:
        ctx.count("inputs:two-outputs-of-one-prev-tx")
    o = outcome(lambda: sc.create_psbt().serialize())
    if o[0] == "exc":
        ctx.violation(f"psbt-create-raises:{kind}", o[1], {"op": "wallet", "kind": kind, "m": m, "n": n})
        return
    raw = o[1]
    change_pos = next((k for k, x in enumerate(sc.outputs) if x[2]), None)
    # cross-check ground truth: reference-derived change script equals the output the library built
    if change_pos is not None:
        branch, cidx = sc.outputs[change_pos][3]
        if truth.commit(truth.script(truth.child_keys(branch, cidx))) != sc.outputs[change_pos][1].raw_serialize():
            ctx.violation("wallet-change-script-differs-from-reference", f"{kind} {m}-of-{n}", {"op": "wallet", "kind": kind, "m": m, "n": n})
            return
    ctx.count("honest:" + kind)
    explicit = {xfp: HDPublicKey.parse(acc.xpub()) for xfp, acc in zip(wallet.xfps, wallet.accounts)}
    # honest, both map modes
    for mode in ("psbt-xpubs", "explicit"):
        ctx.count("map:" + mode)
        bytes_ = raw
        if mode == "explicit":
            mm = rp.decode(raw)
            mm["global"] = [(k, v) for k, v in mm["global"] if k[:1] != b"\x01"]
            bytes_ = rp.encode(mm)
        od = lib_describe(bytes_, network, explicit if mode == "explicit" else None)
        judge(ctx, "honest", "honest", bytes_, wallet, truth, od, mode)
        if od[0] == "ok":
            d = od[1]
            if d["tx_fee_sats"] != sc.fee or d["total_input_sats"] != sum(sc.input_sats):
                ctx.violation("honest-summary-differs-from-scenario", f"fee {d['tx_fee_sats']} vs {sc.fee}", {"op": "describe", "raw": bytes_, "network": network})
            labels = [bool(x.get("is_change")) for x in d["outputs_desc"]]
            if labels != [x[2] for x in sc.outputs]:
                ctx.violation("honest-change-labels-wrong", f"{labels} vs {[x[2] for x in sc.outputs]}", {"op": "describe", "raw": bytes_, "network": network, "cls": "honest", "seeds": wallet.seeds, "kind": kind, "m": m, "n": n, "path": wallet.account_path, "map": mode})
            if len(ctx.samples) < 3:
                ctx.sample({"kind": kind, "m": m, "n": n, "layout": layout, "summary": d["tx_summary_text"], "labels": labels, "psbt": bytes_[:160]})
    # a signed copy (for the amount-with-signature tamper)
    signed_raw = None
    if kind == "p2wsh":
        os_ = outcome(lambda: _signed(raw, wallet))
        signed_raw = os_[1] if os_[0] == "ok" else None
    if kind == "p2sh":
        in_place_history(ctx, raw, wallet, truth)
    for cls, exp, tb in tampers(ctx, rng, raw, signed_raw, wallet, truth, change_pos, paths=[f[3] for f in sc.funding], prev_raws=[f[0].serialize() for f in sc.funding]):
        if ctx.out_of_time():
            return
        ctx.count("tamper:" + cls)
        if exp == "skip":
            continue
        mode = "psbt-xpubs" if cls in ("global-xpub-replaced", "derivations-under-another-account-prefix") or rng.random() < 0.5 else "explicit"
        bytes_ = tb
        if mode == "explicit":
            mm = rp.decode(tb)
            mm["global"] = [(k, v) for k, v in mm["global"] if k[:1] != b"\x01"]
            bytes_ = rp.encode(mm)
        od = lib_describe(bytes_, network, explicit if mode == "explicit" else None)
        judge(ctx, cls, exp, bytes_, wallet, truth, od, mode)


def in_place_history(ctx, raw, wallet, truth):
    """History on ONE parsed PSBT object: summarise it, change the attached previous transaction's amount in place,
    summarise again.  The second call sees a PSBT whose UTXO no longer matches the transaction and must reject it
    (a validation result remembered from the first call must not be reused)."""
    from props.psbtlib import reparse

    def go():
        p = reparse(raw, wallet.network)
        d1 = p.describe_basic_multisig()
        pin = p.psbt_ins[0]
        out = pin.prev_tx.tx_outs[pin.tx_in.prev_index]
        out.amount += 123_456
        try:
            d2 = p.describe_basic_multisig()
        except Exception as e:  # noqa: BLE001
            return d1, ("exc", type(e).__name__)
        return d1, ("ok", d2)

    o = outcome(go)
    ctx.count("tamper:in-place-prev-tx-amount")
    ctx.monitor("describe-in-place-history")
    ctx.case(("in-place", raw))
    case = {"op": "describe", "raw": raw, "network": wallet.network, "cls": "in-place-prev-tx-amount"}
    if o[0] == "exc":
        ctx.count("observed:in-place-history-first-describe-raised")
        return
    d1, second = o[1]
    if second[0] == "ok":
        ctx.violation("tampered-psbt-summarised:in-place-prev-tx-amount",
                      f"after editing the attached previous tx in place the same object was summarised again (fee {d1['tx_fee_sats']} -> {second[1]['tx_fee_sats']})", case)
    else:
        ctx.count("tamper-outcome:raised")


def _signed(raw, wallet):
    from props.psbtlib import reparse

    p = reparse(raw, wallet.network)
    p.sign(wallet.roots[0])
    return p.serialize()


PLAN = [("p2sh", 2, 3), ("p2wsh", 2, 3), ("p2sh", 1, 2), ("p2wsh", 1, 2), ("p2sh", 2, 2), ("p2wsh", 3, 3), ("p2sh", 1, 1), ("p2wsh", 1, 1),
        ("p2wsh", 2, 4), ("p2sh", 3, 4), ("p2sh", 3, 3), ("p2wsh", 2, 2), ("p2wsh", 1, 3), ("p2sh", 1, 3), ("p2wsh", 4, 4), ("p2sh", 2, 4)]
LAYOUTS = ["with-change", "batch", "with-change", "sweep"]


def shards(tier, seed):
    n = 16
    q = tier == "quick"
    return [{"name": "describe", "idx": i, "n": n, "rounds": 1 if q else 8, "budget_s": 1500 if q else 6000, "hard_timeout_s": 2400 if q else 9000} for i in range(n)]


def run_shard(desc, ctx):
    ec.selfcheck()
    bip32.selfcheck()
    rp.selfcheck()
    install()
    rng = ctx.rng()
    idx = desc["idx"]
    quick = ctx.tier == "quick"
    for rnd in range(desc["rounds"]):
        kind, m, n = PLAN[(idx + 3 * rnd) % len(PLAN)]
        if quick and n == 4:
            kind, m, n = PLAN[idx % 6]
        layout = LAYOUTS[(idx + rnd) % len(LAYOUTS)]
        n_in = (2 if idx % 4 == 0 else 1) if quick else rng.choice([1, 2, 3])
        one_scenario(ctx, rng, kind, m, n, "mainnet" if (idx + rnd) % 2 else "testnet", n_in, layout, quick, shared_prev=n_in >= 2 and (idx // 4 + rnd) % 2 == 0)
        if ctx.out_of_time():
            return


def replay(case, ctx):
    from buidl.hd import HDPublicKey
    from props.psbtlib import Wallet

    install()
    if case.get("op") == "describe" and case.get("seeds"):
        class W:  # minimal stand-in carrying what Truth needs
            pass
        w = W()
        w.kind, w.m, w.n, w.seeds, w.account_path, w.network = case["kind"], case["m"], case["n"], case["seeds"], case["path"], case["network"]
        truth = Truth(w)
        explicit = None
        if case.get("map") == "explicit":
            explicit = {}
            for (xfp, K, c), seed in zip(truth.accounts, w.seeds):
                k0, c0 = bip32.master(seed)
                node = bip32.node_priv(k0, c0, truth.account_path)
                ver = "0488b21e" if w.network == "mainnet" else "043587cf"
                explicit[xfp.hex()] = HDPublicKey.parse(bip32.serialize_xpub(ver, node["depth"], node["parent_fp"], node["child_num"], c, K))
        od = lib_describe(case["raw"], w.network, explicit)
        cls = case.get("cls", "honest")
        exp = "honest" if cls == "honest" else ("must-raise" if cls.startswith("input-") or cls.startswith("derivations-") or cls == "global-xpub-replaced" else "raise-or-not-change")
        judge(ctx, cls, exp, case["raw"], w, truth, od, case.get("map"))
    else:
        one_scenario(ctx, ctx.rng("replay"), case.get("kind", "p2wsh"), case.get("m", 2), case.get("n", 3), "mainnet", 1, "with-change", True)
