"""C09 - Base58Check / Bech32(m) / standard addresses / WIF: encoders equal the specifications,
decoders invert them, and corrupted strings are rejected.

Monitors (contracts on the real functions, decided against ref.textenc):
  helper.encode_base58 / encode_base58_checksum   string == reference encoder
  helper.raw_decode_base58                        accepted  <=>  4-byte double-SHA256 checksum matches; value
  bech32.encode_bech32_checksum                   string == BIP173/BIP350 encoder (constant by witness version)
  bech32.decode_bech32                            valid lowercase address -> (network, version, program);
                                                  bad checksum / other version's constant / <=2 substitutions -> rejected
  bech32.group_32                                 == 8->5 regrouping with zero padding
  PrivateKey.wif / PrivateKey.parse               == reference WIF codec (network modulo the shared 0xef prefix)
  {P2PKH,P2SH,Segwit,P2TR}ScriptPubKey.address    == reference address of the template on that network
  script.address_to_script_pubkey, TxOut.to_address   script == reference script of the address; invalid rejected
Boundary monitors in the driver: decode(encode(x)) == x, script -> address -> script, address -> script -> address.
"""
from ref import textenc as te
from vmon import contracts
from vmon.util import N, boundary_secrets, rand_secret

PROPERTY_ID = "C09"
RULE = (
    "cases = (a) byte payloads 0..82 bytes with leading-zero runs 0..len through encode_base58(_checksum) and "
    "raw_decode_base58, their 4 single-checksum-byte corruptions and all 57 in-alphabet substitutions at sampled "
    "positions; (b) secrets x {compressed, uncompressed} x 4 networks through PrivateKey.wif / PrivateKey.parse; "
    "(c) witness version 0..16 x program length 2..40 x 4 networks through encode_bech32_checksum / decode_bech32 "
    "plus the same data under the other version's checksum constant; (d) 5 scriptPubKey templates x 4 networks "
    "through address(), address_to_script_pubkey, TxOut.to_address; (e) every single substitution at every "
    "data-part position of sampled segwit addresses (exhaustive per address) and sampled / per-address exhaustive "
    "double substitutions incl. pairs touching the version character.  Every case is decided by a contract on the "
    "real function against the reference codec; distinct = distinct concrete input strings/bytes by hash; "
    "non-trivial = the contract reached its comparison (reference value or reference verdict computed)"
)
ASSUMPTIONS = [
    "signet shares hrp 'tb' and WIF/base58 prefixes with testnet: decoded network names are compared modulo that",
    "TxOut.to_address is not required to handle 'bcrt' addresses (it has no regtest branch); correctness is required whenever it returns",
    "acceptance by decode_bech32 of witness version > 16 or a v0 program length other than 20/32 (the quantifier is versions 0-16 x lengths 2-40) and "
    "rejection of upper-case addresses are outside the statement: counted as observed:*, not alarmed; non-canonical padding, a wrong regtest separator and "
    "Base58Check strings that are no address form ARE alarmed (a second string for a script that has its address breaks the bijection)",
    "encode_base58(b'') (not a Base58Check string) raising is counted as an observation",
    "thorough tier registers only a capped sample of double-substitution strings as distinct cases (all are evaluated)",
]

NETWORKS = ("mainnet", "testnet", "signet", "regtest")
NET_OF_HRP = {"bc": "mainnet", "tb": "testnet", "bcrt": "regtest"}
KINDS = te.TEMPLATES

GATES = {
    "base58-monitors-ran": ["helper.encode_base58", "helper.encode_base58_checksum", "helper.raw_decode_base58"],
    "bech32-monitors-ran": ["bech32.encode_bech32_checksum", "bech32.decode_bech32", "bech32.group_32"],
    "wif-monitors-ran": ["PrivateKey.wif", "PrivateKey.parse"],
    "address-monitors-ran": [
        "P2PKHScriptPubKey.address", "P2SHScriptPubKey.address", "SegwitPubKey.address", "P2TRScriptPubKey.address",
        "script.address_to_script_pubkey", "TxOut.to_address",
    ],
    "base58-payload-lengths": ["b58:len=0", "b58:len=1", "b58:len=20", "b58:len=21", "b58:len=33", "b58:len=34", "b58:len=78", "b58:len=82"],
    "base58-leading-zero-runs": ["b58:zeros=0", "b58:zeros=1", "b58:zeros=2", "b58:zeros>2", "b58:zeros=all", "b58:first-byte>=0x80"],
    "base58-negative-classes": ["b58neg:chk-byte-0", "b58neg:chk-byte-1", "b58neg:chk-byte-2", "b58neg:chk-byte-3", "b58neg:subst-in-alphabet", "b58neg:non-alphabet", "b58:decode-valid", "b58:decode-invalid"],
    "wif-classes": ["wif:%s:%s" % (n, c) for n in NETWORKS for c in ("compressed", "uncompressed")] + ["wif:parse-valid", "wif:parse-corrupted"],
    "witness-versions": ["bech32:ver=%d" % v for v in range(17)],
    "program-lengths": ["bech32:len=%d" % n for n in range(2, 41)],
    "bech32-networks": ["bech32:net=" + n for n in NETWORKS],
    "bech32-constants": ["bech32:valid-bech32", "bech32:valid-bech32m", "wrong-const:v0-with-bech32m", "wrong-const:v1+-with-bech32"],
    "templates-x-networks": ["address:%s:%s" % (k, n) for k in KINDS for n in NETWORKS]
    + ["a2s:" + k for k in KINDS] + ["to_address:" + k for k in KINDS] + ["roundtrip:script-address-script", "roundtrip:address-script-address"],
    "substitution-classes": [
        "subst1:version-char", "subst1:program-char", "subst1:checksum-char", "subst1:non-alphabet",
        "subst2:incl-version-char", "subst2:program+checksum", "subst2:program-only", "subst2:checksum-only",
        "subst-base:v0-20", "subst-base:v0-32", "subst-base:v1-32", "subst-base:other-version",
        "subst-base:hrp=bc", "subst-base:hrp=tb", "subst-base:hrp=bcrt", "decode:reject:checksum", "decode:tagged-subst1", "decode:tagged-subst2",
        "subst-via:address_to_script_pubkey", "subst-via:to_address",
    ],
    "exhaustive-doubles": {"quick": [], "thorough": ["subst2:exhaustive-address"]},
    "decode-histories": ["history:decode-again-after-caller-edited-result"],
    "second-strings-for-one-script": ["a2s:version-x-template-length", "non-address-base58:other-version", "non-address-base58:payload-19", "non-address-base58:payload-21",
                                      "lenient-probe:non-zero-padding", "lenient-probe:over-long-padding", "lenient-probe:regtest-separator"],
}

_state = {"tag": None, "register": True}


def anchors():
    from buidl import bech32, helper, pecc, script, tx

    return [
        helper.encode_base58, helper.encode_base58_checksum, helper.raw_decode_base58, bech32.bech32_polymod,
        bech32.group_32, bech32.encode_bech32_checksum, bech32.decode_bech32, script.address_to_script_pubkey,
        pecc.PrivateKey.wif, pecc.PrivateKey.parse, tx.TxOut.to_address,
    ]


# ---- contracts ---------------------------------------------------------------------------
def _arg(args, kwargs, pos, name, default=None):
    if len(args) > pos:
        return args[pos]
    return kwargs.get(name, default)


def post_encode_base58(args, kwargs, pre, out):
    ctx = contracts.ctx()
    s = _arg(args, kwargs, 0, "s")
    if not isinstance(s, (bytes, bytearray)):
        return NotImplemented
    s = bytes(s)
    if not s:
        ctx.count("observed:encode_base58-empty:" + ("raises" if out[0] == "exc" else "ok"))
        return NotImplemented
    case = {"op": "encode_base58", "data": s}
    exp = te.b58encode(s)
    if out[0] == "exc":
        ctx.violation("base58-encode-raises", f"encode_base58 raised {out[1]!r}", case)
    elif out[1] != exp:
        mech = "base58-encode-wrong:leading-zeros" if s[:1] == b"\x00" else "base58-encode-wrong"
        ctx.violation(mech, f"got {out[1]!r} expected {exp!r}", case)
    ctx.case(case)


def post_encode_base58_checksum(args, kwargs, pre, out):
    ctx = contracts.ctx()
    raw = _arg(args, kwargs, 0, "raw")
    if not isinstance(raw, (bytes, bytearray)):
        return NotImplemented
    raw = bytes(raw)
    case = {"op": "encode_base58_checksum", "data": raw}
    exp = te.b58check_encode(raw)
    if out[0] == "exc":
        ctx.violation("base58check-encode-raises", f"encode_base58_checksum raised {out[1]!r}", case)
    elif out[1] != exp:
        ctx.violation("base58check-encode-wrong", f"got {out[1]!r} expected {exp!r}", case)
    ctx.case(case)


def post_raw_decode_base58(args, kwargs, pre, out):
    ctx = contracts.ctx()
    s = _arg(args, kwargs, 0, "s")
    if not isinstance(s, str):
        return NotImplemented
    case = {"op": "raw_decode_base58", "s": s}
    exp = te.b58check_decode(s)
    if exp is not None:
        ctx.count("b58:decode-valid")
        if out[0] == "exc":
            ctx.violation("base58check-decode-rejects-valid", f"raised {out[1]!r} on a string whose checksum matches", case)
        elif out[1] != exp:
            ctx.violation("base58check-decode-wrong-value", f"got {bytes(out[1]).hex()} expected {exp.hex()}", case)
    else:
        ctx.count("b58:decode-invalid")
        if out[0] == "ok":
            mech = "base58check-accepts-non-base58" if te.b58decode(s) is None else "base58check-accepts-bad-checksum"
            ctx.violation(mech, f"returned {out[1]!r} for a string whose 4-byte checksum does not match", case)
        else:
            ctx.rejected_by_exception += 1
    if _state["register"]:
        ctx.case(case)


def _witness_parts(spk):
    """(version, program) if spk is a bare witness program scriptPubKey with program length 2..40."""
    if not isinstance(spk, (bytes, bytearray)) or len(spk) < 4:
        return None
    spk = bytes(spk)
    if spk[0] == 0:
        ver = 0
    elif 0x51 <= spk[0] <= 0x60:
        ver = spk[0] - 0x50
    else:
        return None
    if spk[1] != len(spk) - 2 or not 2 <= spk[1] <= 40:
        return None
    return ver, spk[2:]


def post_encode_bech32_checksum(args, kwargs, pre, out):
    ctx = contracts.ctx()
    spk = _arg(args, kwargs, 0, "s")
    network = _arg(args, kwargs, 1, "network", "mainnet")
    wp = _witness_parts(spk)
    if wp is None or network not in te.HRP:
        return NotImplemented
    ver, prog = wp
    case = {"op": "encode_bech32_checksum", "spk": bytes(spk), "network": network}
    hrp = te.HRP[network]
    exp = te.segwit_encode(hrp, ver, prog)
    if out[0] == "exc":
        ctx.violation("bech32-encode-raises", f"raised {out[1]!r}", case)
    elif out[1] != exp:
        other = te.bech32_encode(hrp, [ver] + te.to5(prog), te.BECH32M_CONST if ver == 0 else te.BECH32_CONST)
        if out[1] == other:
            mech = "bech32-encode-wrong-constant:" + ("v0" if ver == 0 else "v1+")
        else:
            mech = "bech32-encode-wrong"
        ctx.violation(mech, f"got {out[1]!r} expected {exp!r}", case)
    ctx.case(case)


def _tag_k(s, tag):
    """Number of substituted characters (1 or 2) if s really is the tagged base address with <=2
    characters of its data part replaced, else 0."""
    if not tag:
        return 0
    base = tag.get("base")
    if not isinstance(base, str) or len(base) != len(s) or te.segwit_check(base)[1] != "ok":
        return 0
    sep = base.rfind("1")
    diff = [i for i in range(len(s)) if s[i] != base[i]]
    if 1 <= len(diff) <= 2 and diff[0] > sep:
        return len(diff)
    return 0


def _invalid_address_mech(prefix, s, reason, k):
    if k:
        return f"{prefix}:subst{k}"
    if reason == "wrong-constant":
        return f"{prefix}:wrong-constant"
    return f"{prefix}:bad-checksum"


def post_decode_bech32(args, kwargs, pre, out):
    ctx = contracts.ctx()
    s = _arg(args, kwargs, 0, "s")
    if not isinstance(s, str):
        return NotImplemented
    tag = _state["tag"]
    case = {"op": "decode_bech32", "s": s, "tag": tag}
    parsed, reason = te.segwit_check(s)
    k = _tag_k(s, tag)
    if k:
        ctx.count("decode:tagged-subst%d" % k)
    if reason == "ok":
        if s != s.lower():
            ctx.count("observed:uppercase-valid-address:" + ("accepted" if out[0] == "ok" else "rejected"))
            return NotImplemented
        ctx.count("bech32:valid-bech32" if parsed[1] == 0 else "bech32:valid-bech32m")
        exp = [NET_OF_HRP[parsed[0]], parsed[1], parsed[2]]
        if out[0] == "exc":
            ctx.violation("bech32-decode-rejects-valid", f"raised {out[1]!r} on a valid address", case)
        elif list(out[1]) != exp:
            ctx.violation("bech32-decode-wrong-value", f"got {out[1]!r} expected {exp!r}", case)
    else:
        ctx.count("decode:reject:" + reason)
        if out[0] == "ok":
            if k or reason in ("checksum", "wrong-constant"):
                ctx.violation(
                    _invalid_address_mech("bech32-decode-accepts-invalid", s, reason, k),
                    f"returned {out[1]!r} for an invalid address (reference: {reason})", case,
                )
            elif reason == "padding" or (reason == "format" and s[:4] == "bcrt" and s[4:5] != "1"):
                # a second string for a program that already has its address: the address <-> scriptPubKey mapping
                # stops being a bijection (BIP173: non-zero or over-long padding MUST be rejected; the separator is "1")
                why = "noncanonical-padding" if reason == "padding" else "wrong-separator"
                ctx.violation("bech32-decode-accepts-invalid:" + why, f"returned {out[1]!r}; the canonical address of that program is another string", case)
            else:
                ctx.count("observed:decode-accepts:" + reason)
                if parsed is not None and list(out[1]) != [NET_OF_HRP[parsed[0]], parsed[1], parsed[2]]:
                    ctx.violation("bech32-decode-wrong-value", f"got {out[1]!r} for data {parsed!r}", case)
        else:
            ctx.rejected_by_exception += 1
    if _state["register"]:
        ctx.case(case)


def post_group_32(args, kwargs, pre, out):
    ctx = contracts.ctx()
    s = _arg(args, kwargs, 0, "s")
    if not isinstance(s, (bytes, bytearray)) or len(s) == 0:
        return NotImplemented
    case = {"op": "group_32", "data": bytes(s)}
    exp = te.to5(bytes(s))
    if out[0] == "exc":
        ctx.violation("group32-raises", f"raised {out[1]!r}", case)
    elif list(out[1]) != exp:
        ctx.violation("group32-wrong", f"got {out[1]!r} expected {exp!r}", case)
    ctx.case(case)


def post_wif(args, kwargs, pre, out):
    ctx = contracts.ctx()
    self = args[0]
    # without an argument the key's own compression flag decides (a key parsed from an uncompressed WIF re-encodes to it)
    compressed = _arg(args, kwargs, 1, "compressed", None)
    compressed = bool(getattr(self, "compressed", True)) if compressed is None else bool(compressed)
    network = getattr(self, "network", None)
    secret = getattr(self, "secret", None)
    if network not in te.WIF_VER or not isinstance(secret, int) or not 1 <= secret < N:
        return NotImplemented
    case = {"op": "wif", "secret": secret, "network": network, "compressed": compressed}
    exp = te.wif_encode(secret, compressed, network)
    if out[0] == "exc":
        ctx.violation("wif-raises", f"raised {out[1]!r}", case)
    elif out[1] != exp:
        ctx.violation("wif-wrong", f"got {out[1]!r} expected {exp!r}", case)
    ctx.count("wif:%s:%s" % (network, "compressed" if compressed else "uncompressed"))
    ctx.case(case)


def post_wif_parse(args, kwargs, pre, out):
    ctx = contracts.ctx()
    s = _arg(args, kwargs, 1, "wif")
    if not isinstance(s, str):
        return NotImplemented
    case = {"op": "wif_parse", "s": s}
    dec = te.wif_decode(s)
    if dec is not None:
        secret, compressed, ver = dec
        if not 1 <= secret < N:
            ctx.count("observed:wif-secret-out-of-range")
            return NotImplemented
        ctx.count("wif:parse-valid")
        exp = (secret, compressed, "mainnet" if ver == 0x80 else "testnet")
        if out[0] == "exc":
            ctx.violation("wif-parse-rejects-valid", f"raised {out[1]!r} on a valid WIF", case)
        else:
            o = out[1]
            got = (o.secret, o.compressed, o.network)
            if got != exp:
                ctx.violation("wif-parse-wrong-value", f"got {got!r} expected {exp!r}", case)
    else:
        if out[0] == "ok":
            if te.b58check_decode(s) is None:
                ctx.violation("wif-parse-accepts-bad-checksum", "accepted a string whose Base58Check checksum does not match", case)
            else:
                ctx.count("observed:wif-parse-accepts-nonstandard-payload")
        else:
            ctx.rejected_by_exception += 1
    ctx.case(case)


def _commands_kind(cmds):
    def h(x, n):
        return isinstance(x, bytes) and len(x) == n

    if len(cmds) == 5 and cmds[0] == 0x76 and cmds[1] == 0xA9 and h(cmds[2], 20) and cmds[3] == 0x88 and cmds[4] == 0xAC:
        return "p2pkh", cmds[2]
    if len(cmds) == 3 and cmds[0] == 0xA9 and h(cmds[1], 20) and cmds[2] == 0x87:
        return "p2sh", cmds[1]
    if len(cmds) == 2 and cmds[0] == 0 and not isinstance(cmds[0], bytes) and h(cmds[1], 20):
        return "p2wpkh", cmds[1]
    if len(cmds) == 2 and cmds[0] == 0 and not isinstance(cmds[0], bytes) and h(cmds[1], 32):
        return "p2wsh", cmds[1]
    if len(cmds) == 2 and cmds[0] == 0x51 and h(cmds[1], 32):
        return "p2tr", cmds[1]
    return None


def post_address(args, kwargs, pre, out):
    ctx = contracts.ctx()
    self = args[0]
    network = _arg(args, kwargs, 1, "network", "mainnet")
    kh = _commands_kind(list(getattr(self, "commands", []) or []))
    if kh is None or network not in NETWORKS:
        return NotImplemented
    kind, h = kh
    case = {"op": "address", "kind": kind, "h": h, "network": network}
    exp = te.template_address(kind, h, network)
    if out[0] == "exc":
        ctx.violation("address-raises:" + kind, f"raised {out[1]!r}", case)
    elif out[1] != exp:
        ctx.violation("address-wrong:" + kind, f"got {out[1]!r} expected {exp!r} on {network}", case)
    ctx.count("address:%s:%s" % (kind, network))
    ctx.case(case)


def _script_kind(script):
    for kind in KINDS:
        n = te.template_hash_len(kind)
        off = {"p2pkh": 3, "p2sh": 2}.get(kind, 2)
        if len(script) >= off + n and te.template_script(kind, script[off : off + n]) == script:
            return kind
    return None


def _ref_address(s):
    """(script, kind) if s is a valid standard address on some network, else (None, reason)."""
    scripts = {te.address_script(s, net) for net in ("mainnet", "testnet", "regtest")} - {None}
    if len(scripts) == 1:
        sc = scripts.pop()
        return sc, _script_kind(sc)
    # a string with a segwit hrp and separator is judged as a segwit address even when all of its
    # characters happen to lie in the Base58 alphabet as well (e.g. bc1pqqqq...)
    sw_reason = te.segwit_check(s)[1]
    if sw_reason not in ("format", "hrp"):
        return None, sw_reason
    if te.b58decode(s) is not None:
        return None, ("bad-base58check" if te.b58check_decode(s) is None else "base58-not-an-address")
    return None, sw_reason


def _post_addr_to_script(label, s, got_script, out, fa_bcrt):
    ctx = contracts.ctx()
    if not isinstance(s, str):
        return NotImplemented
    tag = _state["tag"]
    case = {"op": label, "s": s, "tag": tag}
    sc, kind = _ref_address(s)
    if sc is not None:
        if kind is None:
            # a valid segwit address of a program that is none of the five templates (v1 with 20 bytes, v2+ ...): whether the
            # parser accepts it is only observed, but a script it returns has to be THAT program's script - anything else
            # gives two addresses to one script
            ctx.count("observed:%s:non-template-witness-program:%s" % (label, "accepted" if out[0] == "ok" else "rejected"))
            if out[0] == "ok" and got_script(out[1]) != sc:
                ctx.violation(label + "-wrong-script:non-template-program", f"got {got_script(out[1]).hex()} for the address of {sc.hex()}", case)
            return NotImplemented
        if s != s.lower() and te.segwit_check(s)[1] == "ok":
            return NotImplemented
        ctx.count({"address_to_script_pubkey": "a2s:", "to_address": "to_address:"}[label] + kind)
        if out[0] == "exc":
            if fa_bcrt and s.startswith("bcrt1"):
                ctx.count("observed:to_address-no-regtest-branch")
            else:
                ctx.violation(label + "-rejects-valid:" + kind, f"raised {out[1]!r} on a valid {kind} address", case)
        else:
            got = got_script(out[1])
            if got != sc:
                ctx.violation(label + "-wrong-script:" + kind, f"got {got.hex()} expected {sc.hex()}", case)
    else:
        reason = kind
        k = _tag_k(s, tag)
        if out[0] == "ok":
            if k or reason in ("checksum", "wrong-constant", "bad-base58check", "base58-not-an-address", "padding"):
                # incl. a checksum-valid Base58Check string whose version byte / payload length is no address form of
                # any network: returning a script for it maps two strings to one scriptPubKey (no bijection)
                mech = label + "-accepts-invalid:" + (f"subst{k}" if k else reason)
                ctx.violation(mech, f"returned a script for an invalid address (reference: {reason})", case)
            else:
                ctx.count("observed:%s-accepts:%s" % (label, reason))
        else:
            ctx.rejected_by_exception += 1
    if _state["register"]:
        ctx.case(case)


def post_a2s(args, kwargs, pre, out):
    return _post_addr_to_script("address_to_script_pubkey", _arg(args, kwargs, 0, "s"), lambda r: r.raw_serialize(), out, False)


def post_to_address(args, kwargs, pre, out):
    return _post_addr_to_script("to_address", _arg(args, kwargs, 1, "address"), lambda r: r.script_pubkey.raw_serialize(), out, True)


def install():
    import buidl  # noqa: F401  (load every module so that all aliases get rebound)
    from buidl import bech32, helper, pecc, script, tx

    contracts.install(helper, "encode_base58", post_encode_base58, label="helper.encode_base58")
    contracts.install(helper, "encode_base58_checksum", post_encode_base58_checksum, label="helper.encode_base58_checksum")
    contracts.install(helper, "raw_decode_base58", post_raw_decode_base58, label="helper.raw_decode_base58")
    contracts.install(bech32, "encode_bech32_checksum", post_encode_bech32_checksum, label="bech32.encode_bech32_checksum")
    contracts.install(bech32, "decode_bech32", post_decode_bech32, label="bech32.decode_bech32")
    contracts.install(bech32, "group_32", post_group_32, label="bech32.group_32")
    contracts.install(pecc.PrivateKey, "wif", post_wif)
    contracts.install(pecc.PrivateKey, "parse", post_wif_parse)
    contracts.install(script.P2PKHScriptPubKey, "address", post_address)
    contracts.install(script.P2SHScriptPubKey, "address", post_address)
    contracts.install(script.SegwitPubKey, "address", post_address)
    contracts.install(script.P2TRScriptPubKey, "address", post_address)
    contracts.install(script, "address_to_script_pubkey", post_a2s, label="script.address_to_script_pubkey")
    contracts.install(tx.TxOut, "to_address", post_to_address)


# ---- workload ----------------------------------------------------------------------------
PARAMS = {
    #            random b58 payloads, subst positions, wif randoms, bech32 reps, template hashes, subst bases, sampled doubles
    "quick": {"b58_rand": 150, "b58_pos": 3, "wif_rand": 3, "grid_reps": 1, "tmpl": 6, "bases": 10, "doubles": 70000},
    "thorough": {"b58_rand": 1500, "b58_pos": 3, "wif_rand": 40, "grid_reps": 8, "tmpl": 120, "bases": 60, "doubles": 1500000},
}


def shards(tier, seed):
    n = 16
    # the soft budget is only a safety cap (the workload is count-bounded); generous because the machine is shared
    quick = tier == "quick"
    return [{"name": "textenc", "idx": i, "n": n, "budget_s": 1200 if quick else 14400, "hard_timeout_s": 1500 if quick else 18000} for i in range(n)]


def _try(fn, *a, **kw):
    try:
        return ("ok", fn(*a, **kw))
    except Exception as e:  # noqa: BLE001 - every outcome is an observation
        return ("exc", type(e).__name__ + ": " + str(e)[:100])


def _rand_bytes(rng, n):
    return bytes(rng.getrandbits(8) for _ in range(n))


def _payload(rng, length, zeros):
    """length bytes with exactly `zeros` leading zero bytes (first non-zero byte random 1..255)."""
    if zeros >= length:
        return b"\x00" * length
    rest = length - zeros
    first = rng.choice([1, 0x7F, 0x80, 0xFF, rng.randrange(1, 256)])
    return b"\x00" * zeros + bytes([first]) + _rand_bytes(rng, rest - 1)


XKEY_VERSIONS = [
    "0488ade4", "049d7878", "04b2430c", "0295b005", "02aa7a99", "0488b21e", "049d7cb2", "04b24746", "0295b43f", "02aa7ed3",
    "04358394", "044a4e28", "045f18bc", "024285b5", "02575048", "043587cf", "044a5262", "045f1cf6", "024289ef", "02575483",
]


def base58_payload(ctx, rng, payload, npos):
    from buidl import helper

    ln = len(payload)
    zeros = ln - len(payload.lstrip(b"\x00"))
    if ln in (0, 1, 20, 21, 33, 34, 78, 82):
        ctx.count("b58:len=%d" % ln)
    if ln and zeros == ln:
        ctx.count("b58:zeros=all")
    ctx.count("b58:zeros=%d" % zeros if zeros <= 2 else "b58:zeros>2")
    if payload[:1] >= b"\x80":
        ctx.count("b58:first-byte>=0x80")
    case = {"op": "base58check-roundtrip", "data": payload}
    o = _try(helper.encode_base58_checksum, payload)
    if o[0] != "ok":
        return
    s = o[1]
    ctx.monitor("driver.base58check-roundtrip")
    d = _try(helper.raw_decode_base58, s)
    if d[0] != "ok" or d[1] != payload:
        ctx.violation("base58check-roundtrip", f"decode(encode(x)) gave {d[1]!r}", case)
    if ln:
        _try(helper.encode_base58, payload)
    # a checksum with exactly one wrong byte (all four positions) must be rejected
    chk = te.sha256d(payload)[:4]
    for i in range(4):
        bad = bytearray(chk)
        bad[i] ^= rng.choice([1, 0x80, rng.randrange(1, 256)])
        ctx.count("b58neg:chk-byte-%d" % i)
        _try(helper.raw_decode_base58, te.b58encode(payload + bytes(bad)))
    # every in-alphabet substitution at sampled positions; one out-of-alphabet character
    if s:
        for pos in rng.sample(range(len(s)), min(npos, len(s))):
            for c in te.B58:
                if c != s[pos]:
                    ctx.count("b58neg:subst-in-alphabet")
                    _try(helper.raw_decode_base58, s[:pos] + c + s[pos + 1 :])
        pos = rng.randrange(len(s))
        ctx.count("b58neg:non-alphabet")
        _try(helper.raw_decode_base58, s[:pos] + rng.choice("0OIl+/ ") + s[pos + 1 :])


def base58_workload(ctx, rng, idx, n, p):
    grid = []
    for ln in range(0, 83):
        for z in sorted({0, 1, 2, 3, ln // 2, ln - 1, ln}):
            if 0 <= z <= ln:
                grid.append((ln, z))
    for i, (ln, z) in enumerate(grid):
        if i % n == idx:
            base58_payload(ctx, rng, _payload(rng, ln, z), p["b58_pos"])
    for i, v in enumerate(XKEY_VERSIONS):
        if i % n == idx:
            ctx.count("b58:xkey-version-prefix")
            base58_payload(ctx, rng, bytes.fromhex(v) + _rand_bytes(rng, 74), p["b58_pos"])
    for _ in range(p["b58_rand"]):
        ln = rng.choice([rng.randrange(0, 83), 21, 33, 34, 78])
        z = rng.choice([0, 0, 0, 1, 2, rng.randrange(0, ln + 1)])
        base58_payload(ctx, rng, _payload(rng, ln, min(z, ln)), p["b58_pos"])
        if ctx.out_of_time():
            return


def wif_workload(ctx, rng, idx, n, p):
    from buidl.pecc import PrivateKey

    bs = boundary_secrets()
    secrets = [s for i, s in enumerate(bs) if i % n == idx] + [rand_secret(rng) for _ in range(p["wif_rand"])]
    for secret in secrets:
        for network in NETWORKS:
            if ctx.out_of_time():
                return
            o = _try(PrivateKey, secret, network=network)
            if o[0] != "ok":
                continue
            pk = o[1]
            for compressed in (True, False):
                case = {"op": "wif-roundtrip", "secret": secret, "network": network, "compressed": compressed}
                w = _try(pk.wif, compressed=compressed)
                if w[0] != "ok":
                    continue
                ctx.monitor("driver.wif-roundtrip")
                back = _try(PrivateKey.parse, w[1])
                if back[0] != "ok":
                    ctx.violation("wif-roundtrip", f"parse(wif) raised {back[1]}", case)
                else:
                    b = back[1]
                    want_net = "mainnet" if network == "mainnet" else "testnet"
                    if (b.secret, b.compressed, b.network) != (secret, compressed, want_net):
                        ctx.violation("wif-roundtrip", f"parse(wif) gave {(b.secret, b.compressed, b.network)!r}", case)
                    if _try(b.wif, compressed=b.compressed) != w:
                        ctx.violation("wif-roundtrip", "wif(parse(s)) != s", case)
                    ctx.count("wif:reencode-without-argument")
                    if _try(b.wif) != w:
                        ctx.violation("wif-roundtrip:default-ignores-key-compression", f"parse(s).wif() gave {_try(b.wif)[1]!r} for s = {w[1]!r}", case)
                # corrupted characters must be rejected (decided by the PrivateKey.parse contract)
                s = w[1]
                for _ in range(4):
                    pos = rng.randrange(len(s))
                    c = rng.choice([x for x in te.B58 if x != s[pos]])
                    ctx.count("wif:parse-corrupted")
                    _try(PrivateKey.parse, s[:pos] + c + s[pos + 1 :])
        ctx.sample({"wif-secret": secret})


def bech32_grid(ctx, rng, idx, n, p):
    from buidl import bech32

    combos = [(v, ln, net) for v in range(17) for ln in range(2, 41) for net in NETWORKS]
    for rep in range(p["grid_reps"]):
        for i, (ver, ln, net) in enumerate(combos):
            if (i + rep * 5) % n != idx:
                continue
            prog = {0: _rand_bytes(rng, ln), 1: b"\x00" * ln, 2: b"\xff" * ln}.get(rng.randrange(12), _rand_bytes(rng, ln))
            spk = te.witness_script_pubkey(ver, prog)
            hrp = te.HRP[net]
            ctx.count("bech32:ver=%d" % ver)
            ctx.count("bech32:len=%d" % ln)
            ctx.count("bech32:net=" + net)
            case = {"op": "bech32-roundtrip", "spk": spk, "network": net}
            o = _try(bech32.encode_bech32_checksum, spk, net)
            _try(bech32.group_32, prog)
            if o[0] == "ok":
                _state["tag"] = None
                if ln in (20, 32) and (i + rep) % 3 == 0:
                    # every witness version with a template-sized program through the two address parsers (the contracts decide)
                    from buidl import script as _scr
                    from buidl.tx import TxOut as _TO

                    ctx.count("a2s:version-x-template-length")
                    _try(_scr.address_to_script_pubkey, o[1])
                    _try(_TO.to_address, o[1], 1)
                d = _try(bech32.decode_bech32, o[1])
                ctx.monitor("driver.bech32-roundtrip")
                standard = ver != 0 or ln in (20, 32)
                if d[0] == "ok":
                    if list(d[1]) != [NET_OF_HRP[hrp], ver, prog]:
                        ctx.violation("bech32-roundtrip", f"decode(encode(x)) gave {d[1]!r}", case)
                    elif isinstance(d[1], list) and i % 3 == 0:
                        # the caller edits the list it was handed (e.g. relabels tb1... as signet), then the same
                        # string is decoded again: the answer is a function of the string, not of earlier callers
                        d[1][0], d[1][1], d[1][2] = "signet", (ver + 1) % 17, prog[::-1] + b"\x00"
                        d2 = _try(bech32.decode_bech32, o[1])
                        ctx.count("history:decode-again-after-caller-edited-result")
                        if d2[0] != "ok" or list(d2[1]) != [NET_OF_HRP[hrp], ver, prog]:
                            ctx.violation("bech32-decode-depends-on-earlier-caller", f"second decode gave {d2[1]!r}", case)
                elif standard:
                    ctx.violation("bech32-roundtrip", f"decode(encode(x)) raised {d[1]}", case)
                else:
                    ctx.count("observed:v0-nonstandard-length-rejected")
            # same data under the other version's constant must be rejected (decided by the decode contract)
            wrong = te.bech32_encode(hrp, [ver] + te.to5(prog), te.BECH32M_CONST if ver == 0 else te.BECH32_CONST)
            ctx.count("wrong-const:v0-with-bech32m" if ver == 0 else "wrong-const:v1+-with-bech32")
            _try(bech32.decode_bech32, wrong)
            # strings BIP173 rejects for reasons other than the checksum (correct checksum constant): only observed
            const = te.BECH32_CONST if ver == 0 else te.BECH32M_CONST
            if (8 * ln) % 5:
                d5 = [ver] + te.to5(prog)
                d5[-1] |= 1
                ctx.count("lenient-probe:non-zero-padding")
                noncanon = te.bech32_encode(hrp, d5, const)
                _try(bech32.decode_bech32, noncanon)
                if (ver, ln) in ((0, 32), (1, 32)):
                    from buidl import script

                    _try(script.address_to_script_pubkey, noncanon)
            if (8 * ln) % 5 in (1, 2, 3) or ln % 5 == 0:
                # an extra all-zero group after canonical padding (5..7 padding bits in total)
                d5 = [ver] + te.to5(prog) + [0]
                if (5 * (len(d5) - 1)) // 8 == ln:
                    ctx.count("lenient-probe:over-long-padding")
                    _try(bech32.decode_bech32, te.bech32_encode(hrp, d5, const))
            if net == "regtest" and o[0] == "ok" and i % 5 == 0:
                ctx.count("lenient-probe:regtest-separator")
                for ch in ("x", "!", "q", " "):
                    _try(bech32.decode_bech32, o[1][:4] + ch + o[1][5:])
            if ver and ver + 16 <= 31:
                ctx.count("lenient-probe:version>16")
                _try(bech32.decode_bech32, te.bech32_encode(hrp, [ver + 16] + te.to5(prog), te.BECH32M_CONST))
        if ctx.out_of_time():
            return


def _mk_template(kind, h):
    from buidl import script

    cls = {
        "p2pkh": script.P2PKHScriptPubKey, "p2sh": script.P2SHScriptPubKey, "p2wpkh": script.P2WPKHScriptPubKey,
        "p2wsh": script.P2WSHScriptPubKey, "p2tr": script.P2TRScriptPubKey,
    }[kind]
    return cls(h)


def template_case(ctx, kind, h, net, amount):
    from io import BytesIO

    from buidl import script, tx

    want_script = te.template_script(kind, h)
    case = {"op": "template-roundtrip", "kind": kind, "h": h, "network": net, "amount": amount}
    _state["tag"] = None
    obj = _try(_mk_template, kind, h)
    if obj[0] != "ok":
        ctx.violation("template-constructor-raises:" + kind, obj[1], case)
        return
    a = _try(obj[1].address, net)
    if a[0] != "ok":
        return  # decided by the address contract
    addr = a[1]
    # the same script reached by parsing its bytes must give the same address
    parsed = _try(script.ScriptPubKey.parse, BytesIO(bytes([len(want_script)]) + want_script))
    ctx.monitor("driver.script-address-script")
    if parsed[0] != "ok":
        ctx.violation("template-parse-raises:" + kind, parsed[1], case)
    else:
        a2 = _try(parsed[1].address, net)
        if a2 != a:
            ctx.violation("script-to-address-not-a-function:" + kind, f"parsed script gives {a2[1]!r}, constructed gives {addr!r}", case)
    back = _try(script.address_to_script_pubkey, addr)
    if back[0] != "ok":
        ctx.violation("script-address-script:" + kind, f"address_to_script_pubkey({addr!r}) raised {back[1]}", case)
    else:
        ctx.count("roundtrip:script-address-script")
        raw = back[1].raw_serialize()
        if raw != want_script:
            ctx.violation("script-address-script:" + kind, f"{addr!r} maps back to {raw.hex()}", case)
        ctx.monitor("driver.address-script-address")
        again = _try(back[1].address, net)
        ctx.count("roundtrip:address-script-address")
        if again != a:
            ctx.violation("address-script-address:" + kind, f"{addr!r} -> script -> {again[1]!r}", case)
    t = _try(tx.TxOut.to_address, addr, amount)
    if t[0] == "ok":
        ctx.monitor("driver.to_address-fields")
        if t[1].amount != amount or t[1].script_pubkey.raw_serialize() != want_script:
            ctx.violation("to_address-wrong-script:" + kind, f"TxOut {t[1]!r}", case)
    return addr


def template_workload(ctx, rng, idx, n, p):
    combos = [(k, net) for k in KINDS for net in NETWORKS]
    seen = {}
    for rep in range(p["tmpl"]):
        for kind, net in combos:
            ln = te.template_hash_len(kind)
            h = {0: b"\x00" * ln, 1: b"\x00" * (ln // 2) + _rand_bytes(rng, ln - ln // 2), 2: b"\xff" * ln}.get((rep + idx) % 7, _rand_bytes(rng, ln))
            addr = template_case(ctx, kind, h, net, rng.randrange(0, 21 * 10**14))
            if addr is not None:
                # two different (template, hash, prefix class) never share an address
                key = (kind, h, "main" if net == "mainnet" else ("reg" if net == "regtest" and kind in ("p2wpkh", "p2wsh", "p2tr") else "test"))
                ctx.monitor("driver.address-injective")
                if seen.setdefault(addr, key) != key:
                    ctx.violation("address-not-injective", f"{addr!r} is the address of {seen[addr]!r} and {key!r}", {"op": "template-roundtrip", "kind": kind, "h": h, "network": net, "amount": 0})
        if ctx.out_of_time():
            return
    # checksum-valid Base58Check strings that are the address of NO standard script on any network: another version
    # byte (but a first character the address parsers branch on), or a 19/21-byte payload under a real version
    from buidl import script as _script
    from buidl.tx import TxOut as _TxOut

    made = 0
    for rep in range(p["tmpl"] * 4):
        if rng.random() < 0.6:
            ver, ln = rng.choice([v for v in range(256) if v not in (0, 5, 111, 196)]), 20
        else:
            ver, ln = rng.choice([0, 5, 111, 196]), rng.choice([19, 21])
        s = te.b58check_encode(bytes([ver]) + _rand_bytes(rng, ln))
        if s[0] not in "1mn23":
            continue
        made += 1
        ctx.count("non-address-base58:" + ("other-version" if ln == 20 else "payload-%d" % ln))
        _state["tag"] = None
        _try(_script.address_to_script_pubkey, s)
        _try(_TxOut.to_address, s, 1000)
    if made == 0:
        ctx.count("non-address-base58:none-generated")


def _pos_class(sep, ln, pos):
    if pos == sep + 1:
        return "version-char"
    if pos >= ln - 6:
        return "checksum-char"
    return "program-char"


def _call_decoder(ctx, i, s):
    """Most corrupted strings go straight to decode_bech32; some go through the two address parsers
    (which call it internally and have their own acceptance monitors)."""
    from buidl import bech32, script, tx

    if i % 37 == 5:
        ctx.count("subst-via:address_to_script_pubkey")
        return _try(script.address_to_script_pubkey, s)
    if i % 41 == 7 and not s.startswith("bcrt"):
        ctx.count("subst-via:to_address")
        return _try(tx.TxOut.to_address, s, 1)
    try:
        bech32.decode_bech32(s)
    except Exception:  # noqa: BLE001 - rejection
        pass


def subst_base(ctx, rng, ver, ln, net):
    prog = _rand_bytes(rng, ln)
    addr = te.segwit_encode(te.HRP[net], ver, prog)
    if ver == 0 and ln in (20, 32):
        ctx.count("subst-base:v0-%d" % ln)
    elif ver == 1 and ln == 32:
        ctx.count("subst-base:v1-32")
    else:
        ctx.count("subst-base:other-version")
    ctx.count("subst-base:hrp=" + te.HRP[net])
    return addr


def subst_singles(ctx, rng, addr):
    sep = addr.rfind("1")
    _state["tag"] = {"base": addr}
    i = rng.randrange(1000)
    for pos in range(sep + 1, len(addr)):
        cls = "subst1:" + _pos_class(sep, len(addr), pos)
        for c in te.CHARSET:
            if c == addr[pos]:
                continue
            i += 1
            ctx.count(cls)
            _call_decoder(ctx, i, addr[:pos] + c + addr[pos + 1 :])
    for c in "1bioQ ":
        pos = rng.randrange(sep + 1, len(addr))
        ctx.count("subst1:non-alphabet")
        _call_decoder(ctx, 0, addr[:pos] + c + addr[pos + 1 :])
    _state["tag"] = None
    ctx.exhaustive.append("all 31 in-alphabet single substitutions at every data-part position of each sampled segwit address")


def _double_class(sep, ln, p1, p2):
    a, b = _pos_class(sep, ln, p1), _pos_class(sep, ln, p2)
    if "version-char" in (a, b):
        return "subst2:incl-version-char"
    if a == b == "checksum-char":
        return "subst2:checksum-only"
    if a == b == "program-char":
        return "subst2:program-only"
    return "subst2:program+checksum"


def subst_doubles_sampled(ctx, rng, addr, count):
    sep = addr.rfind("1")
    ln = len(addr)
    _state["tag"] = {"base": addr}
    chars = te.CHARSET
    for i in range(count):
        r = rng.random()
        if r < 0.2:
            p1 = sep + 1
            p2 = rng.randrange(sep + 2, ln)
        elif r < 0.3:
            p1, p2 = sorted(rng.sample(range(ln - 6, ln), 2))
        else:
            p1, p2 = sorted(rng.sample(range(sep + 1, ln), 2))
        c1 = chars[(chars.index(addr[p1]) + rng.randrange(1, 32)) % 32]
        c2 = chars[(chars.index(addr[p2]) + rng.randrange(1, 32)) % 32]
        ctx.count(_double_class(sep, ln, p1, p2))
        _call_decoder(ctx, i, addr[:p1] + c1 + addr[p1 + 1 : p2] + c2 + addr[p2 + 1 :])
    _state["tag"] = None


def subst_doubles_exhaustive(ctx, addr):
    """All C(D,2) * 31^2 double substitutions of one address."""
    from buidl import bech32

    sep = addr.rfind("1")
    ln = len(addr)
    _state["tag"] = {"base": addr}
    dec = bech32.decode_bech32
    chars = te.CHARSET
    for p1 in range(sep + 1, ln):
        o1 = [c for c in chars if c != addr[p1]]
        for p2 in range(p1 + 1, ln):
            o2 = [c for c in chars if c != addr[p2]]
            ctx.count(_double_class(sep, ln, p1, p2), 961)
            mid = addr[p1 + 1 : p2]
            tail = addr[p2 + 1 :]
            for c1 in o1:
                head = addr[:p1] + c1 + mid
                for c2 in o2:
                    try:
                        dec(head + c2 + tail)
                    except Exception:  # noqa: BLE001 - rejection
                        pass
        if ctx.out_of_time():
            return
    _state["tag"] = None
    ctx.count("subst2:exhaustive-address")
    ctx.exhaustive.append("all double substitutions (C(D,2) x 31^2) over the data part of one segwit address per shard (thorough)")
    ctx.note("exhaustive-doubles-address-shard-%d" % ctx.desc.get("idx", 0), addr)


BASE_SHAPES = [(0, 20), (0, 32), (1, 32), (2, 2), (16, 40), (1, 20), (0, 20), (3, 33), (1, 32), (0, 32), (7, 11), (16, 2)]
EXHAUSTIVE = [(0, 20), (1, 20), (0, 20), (16, 20), (0, 20), (2, 19), (0, 20), (1, 16)]


def substitution_workload(ctx, rng, idx, n, p):
    nb = p["bases"]
    bases = []
    for j in range(nb):
        ver, ln = BASE_SHAPES[(j + idx) % len(BASE_SHAPES)]
        net = NETWORKS[(j * 5 + idx) % 4] if j % 3 else ("regtest", "mainnet", "testnet")[(j // 3 + idx) % 3]
        bases.append(subst_base(ctx, rng, ver, ln, net))
    for addr in bases:
        subst_singles(ctx, rng, addr)
        if ctx.out_of_time():
            return
    ctx.sample({"substitution-bases": bases[:3]})
    per = max(1, p["doubles"] // len(bases))
    cap = 60000 if ctx.tier == "thorough" else 10**9
    done = 0
    for addr in bases:
        _state["register"] = done < cap
        subst_doubles_sampled(ctx, rng, addr, per)
        done += per
        if ctx.out_of_time():
            break
    if ctx.tier == "thorough":
        ver, ln = EXHAUSTIVE[idx % len(EXHAUSTIVE)]
        net = ("mainnet", "testnet", "regtest", "signet")[(idx // 2) % 4]
        _state["register"] = False
        subst_doubles_exhaustive(ctx, subst_base(ctx, rng, ver, ln, net))
    _state["register"] = True


def run_shard(desc, ctx):
    te.selfcheck()
    install()
    idx, n = desc["idx"], desc["n"]
    p = PARAMS[ctx.tier]
    base58_workload(ctx, ctx.rng("b58"), idx, n, p)
    bech32_grid(ctx, ctx.rng("grid"), idx, n, p)
    template_workload(ctx, ctx.rng("tmpl"), idx, n, p)
    wif_workload(ctx, ctx.rng("wif"), idx, n, p)
    substitution_workload(ctx, ctx.rng("subst"), idx, n, p)


def replay(case, ctx):
    import random

    from buidl import bech32, helper, script, tx
    from buidl.pecc import PrivateKey

    te.selfcheck()
    install()
    op = case.get("op")
    _state["tag"] = case.get("tag")
    rng = random.Random(0)
    if op == "encode_base58":
        _try(helper.encode_base58, case["data"])
    elif op == "encode_base58_checksum":
        _try(helper.encode_base58_checksum, case["data"])
    elif op == "raw_decode_base58":
        _try(helper.raw_decode_base58, case["s"])
    elif op == "base58check-roundtrip":
        base58_payload(ctx, rng, case["data"], 2)
    elif op == "encode_bech32_checksum":
        _try(bech32.encode_bech32_checksum, case["spk"], case["network"])
    elif op == "bech32-roundtrip":
        o = _try(bech32.encode_bech32_checksum, case["spk"], case["network"])
        if o[0] == "ok":
            _try(bech32.decode_bech32, o[1])
    elif op == "decode_bech32":
        _try(bech32.decode_bech32, case["s"])
    elif op == "group_32":
        _try(bech32.group_32, case["data"])
    elif op in ("wif", "wif-roundtrip"):
        o = _try(PrivateKey, case["secret"], network=case["network"])
        if o[0] == "ok":
            w = _try(o[1].wif, compressed=case["compressed"])
            if w[0] == "ok":
                _try(PrivateKey.parse, w[1])
    elif op == "wif_parse":
        _try(PrivateKey.parse, case["s"])
    elif op == "address":
        o = _try(_mk_template, case["kind"], case["h"])
        if o[0] == "ok":
            _try(o[1].address, case["network"])
    elif op == "template-roundtrip":
        template_case(ctx, case["kind"], case["h"], case["network"], case.get("amount", 0))
    elif op == "address_to_script_pubkey":
        _try(script.address_to_script_pubkey, case["s"])
    elif op == "to_address":
        _try(tx.TxOut.to_address, case["s"], 1)
