"""C16 - wsh(sortedmulti(...)) descriptors: text, Core checksum, parse round trip, error detection,
address derivation (BIP67 order of the child keys), supply-order independence, receive != change.

Monitors (contracts on the real functions, decided against ref.textenc / ref.bip32 / ref.ec):
  descriptor.calc_core_checksum       == Bitcoin Core's descriptor checksum
  P2WSHSortedMulti.__init__           descriptor_text / checksum / key_records / network == reference model of the
                                      arguments (records ordered by normalised parent xpub); a supplied checksum
                                      that differs from the reference checksum must be refused
  P2WSHSortedMulti.parse              canonical text with a correct checksum -> same descriptor (str() reproduces the
                                      input); a wrong checksum or a single altered body/checksum character -> refused
  P2WSHSortedMulti.get_address        == P2WSH(m <sorted child keys at parent/branch/index> n CHECKMULTISIG),
                                      branch = account_index (+1 for change)
  descriptor.parse_full_key_record    fields and derived child xpub == reference CKDpub
Boundary monitors in the driver: every permutation of the records gives the same text and addresses;
receive and change addresses never coincide over the sampled (branch, index) grid.
"""
import itertools
import re

from ref import bip32, ec
from ref import textenc as te
from vmon import contracts
from vmon.util import rand_secret

PROPERTY_ID = "C16"
RULE = (
    "cases = (a) key-record sets for every 1 <= m <= n <= 6 with random parent xpubs under all ten SLIP-132 public version "
    "prefixes, account indexes {0,1,2,2^31-2,2^31-1,random}, paths in h/'/H notation, built through P2WSHSortedMulti(), str(), "
    "parse(str()), every permutation of the records (n <= 4; sampled above), get_address over offsets {0,1,2^31-1,random} x "
    "{receive, change}; (b) single-character substitutions over the 95-character descriptor alphabet at positions of the body "
    "and of the checksum of sampled descriptors (exhaustive per descriptor in the thorough tier), wrong-but-well-formed "
    "checksums.  Every case is decided by a contract on the real function against the reference model; distinct = distinct "
    "concrete inputs (record sets / descriptor strings / (descriptor, branch, index)) by hash; non-trivial = the contract "
    "reached its comparison; for addresses additionally counted whether the child keys sort differently from the parent xpubs"
)
ASSUMPTIONS = [
    "the '#' separator is substituted as well (every other character in its place leaves a body with trailing garbage, which must be refused)",
    "the change branch is account_index + 1 (the library's convention named in the property anchors); account_index = 2^31-1 has no change branch (both sides refuse)",
    "descriptor text order = records sorted by their normalised (xpub/tpub version) parent key string; ties (same xpub twice) keep supply order and are only observed",
    "get_address(sort_keys=False), m > n passed to the constructor and non-canonical spellings accepted by parse are outside the statement: counted as observed:*",
    "a 40-bit checksum collision or a Base58Check collision (2^-32) on a substituted string would be reported as a violation; none is expected at these counts",
]

MN = [(m, n) for n in range(1, 7) for m in range(1, n + 1)]
PUB_VERSIONS = {
    "mainnet": ["0488b21e", "049d7cb2", "04b24746", "0295b43f", "02aa7ed3"],
    "testnet": ["043587cf", "044a5262", "045f1cf6", "024289ef", "02575483"],
}
REGIONS = ["wsh-prefix", "threshold", "xfp", "path", "xpub", "account", "punctuation", "checksum"]

GATES = {
    "monitors-ran": ["descriptor.calc_core_checksum", "P2WSHSortedMulti.__init__", "P2WSHSortedMulti.parse", "P2WSHSortedMulti.get_address", "descriptor.parse_full_key_record"],
    "every-m-of-n": ["mn:%dof%d" % mn for mn in MN],
    "xpub-versions": ["xpub-version:" + v for net in PUB_VERSIONS for v in PUB_VERSIONS[net]] + ["network:mainnet", "network:testnet"],
    "account-and-offsets": ["account:0", "account:1", "account:2^31-2", "account:2^31-1", "account:other", "offset:0", "offset:1", "offset:2^31-1", "offset:other", "branch:receive", "branch:change"],
    "path-notations": ["path:h", "path:'", "path:H", "path:empty", "path:deep"],
    "sorting-matters": ["sort:child-order-differs-from-parent-order", "sort:child-order-same-as-parent-order", "sort:supplied-order-differs-from-text-order", "perm:all-permutations", "perm:address-on-permuted"],
    "shared-fingerprint": ["class:records-share-fingerprint"],
    "roundtrip": ["parse:canonical-accepted", "init:with-correct-checksum"],
    "negative-classes": ["subst:" + r for r in REGIONS] + ["subst:separator"] + ["parse:tagged-substitution", "neg:wrong-checksum-parse", "neg:wrong-checksum-init", "neg:checksum-of-other-descriptor"],
    "exhaustive-substitution": {"quick": [], "thorough": ["subst:exhaustive-descriptor"]},
}

_state = {"tag": None}
_ckd_cache = {}


def anchors():
    from buidl import descriptor

    d = descriptor
    return [d.calc_poly_mod, d.calc_core_checksum, d.parse_full_key_record, d.parse_partial_key_record, d.P2WSHSortedMulti.__init__, d.P2WSHSortedMulti.parse, d.P2WSHSortedMulti.get_address]


# ---- reference model ---------------------------------------------------------------------
PATH_RE = re.compile(r"^m((?:/[0-9]+[hH']?)*)$")
RECORD_RE = re.compile(r"^\[([0-9a-f]{8})((?:/[0-9]+[hH']?)*)\]([1-9A-HJ-NP-Za-km-z]+)/([0-9]+)/\*$")
DESC_RE = re.compile(r"^wsh\(sortedmulti\(([1-9][0-9]*),(.+)\)\)#([a-z0-9]{8})$")


def _ckd(pt, cc, i):
    key = (pt, cc, i)
    r = _ckd_cache.get(key)
    if r is None:
        r = bip32.ckd_pub(pt, cc, i)
        if len(_ckd_cache) > 20000:
            _ckd_cache.clear()
        _ckd_cache[key] = r
    return r


def model_record(rec):
    """Normalised record (+ private fields) or raises ValueError."""
    xfp, path, acct, xp = rec.get("xfp"), rec.get("path"), rec.get("account_index"), rec.get("xpub_parent")
    if not (isinstance(xfp, str) and re.fullmatch(r"[0-9a-f]{8}", xfp)):
        raise ValueError("xfp")
    if not (isinstance(path, str) and PATH_RE.match(path)):
        raise ValueError("path")
    for comp in path.split("/")[1:]:
        if int(comp.rstrip("hH'")) >= 2**31:
            raise ValueError("path component")
    if type(acct) is not int or not 0 <= acct < 2**31:
        raise ValueError("account index")
    x = bip32.parse_xkey(xp)
    if x["is_private"] or not x["known_version"]:
        raise ValueError("not a public extended key")
    net = x["network"]
    norm = bip32.serialize_xpub(bip32.DEFAULT_PUB[net], x["depth"], x["parent_fp"], x["child_num"], x["chain_code"], x["point"])
    return {"xfp": xfp, "path": path, "xpub_parent": norm, "account_index": acct, "_pt": x["point"], "_cc": x["chain_code"], "_net": net, "_x": x}


def public(rec):
    return {k: v for k, v in rec.items() if not k.startswith("_")}


def model_descriptor(m, records, sort=True):
    """{text, checksum, records, network} or raises ValueError when the arguments are not a valid set."""
    if type(m) is not int or m < 1 or not records or m > len(records):
        raise ValueError("threshold")
    recs = [model_record(r) for r in records]
    nets = {r["_net"] for r in recs}
    if len(nets) != 1:
        raise ValueError("networks differ")
    if sort:
        recs = sorted(recs, key=lambda r: r["xpub_parent"])
    text = "wsh(sortedmulti(%d" % m
    for r in recs:
        text += ",[%s%s]%s/%d/*" % (r["xfp"], r["path"][1:], r["xpub_parent"], r["account_index"])
    text += "))"
    return {"text": text, "checksum": te.descriptor_checksum(text), "records": recs, "network": nets.pop(), "m": m}


def model_child_secs(recs, offset, change):
    out = []
    for r in recs:
        k1, c1 = _ckd(r["_pt"], r["_cc"], r["account_index"] + (1 if change else 0))
        k2, _ = _ckd(k1, c1, offset)
        out.append(ec.sec(k2))
    return out


def model_address(m, recs, network, offset, change):
    secs = model_child_secs(recs, offset, change)
    return te.p2wsh_address(te.multisig_script(m, sorted(secs)), network), secs


def model_parse(s):
    """Strict reader of the canonical form: (model, "ok") or (None, reason)."""
    mt = DESC_RE.match(s)
    if not mt:
        return None, "format"
    m, body, chk = int(mt.group(1)), mt.group(2), mt.group(3)
    records = []
    for part in body.split(","):
        r = RECORD_RE.match(part)
        if not r:
            return None, "record-format"
        records.append({"xfp": r.group(1), "path": "m" + r.group(2), "xpub_parent": r.group(3), "account_index": int(r.group(4))})
    try:
        model = model_descriptor(m, records, sort=False)
    except ValueError as e:
        return None, "record-invalid:" + str(e)[:20]
    given_text = s.split("#")[0]
    if te.descriptor_checksum(given_text) != chk:
        return None, "checksum"
    if model["text"] != given_text:
        return model, "not-normalised"
    return model, "ok"


# ---- contracts ---------------------------------------------------------------------------
def _arg(args, kwargs, pos, name, default=None):
    if len(args) > pos:
        return args[pos]
    return kwargs.get(name, default)


def _short(x, n=90):
    r = x if isinstance(x, str) else repr(x)
    return r if len(r) <= n else r[: n // 2] + "..." + r[-n // 2 :]


def post_checksum(args, kwargs, pre, out):
    ctx = contracts.ctx()
    text = _arg(args, kwargs, 0, "output_descriptor")
    if not isinstance(text, str):
        return NotImplemented
    exp = te.descriptor_checksum(text)
    if exp is None:
        return NotImplemented
    case = {"op": "checksum", "text": text}
    if out[0] == "exc":
        ctx.violation("core-checksum-raises", f"raised {out[1]!r}", case)
    elif out[1] != exp:
        ctx.violation("core-checksum-wrong", f"got {out[1]!r} expected {exp!r} for {_short(text)}", case)
    ctx.case(case)


def snap_init(*args, **kwargs):
    recs = _arg(args, kwargs, 2, "key_records", [])
    return [dict(r) for r in recs] if isinstance(recs, (list, tuple)) and all(isinstance(r, dict) for r in recs) else None


def post_init(args, kwargs, pre, out):
    ctx = contracts.ctx()
    self = args[0]
    m = _arg(args, kwargs, 1, "quorum_m")
    records = pre
    checksum = _arg(args, kwargs, 3, "checksum", "")
    sort = _arg(args, kwargs, 4, "sort_key_records", True)
    if records is None:
        return NotImplemented
    case = {"op": "init", "m": m, "records": records, "checksum": checksum, "sort": bool(sort)}
    try:
        model = model_descriptor(m, records, sort=bool(sort))
    except ValueError as e:
        if out[0] == "ok":
            ctx.count("observed:init-accepts-outside-model:" + str(e)[:24])
        return NotImplemented
    if checksum:
        ctx.count("init:with-correct-checksum" if checksum == model["checksum"] else "init:with-wrong-checksum")
    if checksum and checksum != model["checksum"]:
        if out[0] == "ok":
            ctx.violation("init-accepts-wrong-checksum", f"supplied {checksum!r}, descriptor checksum is {model['checksum']!r}", case)
        else:
            ctx.rejected_by_exception += 1
        ctx.case(case)
        return
    if out[0] == "exc":
        ctx.violation("init-rejects-valid", f"raised {out[1]!r} on a valid {m}-of-{len(records)} record set", case)
        ctx.case(case)
        return
    got_text = getattr(self, "descriptor_text", None)
    got_chk = getattr(self, "checksum", None)
    if got_text != model["text"]:
        want_order = [r["xpub_parent"] for r in model["records"]]
        got_order = [r.get("xpub_parent") for r in getattr(self, "key_records", [])]
        mech = "descriptor-text-record-order" if sorted(want_order) == sorted(got_order) and want_order != got_order else "descriptor-text-wrong"
        ctx.violation(mech, f"got {_short(got_text)} expected {_short(model['text'])}", case)
    elif got_chk != model["checksum"]:
        ctx.violation("descriptor-checksum-wrong", f"got {got_chk!r} expected {model['checksum']!r}", case)
    elif str(self) != model["text"] + "#" + model["checksum"]:
        ctx.violation("descriptor-str-wrong", f"str() = {_short(str(self))}", case)
    if getattr(self, "key_records", None) != [public(r) for r in model["records"]]:
        ctx.violation("descriptor-key-records-wrong", f"key_records = {_short(repr(getattr(self, 'key_records', None)), 200)}", case)
    if getattr(self, "network", None) != model["network"] or getattr(self, "quorum_m", None) != m:
        ctx.violation("descriptor-network-or-threshold-wrong", f"network {getattr(self, 'network', None)!r} m {getattr(self, 'quorum_m', None)!r}", case)
    ctx.case(case)


def _tag_region(s, tag):
    """Region name if s is the tagged base descriptor with exactly one character of its body or
    checksum (not the '#') replaced, else None."""
    if not tag:
        return None
    base = tag.get("base")
    if not isinstance(base, str) or len(base) != len(s) or model_parse(base)[1] != "ok":
        return None
    diff = [i for i in range(len(s)) if s[i] != base[i]]
    if len(diff) != 1 or base[diff[0]] == "#":
        return None
    return region_map(base)[diff[0]]


def post_parse(args, kwargs, pre, out):
    ctx = contracts.ctx()
    s = _arg(args, kwargs, 1, "output_record")
    if not isinstance(s, str):
        return NotImplemented
    tag = _state["tag"]
    case = {"op": "parse", "s": s, "tag": tag}
    region = _tag_region(s, tag)
    model, reason = model_parse(s)
    if region is not None:
        ctx.count("parse:tagged-substitution")
        if out[0] == "ok":
            kind = "checksum" if region == "checksum" else "body"
            ctx.violation(
                f"parse-accepts-altered-{kind}-character:{region}",
                f"one {region} character differs from a valid descriptor and parse returned {_short(str(out[1]))}", case,
            )
        else:
            ctx.rejected_by_exception += 1
        ctx.case(case)
        return
    if reason == "ok":
        ctx.count("parse:canonical-accepted")
        if out[0] == "exc":
            ctx.violation("parse-rejects-own-text", f"raised {out[1]!r} on {_short(s)}", case)
        else:
            d = out[1]
            if str(d) != s:
                ctx.violation("parse-does-not-reproduce", f"str(parse(s)) = {_short(str(d))}", case)
            elif d.key_records != [public(r) for r in model["records"]] or d.quorum_m != model["m"] or d.network != model["network"]:
                ctx.violation("parse-fields-wrong", f"m={d.quorum_m} network={d.network} records={_short(repr(d.key_records), 200)}", case)
    elif reason == "checksum":
        if out[0] == "ok":
            ctx.violation("parse-accepts-wrong-checksum", f"checksum does not match the body and parse returned {_short(str(out[1]))}", case)
        else:
            ctx.rejected_by_exception += 1
    else:
        ctx.count("observed:parse-%s:%s" % ("accepts" if out[0] == "ok" else "rejects", reason.split(":")[0]))
        return NotImplemented
    ctx.case(case)


def post_get_address(args, kwargs, pre, out):
    ctx = contracts.ctx()
    self = args[0]
    offset = _arg(args, kwargs, 1, "offset", 0)
    change = _arg(args, kwargs, 2, "is_change", False)
    sort_keys = _arg(args, kwargs, 3, "sort_keys", True)
    if sort_keys is not True:
        ctx.count("observed:get_address-sort_keys-false")
        return NotImplemented
    if type(offset) is not int or type(change) is not bool or offset < 0:
        return NotImplemented
    recs_pub = [dict(r) for r in getattr(self, "key_records", [])]
    m = getattr(self, "quorum_m", None)
    case = {"op": "address", "m": m, "records": recs_pub, "offset": offset, "is_change": change}
    try:
        model = model_descriptor(m, recs_pub, sort=False)
    except ValueError:
        return NotImplemented
    try:
        exp, secs = model_address(m, model["records"], model["network"], offset, change)
    except ValueError:
        if out[0] == "ok":
            ctx.violation("address-for-underivable-branch", f"returned {out[1]!r} although a hardened index was requested from public keys", case)
            ctx.case(case)
            return
        ctx.count("observed:underivable-branch-refused")
        return NotImplemented
    parent_order = sorted(range(len(secs)), key=lambda i: model["records"][i]["xpub_parent"])
    child_order = sorted(range(len(secs)), key=lambda i: secs[i])
    if len(secs) > 1:
        ctx.count("sort:child-order-differs-from-parent-order" if parent_order != child_order else "sort:child-order-same-as-parent-order")
    ctx.count("branch:change" if change else "branch:receive")
    ctx.count("offset:%s" % {0: "0", 1: "1", 2**31 - 1: "2^31-1"}.get(offset, "other"))
    if out[0] == "exc":
        ctx.violation("address-raises", f"raised {out[1]!r}", case)
    elif out[1] != exp:
        mech = "address-wrong"
        others = {
            "address-change-branch-wrong": (offset, not change),
        }
        for name, (o, c) in others.items():
            try:
                if model_address(m, model["records"], model["network"], o, c)[0] == out[1]:
                    mech = name
            except ValueError:
                pass
        if mech == "address-wrong" and te.p2wsh_address(te.multisig_script(m, secs), model["network"]) == out[1]:
            mech = "address-child-keys-not-sorted"
        ctx.violation(mech, f"got {out[1]!r} expected {exp!r} (offset {offset}, change {change})", case)
    ctx.case(case)


def post_key_record(args, kwargs, pre, out):
    ctx = contracts.ctx()
    s = _arg(args, kwargs, 0, "key_record_str")
    if not isinstance(s, str):
        return NotImplemented
    r = RECORD_RE.match(s)
    if not r:
        return NotImplemented
    rec = {"xfp": r.group(1), "path": "m" + r.group(2), "xpub_parent": r.group(3), "account_index": int(r.group(4))}
    try:
        mr = model_record(rec)
        k1, c1 = _ckd(mr["_pt"], mr["_cc"], rec["account_index"])
    except ValueError:
        return NotImplemented
    x = mr["_x"]
    if x["depth"] >= 255:
        return NotImplemented
    child = bip32.serialize_xpub(x["version"], x["depth"] + 1, bip32.fingerprint(x["point"]), rec["account_index"], c1, k1)
    exp = dict(rec, network=mr["_net"], xpub_child=child)
    case = {"op": "key_record", "s": s}
    if out[0] == "exc":
        ctx.violation("key-record-rejects-valid", f"raised {out[1]!r} on {_short(s)}", case)
    elif out[1] != exp:
        bad = sorted(k for k in exp if out[1].get(k) != exp[k])
        ctx.violation("key-record-fields-wrong:" + ",".join(bad), f"got {_short(repr(out[1]), 300)}", case)
    ctx.case(case)


def install():
    import buidl  # noqa: F401
    from buidl import descriptor

    contracts.install(descriptor, "calc_core_checksum", post_checksum, label="descriptor.calc_core_checksum")
    contracts.install(descriptor, "parse_full_key_record", post_key_record, label="descriptor.parse_full_key_record")
    contracts.install(descriptor.P2WSHSortedMulti, "__init__", post_init, snap=snap_init)
    contracts.install(descriptor.P2WSHSortedMulti, "parse", post_parse)
    contracts.install(descriptor.P2WSHSortedMulti, "get_address", post_get_address)


# ---- workload ----------------------------------------------------------------------------
PARAMS = {
    "quick": {"random_sets": 2, "offsets": 3, "perm_cap": 24, "perm_sample": 5, "subst": 170, "exhaustive": False, "wrong_chk": 3},
    "thorough": {"random_sets": 44, "offsets": 5, "perm_cap": 24, "perm_sample": 12, "subst": 3600, "exhaustive": True, "wrong_chk": 10},
}
PATHS = ["m/48h/0h/0h/2h", "m/48'/1'/0'/2'", "m/48H/1H/0H/2H", "m", "m/45h", "m/48h/1h/0h/2h/2046266013/1945465733/1801020214/1402692941", "m/0/2147483647h/1"]
ACCOUNTS = [0, 1, 2, 5, 2**31 - 2, 2**31 - 1]


def shards(tier, seed):
    n = 16
    # the soft budget is only a safety cap (the workload is count-bounded); generous because the machine is shared
    quick = tier == "quick"
    return [{"name": "descriptors", "idx": i, "n": n, "budget_s": 1200 if quick else 14400, "hard_timeout_s": 1500 if quick else 18000} for i in range(n)]


def _try(fn, *a, **kw):
    try:
        return ("ok", fn(*a, **kw))
    except Exception as e:  # noqa: BLE001 - every outcome is an observation
        return ("exc", type(e).__name__ + ": " + str(e)[:140])


def make_record(ctx, rng, network, version=None, account=None, path=None):
    pt = ec.mul(rand_secret(rng))
    version = version or rng.choice(PUB_VERSIONS[network])
    depth = rng.choice([0, 1, 3, 4, 4, 4, 4, 7, 100])
    child_num = 0 if depth == 0 else rng.choice([0, 2 + 2**31, rng.getrandbits(32)])
    fp = b"\x00" * 4 if depth == 0 else rng.randbytes(4)
    xpub = bip32.serialize_xpub(version, depth, fp, child_num, rng.randbytes(32), pt)
    if account is None:
        account = rng.choice(ACCOUNTS[:3] + [0, 0, rng.randrange(3, 1000), rng.randrange(0, 2**31 - 1)])
    path = path or rng.choice(PATHS)
    ctx.count("xpub-version:" + version)
    ctx.count("network:" + network)
    ctx.count({0: "account:0", 1: "account:1", 2**31 - 2: "account:2^31-2", 2**31 - 1: "account:2^31-1"}.get(account, "account:other"))
    body = path[1:]
    ctx.count("path:empty" if not body else "path:deep" if body.count("/") > 4 else "path:'" if "'" in body else "path:H" if "H" in body else "path:h")
    return {"xfp": "%08x" % rng.getrandbits(32), "path": path, "xpub_parent": xpub, "account_index": account}


def descriptor_case(ctx, rng, m, records, p, heavy=True):
    """One record set through constructor, str, parse, permutations and the address grid."""
    from buidl.descriptor import P2WSHSortedMulti

    n = len(records)
    case = {"op": "descriptor", "m": m, "records": records}
    _state["tag"] = None
    ctx.count("mn:%dof%d" % (m, n))
    o = _try(P2WSHSortedMulti, m, [dict(r) for r in records])
    if o[0] != "ok":
        return None  # decided by the constructor contract
    d = o[1]
    s = str(d)
    try:
        model = model_descriptor(m, records)
    except ValueError:
        return None
    if [r["xpub_parent"] for r in model["records"]] != [model_record(r)["xpub_parent"] for r in records]:
        ctx.count("sort:supplied-order-differs-from-text-order")
    # parse(str(d)) must give the same descriptor (also decided by the parse contract)
    back = _try(P2WSHSortedMulti.parse, s)
    ctx.monitor("driver.parse-roundtrip")
    if back[0] != "ok":
        ctx.violation("parse-rejects-own-text", f"parse(str(d)) raised {back[1]}", case)
    elif str(back[1]) != s or back[1].key_records != d.key_records or back[1].quorum_m != d.quorum_m:
        ctx.violation("parse-does-not-reproduce", f"parse(str(d)) = {_short(str(back[1]))}", case)
    # passing the descriptor's own checksum to the constructor must be accepted
    _try(P2WSHSortedMulti, m, [dict(r) for r in records], checksum=d.checksum)
    # supply order: every permutation gives the same text
    perms = list(itertools.permutations(range(n)))
    if len(perms) > p["perm_cap"]:
        perms = [tuple(rng.sample(range(n), n)) for _ in range(p["perm_sample"])] + [tuple(reversed(range(n)))]
    else:
        ctx.count("perm:all-permutations")
    permuted = []
    for perm in perms:
        o2 = _try(P2WSHSortedMulti, m, [dict(records[i]) for i in perm])
        ctx.monitor("driver.supply-order-text")
        if o2[0] != "ok":
            ctx.violation("supply-order-changes-outcome", f"permutation {perm} raised {o2[1]}", dict(case, perm=list(perm)))
        elif str(o2[1]) != s:
            ctx.violation("supply-order-changes-text", f"permutation {perm} gives {_short(str(o2[1]))}", dict(case, perm=list(perm)))
        else:
            permuted.append(o2[1])
    if not heavy:
        return d
    # address grid
    pool = [1, 2**31 - 1, rng.randrange(2, 2**31 - 1), rng.randrange(2, 1000)]
    rot = (m + n + len(records[0]["xfp"]) + int(records[0]["xfp"], 16)) % len(pool)
    offsets = [0] + (pool[rot:] + pool[:rot])[: p["offsets"] - 1]
    seen = {}
    first = None
    for off in offsets:
        pair = {}
        for change in (False, True):
            a = _try(d.get_address, offset=off, is_change=change)
            if a[0] == "ok":
                pair[change] = a[1]
                prev = seen.setdefault(a[1], (off, change))
                ctx.monitor("driver.receive-change-disjoint")
                if prev[1] != change:
                    ctx.violation("receive-equals-change", f"address {a[1]} is receive@{prev[0] if not prev[1] else off} and change@{off if change else prev[0]}", dict(case, offset=off))
                if first is None:
                    first = (off, change, a[1])
        if len(pair) == 2 and pair[False] == pair[True]:
            ctx.violation("receive-equals-change", f"offset {off}: receive == change == {pair[True]}", dict(case, offset=off))
    # the address must not depend on the supply order either (one permuted object, one parsed object)
    if first and permuted:
        other = permuted[rng.randrange(len(permuted))]
        a = _try(other.get_address, offset=first[0], is_change=first[1])
        ctx.count("perm:address-on-permuted")
        ctx.monitor("driver.supply-order-address")
        if a[0] != "ok" or a[1] != first[2]:
            ctx.violation("supply-order-changes-address", f"permuted record set gives {a[1]!r}, original {first[2]!r}", dict(case, offset=first[0]))
    ctx.sample({"descriptor": s, "first_address": first})
    return d


def region_map(s):
    """Region name per character position of a canonical descriptor string text#checksum."""
    text, _, chk = s.partition("#")
    out = ["punctuation"] * len(text)
    head = len("wsh(sortedmulti(")
    for i in range(head):
        out[i] = "wsh-prefix"
    i = head
    while i < len(text) and text[i].isdigit():
        out[i] = "threshold"
        i += 1
    for mt in re.finditer(r"\[([0-9a-f]{8})([^\]]*)\]([1-9A-HJ-NP-Za-km-z]+)/([0-9]+)/\*", text):
        for g, name in ((1, "xfp"), (2, "path"), (3, "xpub"), (4, "account")):
            for j in range(mt.start(g), mt.end(g)):
                out[j] = name
    return out + ["#"] + ["checksum"] * len(chk)


def _parse_tagged(s, base):
    from buidl.descriptor import P2WSHSortedMulti

    _state["tag"] = {"base": base}
    try:
        P2WSHSortedMulti.parse(s)
    except Exception:  # noqa: BLE001 - rejection, counted by the contract
        pass
    _state["tag"] = None


def substitutions(ctx, rng, base, count=None, region_weights=None):
    """count=None: every position x every other character of the 95-character set."""
    regions = region_map(base)
    positions = [i for i, r in enumerate(regions) if r != "#"]
    if count is None:
        for i in positions:
            for c in te.DESC_INPUT:
                if c != base[i]:
                    ctx.count("subst:" + regions[i])
                    _parse_tagged(base[:i] + c + base[i + 1 :], base)
            if ctx.out_of_time():
                return
        ctx.count("subst:exhaustive-descriptor")
        ctx.exhaustive.append("all 94 substitutions at every body and checksum position of one descriptor per shard (thorough)")
        ctx.note("exhaustive-substitution-descriptor-shard-%d" % ctx.desc.get("idx", 0), base)
        return
    by_region = {}
    for i in positions:
        by_region.setdefault(regions[i], []).append(i)
    names = sorted(by_region)
    for k in range(count):
        # regions are sampled evenly (the xpub would otherwise take 3/4 of the draws and is the cheapest to refuse)
        region = names[k % len(names)] if k % 3 else rng.choice(names)
        i = rng.choice(by_region[region])
        c = rng.choice([x for x in te.DESC_INPUT if x != base[i]])
        ctx.count("subst:" + region)
        _parse_tagged(base[:i] + c + base[i + 1 :], base)
        if ctx.out_of_time():
            return


def wrong_checksums(ctx, rng, d, other, m, records, count):
    from buidl.descriptor import P2WSHSortedMulti

    text = d.descriptor_text
    _state["tag"] = None
    for k in range(count):
        chk = "".join(rng.choice(te.CHARSET) for _ in range(8))
        if chk == d.checksum:
            continue
        ctx.count("neg:wrong-checksum-parse")
        _try(P2WSHSortedMulti.parse, text + "#" + chk)
        if k == 0:
            ctx.count("neg:wrong-checksum-init")
            _try(P2WSHSortedMulti, m, [dict(r) for r in records], checksum=chk)
    if other is not None and other.checksum != d.checksum:
        ctx.count("neg:checksum-of-other-descriptor")
        _try(P2WSHSortedMulti.parse, text + "#" + other.checksum)


def run_shard(desc, ctx):
    te.selfcheck()
    bip32.selfcheck()
    install()
    idx, n = desc["idx"], desc["n"]
    p = PARAMS[ctx.tier]
    rng = ctx.rng("sets")
    todo = [mn for i, mn in enumerate(MN) if i % n == idx]
    # small extra sets so that every shard sees n = 1, 2 and 3 (bases of the substitution workload)
    todo += [(1, 1), (rng.randrange(1, 3), 2)] + [(lambda nn: (rng.randrange(1, nn + 1), nn))(rng.choice([2, 3, 3, 4, 5, 6])) for _ in range(p["random_sets"])]
    built = []
    for j, (m, nn) in enumerate(todo):
        network = ("mainnet", "testnet")[(idx + j) % 2]
        records = []
        for k in range(nn):
            # cycle deterministically through versions / accounts / paths so that the gates do not depend on luck
            ver = PUB_VERSIONS[network][(idx + j + k) % 5]
            acct = ACCOUNTS[(idx + 2 * j + k) % len(ACCOUNTS)] if (j + k) % 2 == 0 else None
            path = PATHS[(idx + j + k) % len(PATHS)]
            records.append(make_record(ctx, rng, network, ver, acct, path))
        # one seed contributing several accounts (or the 00000000 placeholder): records that share a fingerprint
        # but not a key - nothing in the address may be keyed on the fingerprint
        if nn >= 2 and j % 3 == 1:
            shared = "00000000" if (idx + j) % 2 else records[0]["xfp"]
            acct0 = records[0]["account_index"]
            for r in records:
                r["xfp"] = shared
                r["account_index"] = acct0
            ctx.count("class:records-share-fingerprint")
        d = descriptor_case(ctx, rng, m, records, p)
        if d is not None:
            built.append((d, m, records))
        if ctx.out_of_time():
            return
    # a tie in the text order (same parent key twice, different accounts): address must still be order independent
    if idx % 4 == 0:
        r1 = make_record(ctx, rng, "testnet", account=0)
        r2 = dict(r1, account_index=7, xfp="%08x" % rng.getrandbits(32))
        from buidl.descriptor import P2WSHSortedMulti

        a = _try(P2WSHSortedMulti, 1, [dict(r1), dict(r2)])
        b = _try(P2WSHSortedMulti, 1, [dict(r2), dict(r1)])
        if a[0] == b[0] == "ok":
            ctx.count("observed:tie-text-%s" % ("same" if str(a[1]) == str(b[1]) else "depends-on-supply-order"))
            x, y = _try(a[1].get_address, 3), _try(b[1].get_address, 3)
            ctx.monitor("driver.supply-order-address")
            if x != y:
                ctx.violation("supply-order-changes-address", f"tie case: {x[1]!r} vs {y[1]!r}", {"op": "descriptor", "m": 1, "records": [r1, r2]})
    # negative workloads on the small descriptors
    rng2 = ctx.rng("neg")
    small = [b for b in built if len(b[2]) <= 3] or built
    if not small:
        return
    for j, (d, m, records) in enumerate(small[:3]):
        other = small[(j + 1) % len(small)][0] if len(small) > 1 else None
        wrong_checksums(ctx, rng2, d, other, m, records, p["wrong_chk"])
    # the '#' between body and checksum replaced by every other character: what is left is a body followed by nine
    # characters of garbage, which is not a descriptor (a reader that drops the tail verifies nothing)
    from buidl.descriptor import P2WSHSortedMulti as _SM

    for d, m, records in small[:2]:
        text = str(d)
        pos = text.rfind("#")
        for ch in te.DESCRIPTOR_CHARSET if hasattr(te, "DESCRIPTOR_CHARSET") else [chr(c) for c in range(32, 127)]:
            if ch == "#":
                continue
            s = text[:pos] + ch + text[pos + 1 :]
            o = _try(_SM.parse, s)
            ctx.monitor("driver.separator-substitution")
            ctx.count("subst:separator")
            ctx.case({"op": "parse", "s": s})
            if o[0] == "ok":
                ctx.violation("parse-accepts-altered-character:separator", f"'#' replaced by {ch!r} was accepted", {"op": "parse", "s": s})
            else:
                ctx.rejected_by_exception += 1
    # the same descriptor as a quoted value inside a JSON account map (Specter-Desktop export): whether that form is read is
    # only observed; IF it is read, a replaced '#' must still be noticed there
    import json as _json

    for d, m, records in small[:1]:
        text = str(d)
        forms = {"account-map": _json.dumps({"label": "x", "blockheight": 0, "descriptor": text}).replace("/", "\\/"),
                 "descriptor-not-last": _json.dumps({"descriptor": text, "label": "x"}), "quoted": '"' + text + '"'}
        for name, blob in forms.items():
            o = _try(_SM.parse, blob)
            ok = o[0] == "ok" and str(o[1]) == text
            ctx.count("observed:embedded-descriptor:%s:%s" % (name, "read" if ok else "refused"))
            if not ok:
                continue
            for ch in ('"', "'", ",", "}", " ", "x", ":"):
                s = blob.replace("#", ch)
                o2 = _try(_SM.parse, s)
                ctx.monitor("driver.separator-substitution")
                ctx.count("subst:separator-in-embedded-form")
                if o2[0] == "ok":
                    ctx.violation("parse-accepts-altered-character:separator", f"'#' replaced by {ch!r} inside the {name} form was accepted", {"op": "parse", "s": s})
                else:
                    ctx.rejected_by_exception += 1
    one = [b for b in small if len(b[2]) == 1]
    if p["exhaustive"] and one:
        substitutions(ctx, rng2, str(one[0][0]))
    per = max(1, p["subst"] // len(small[:3]))
    for d, m, records in small[:3]:
        substitutions(ctx, rng2, str(d), per)
        if ctx.out_of_time():
            return


def replay(case, ctx):
    from buidl import descriptor
    from buidl.descriptor import P2WSHSortedMulti

    te.selfcheck()
    bip32.selfcheck()
    install()
    op = case.get("op")
    _state["tag"] = case.get("tag")
    if op == "checksum":
        _try(descriptor.calc_core_checksum, case["text"])
    elif op == "init":
        _try(P2WSHSortedMulti, case["m"], [dict(r) for r in case["records"]], checksum=case.get("checksum") or "", sort_key_records=case.get("sort", True))
    elif op == "parse":
        _try(P2WSHSortedMulti.parse, case["s"])
    elif op == "key_record":
        _try(descriptor.parse_full_key_record, case["s"])
    elif op == "address":
        o = _try(P2WSHSortedMulti, case["m"], [dict(r) for r in case["records"]], sort_key_records=False)
        if o[0] == "ok":
            _try(o[1].get_address, offset=case["offset"], is_change=case["is_change"])
    elif op == "descriptor":
        import random

        recs = case["records"]
        if case.get("perm"):
            o = _try(P2WSHSortedMulti, case["m"], [dict(recs[i]) for i in case["perm"]])
        descriptor_case(ctx, random.Random(0), case["m"], recs, PARAMS["quick"])
        if "offset" in case:
            o = _try(P2WSHSortedMulti, case["m"], [dict(r) for r in recs])
            if o[0] == "ok":
                for ch in (False, True):
                    _try(o[1].get_address, offset=case["offset"], is_change=ch)
