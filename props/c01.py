"""C01 - ECDSA: signing complete/deterministic/low-S, verification sound, DER lossless.

Monitors (contracts on the real functions, see vmon.contracts):
  PrivateKey.sign      result == reference RFC 6979 low-S signature; in range; ref-verifies
  S256Point.verify     returned bool == reference verifier (range checks + ECDSA equation)
  Signature.der        bytes == reference strict DER encoder
  Signature.parse      parse(der) == (r, s) for every strict DER string
Workload: boundary + random secrets/digests, nonce injection onto the low-S boundary,
tamper catalogue on every valid tuple, synthetic (r, s) of every byte length for DER.
"""
from ref import ec
from vmon import contracts
from vmon.core import outcome
from vmon.util import N, boundary_digests, boundary_secrets, rand_digest, rand_secret

PROPERTY_ID = "C01"
REPO_TEST_MODULES = ["test_ecc", "test_pecc"]  # thorough tier: run as an extra workload under the contracts
RULE = (
    "cases = (secret, digest) pairs signed by PrivateKey.sign, (pubkey, digest, r, s) tuples given to "
    "S256Point.verify (valid ones and one tamper class each), and (r, s) pairs through der/parse; every case "
    "is decided by a contract on the real function comparing with the reference ECDSA/RFC6979/DER "
    "implementation; distinct = distinct concrete inputs by hash; non-trivial = the contract ran to a "
    "comparison (sign: reference signature computed; verify: reference verdict computed; der: reference bytes)"
)
ASSUMPTIONS = [
    "r >= n produced by signing itself (x(kG) >= n, probability 2^-128) is unobservable and not claimed",
    "nonce-injected cases use a subclass overriding deterministic_k; for them nonce equality with RFC 6979 is not asserted",
]

TAMPERS = [
    "z+1", "z-1", "z-bitflip", "other-key", "r+1", "r-1", "s+1", "s-1", "swap-rs", "r=0", "s=0", "r=n", "s=n",
    "r+n", "s+n", "s-n", "n-s(valid)", "z+n(valid-if<2^256)", "z=2^256-1", "r-bitflip", "s-bitflip", "negated-key",
]

GATES = {
    "sign-monitor-ran": ["PrivateKey.sign"],
    "verify-monitor-ran": ["S256Point.verify"],
    "der-monitors-ran": ["Signature.der", "Signature.parse"],
    "high-s-before-normalisation": ["sign:high-s-normalised"],
    "low-s-before-normalisation": ["sign:low-s-kept"],
    "injected-boundaries": ["inject:s0=floor(n/2)", "inject:s0=floor(n/2)+1", "inject:s0=2^255", "inject:s0=n-1", "inject:s0=1"],
    "tamper-classes": ["tamper:" + t for t in TAMPERS],
    "valid-accepted": ["verify:ref-valid"],
    "invalid-seen": ["verify:ref-invalid"],
    "der-padding-branches": ["der:r-high-bit", "der:r-no-high-bit", "der:short-int"],
    "digest-boundaries": ["digest:z>=n", "digest:z=n", "digest:z=0"],
    "object-reuse-histories": ["reuse:objects-reused"],
    "crafted-valid-tuples": ["crafted:uG==vP(doubling-inside-verify)", "crafted:x(R)-in-[n,p)"],
}

_state = {"tamper": None, "injected": False}


def anchors():
    from buidl import pecc

    return [pecc.PrivateKey.sign, pecc.S256Point.verify, pecc.Signature.der, pecc.Signature.parse, pecc.PrivateKey.deterministic_k]


# ---- contracts ---------------------------------------------------------------------------
def _pt(point):
    if point.x is None:
        return None
    return (point.x.num, point.y.num)


def post_sign(args, kwargs, pre, out):
    ctx = contracts.ctx()
    self, z = args[0], args[1]
    d = self.secret
    case = {"op": "sign", "secret": d, "z": z, "injected_k": getattr(self, "_inj_k", None)}
    if out[0] == "exc":
        ctx.violation("sign-raises", f"sign raised {out[1]!r}", case)
        return
    sig = out[1]
    r, s = sig.r, sig.s
    inj = getattr(self, "_inj_k", None)
    if inj is None:
        er, es, high, k = ec.ecdsa_sign(d, z)
        ctx.count("sign:high-s-normalised" if high else "sign:low-s-kept")
    else:
        er, es, high = ec.ecdsa_sign_with_k(d, z, inj)
    if not (1 <= r < N and 1 <= s < N):
        ctx.violation("sign-out-of-range", f"r={r:x} s={s:x}", case)
    if s > N // 2:
        ctx.violation("sign-high-s", f"s={s:x} > floor(n/2)", case)
    if (r, s) != (er, es):
        mech = "sign-not-rfc6979" if inj is None else "sign-equation-wrong"
        if (r, N - s) == (er, es):
            mech = "sign-high-s"
        ctx.violation(mech, f"got ({r:x},{s:x}) expected ({er:x},{es:x})", case)
    if not ec.ecdsa_verify(ec.mul(d), z, r, s):
        ctx.violation("sign-does-not-verify", f"reference rejects ({r:x},{s:x})", case)
    ctx.case(case)


def post_verify(args, kwargs, pre, out):
    ctx = contracts.ctx()
    self, z, sig = args[0], args[1], args[2]
    r, s = getattr(sig, "r", None), getattr(sig, "s", None)
    pub = _pt(self)
    case = {"op": "verify", "pub": pub, "z": z, "r": r, "s": s, "tamper": _state["tamper"]}
    expect = ec.ecdsa_verify(pub, z, r, s) if isinstance(z, int) else False
    ctx.count("verify:ref-valid" if expect else "verify:ref-invalid")
    tag = _state["tamper"] or "untagged"
    if out[0] == "exc":
        if expect:
            ctx.violation("verify-rejects-valid", f"raised {out[1]!r} on a valid tuple", case)
        else:
            ctx.rejected_by_exception += 1
            ctx.count("verify:invalid-rejected-by-exception")
    else:
        got = out[1]
        if expect and got is not True:
            ctx.violation("verify-rejects-valid", f"returned {got!r} on a valid tuple ({tag})", case)
        if not expect and got:
            ctx.violation("verify-accepts-invalid:" + _range_class(r, s), f"returned {got!r} on an invalid tuple ({tag})", case)
    ctx.case(case)


def _range_class(r, s):
    if not (isinstance(r, int) and isinstance(s, int)):
        return "non-int"
    if not (1 <= r < N) or not (1 <= s < N):
        return "out-of-range-r-or-s"
    return "equation-fails"


def post_der(args, kwargs, pre, out):
    ctx = contracts.ctx()
    self = args[0]
    r, s = self.r, self.s
    if not (isinstance(r, int) and isinstance(s, int) and 1 <= r < N and 1 <= s < N):
        return NotImplemented  # outside the statement (not a signature)
    case = {"op": "der", "r": r, "s": s}
    if out[0] == "exc":
        ctx.violation("der-raises", f"der raised {out[1]!r}", case)
        return
    exp = ec.der(r, s)
    if out[1] != exp:
        ctx.violation("der-not-strict", f"got {out[1].hex()} expected {exp.hex()}", case)
    ctx.case(case)


def post_parse(args, kwargs, pre, out):
    ctx = contracts.ctx()
    raw = args[1]
    strict = ec.der_parse_strict(bytes(raw)) if isinstance(raw, (bytes, bytearray)) else None
    if strict is None:
        return NotImplemented  # the statement only covers strings the encoder can emit
    case = {"op": "parse", "der": bytes(raw)}
    if out[0] == "exc":
        ctx.violation("der-parse-raises", f"parse raised {out[1]!r} on strict DER", case)
        return
    if (out[1].r, out[1].s) != strict:
        ctx.violation("der-roundtrip", f"got ({out[1].r:x},{out[1].s:x}) expected {strict}", case)
    ctx.case(case)


def install():
    from buidl import pecc

    contracts.install(pecc.PrivateKey, "sign", post_sign)
    contracts.install(pecc.S256Point, "verify", post_verify)
    contracts.install(pecc.Signature, "der", post_der)
    contracts.install(pecc.Signature, "parse", post_parse)


# ---- workload ----------------------------------------------------------------------------
def shards(tier, seed):
    n = 16
    per = {"quick": 5, "thorough": 60}[tier]
    out = [{"name": "signverify", "idx": i, "n": n, "per": per, "budget_s": 900 if tier == "quick" else 5400} for i in range(n)]
    return out


def _mk_injected_cls():
    from buidl.pecc import PrivateKey

    class InjectedNonceKey(PrivateKey):
        _inj_k = None

        def deterministic_k(self, z):
            return self._inj_k

    return InjectedNonceKey


def tamper_tuple(name, rng, pub_point, z, r, s, other_point):
    """Returns (point, z, r, s) for a tamper class."""
    if name == "z+1":
        return pub_point, (z + 1) % 2**256, r, s
    if name == "z-1":
        return pub_point, (z - 1) % 2**256, r, s
    if name == "z-bitflip":
        return pub_point, z ^ (1 << rng.randrange(256)), r, s
    if name == "other-key":
        return other_point, z, r, s
    if name == "negated-key":
        return -1 * pub_point, z, r, s
    if name == "r+1":
        return pub_point, z, r + 1, s
    if name == "r-1":
        return pub_point, z, r - 1, s
    if name == "s+1":
        return pub_point, z, r, s + 1
    if name == "s-1":
        return pub_point, z, r, s - 1
    if name == "swap-rs":
        return pub_point, z, s, r
    if name == "r=0":
        return pub_point, z, 0, s
    if name == "s=0":
        return pub_point, z, r, 0
    if name == "r=n":
        return pub_point, z, N, s
    if name == "s=n":
        return pub_point, z, r, N
    if name == "r+n":
        return pub_point, z, r + N, s
    if name == "s+n":
        return pub_point, z, r, s + N
    if name == "s-n":
        return pub_point, z, r, s - N
    if name == "n-s(valid)":
        return pub_point, z, r, N - s
    if name == "z+n(valid-if<2^256)":
        return pub_point, (z + N) if z + N < 2**256 else (z - N if z >= N else z ^ 1), r, s
    if name == "z=2^256-1":
        return pub_point, 2**256 - 1, r, s
    if name == "r-bitflip":
        return pub_point, z, r ^ (1 << rng.randrange(256)), s
    if name == "s-bitflip":
        return pub_point, z, r, s ^ (1 << rng.randrange(256)),
    raise KeyError(name)


def one_pair(ctx, rng, d, z, tampers, Injected):
    from buidl.pecc import PrivateKey, Signature

    if z == 0:
        ctx.count("digest:z=0")
    if z == N:
        ctx.count("digest:z=n")
    if z >= N:
        ctx.count("digest:z>=n")
    ko = outcome(PrivateKey, d)
    ctx.monitor("key-constructor")
    if ko[0] != "ok":
        # every secret in [1, n-1] is a private key: refusing one makes signing incomplete
        ctx.violation("key-constructor-refuses-valid-secret", f"PrivateKey({d:#x}) raised {ko[1]}", {"op": "sign", "secret": d, "z": z})
        return
    pk = ko[1]
    _state["tamper"] = "valid"
    o = outcome(pk.sign, z)
    if o[0] != "ok":
        return
    sig = o[1]
    outcome(pk.point.verify, z, sig)
    # DER round trip through the real encoder/decoder (monitored)
    o2 = outcome(sig.der)
    if o2[0] == "ok":
        o3 = outcome(Signature.parse, o2[1])
        if o3[0] == "ok" and (o3[1].r, o3[1].s) != (sig.r, sig.s):
            ctx.violation("der-roundtrip", "parse(der(sig)) != sig", {"op": "der-roundtrip", "r": sig.r, "s": sig.s})
    other = PrivateKey(rand_secret(rng)).point
    for t in tampers:
        pt, tz, tr, ts = tamper_tuple(t, rng, pk.point, z, sig.r, sig.s, other)[:4]
        _state["tamper"] = t
        ctx.count("tamper:" + t)
        outcome(pt.verify, tz, Signature(tr, ts))
    _state["tamper"] = None


def inject(ctx, rng, Injected, label, s0):
    """Steer the pre-normalisation s onto a chosen value: pick k, solve z."""
    d = rand_secret(rng)
    k = rand_secret(rng)
    r = ec.mul(k)[0] % N
    z = (s0 * k - r * d) % N
    key = Injected(d)
    key._inj_k = k
    ctx.count("inject:" + label)
    _state["tamper"] = "valid"
    o = outcome(key.sign, z)
    if o[0] == "ok":
        outcome(key.point.verify, z, o[1])
        outcome(o[1].der)
    _state["tamper"] = None


def der_catalogue(ctx, rng, idx, n):
    """Synthetic (r, s): every byte length 1..32 with and without the high bit."""
    from buidl.pecc import Signature

    for ln in range(1, 33):
        if ln % n != idx % n and n > 1 and (ln + 7) % n != idx % n:
            continue
        for hi_r in (0, 1):
            for hi_s in (0, 1):
                def mk(hi):
                    v = rng.getrandbits(8 * ln - 8) if ln > 1 else 0
                    top = (0x80 | rng.getrandbits(7)) if hi else (1 + rng.getrandbits(6))
                    return (top << (8 * (ln - 1))) | v
                r, s = mk(hi_r), mk(hi_s)
                if not (1 <= r < N and 1 <= s < N):
                    continue
                ctx.count("der:r-high-bit" if hi_r else "der:r-no-high-bit")
                if ln < 32:
                    ctx.count("der:short-int")
                o = outcome(Signature(r, s).der)
                if o[0] == "ok":
                    o2 = outcome(Signature.parse, o[1])
                    if o2[0] == "ok" and (o2[1].r, o2[1].s) != (r, s):
                        ctx.violation("der-roundtrip", "parse(der(r,s)) != (r,s)", {"op": "der-roundtrip", "r": r, "s": s})


def object_reuse_history(ctx, rng):
    """One key object signs several digests; one Signature object is verified under several keys / digests.
    Results must not depend on what the objects were used for before; the contracts decide every step."""
    from buidl.pecc import PrivateKey, Signature

    d = rand_secret(rng)
    key = PrivateKey(d)
    zs = [rand_digest(rng), N, 0, rand_digest(rng)]
    sigs = []
    _state["tamper"] = "valid"
    for z in zs + zs[:2]:
        o = outcome(key.sign, z)
        if o[0] == "ok":
            sigs.append((z, o[1]))
    other = PrivateKey(rand_secret(rng)).point
    for z, sig in sigs[:3]:
        parsed = outcome(lambda: Signature.parse(sig.der()))
        for obj in [sig] + ([parsed[1]] if parsed[0] == "ok" else []):
            _state["tamper"] = "valid"
            outcome(key.point.verify, z, obj)
            _state["tamper"] = "other-key"
            outcome(other.verify, z, obj)
            _state["tamper"] = "z+1"
            outcome(key.point.verify, (z + 1) % 2**256, obj)
            _state["tamper"] = "valid"
            outcome(key.point.verify, z, obj)
    _state["tamper"] = None
    ctx.count("reuse:objects-reused")
    ctx.case(("reuse", d, zs))


def crafted_tuples(ctx, rng):
    """Valid tuples that random signing never produces (each is decided by the verify contract):
    (a) u*G == v*P, so the final addition inside verification is a *doubling* of two equal points held in
        different objects:  z = r*d, s = 2*r*d/k;
    (b) R = u*G + v*P has an x coordinate in [n, p): the equation compares x mod n with r.  Built without knowing a
        discrete logarithm by public-key recovery: choose R, s, z, set r = x(R) - n and Q = r^-1 (s*R - z*G).
        Its invalid twin carries r' = x(R) >= n."""
    from buidl.pecc import S256Point, Signature

    d, k = rand_secret(rng), rand_secret(rng)
    r = ec.mul(k)[0] % N
    z = r * d % N
    s = 2 * r * d * pow(k, -1, N) % N
    if s and r:
        if s > N // 2 and rng.random() < 0.5:
            s = N - s
        Q = ec.mul(d)
        _state["tamper"] = "valid"
        ctx.count("crafted:uG==vP(doubling-inside-verify)")
        outcome(S256Point(Q[0], Q[1]).verify, z, Signature(r, s))
    xs = [x for x in range(N + 1, N + 80) if ec.lift_x(x) is not None]
    x = xs[rng.randrange(len(xs))]
    R = ec.lift_x(x, odd=bool(rng.getrandbits(1)))
    r, s, z = x - N, rand_secret(rng), rand_digest(rng)
    Q = ec.mul(pow(r, -1, N), ec.add(ec.mul(s, R), ec.neg(ec.mul(z))))
    if Q is not None:
        pt = S256Point(Q[0], Q[1])
        _state["tamper"] = "valid"
        ctx.count("crafted:x(R)-in-[n,p)")
        outcome(pt.verify, z, Signature(r, s))
        _state["tamper"] = "r=x(R)>=n"
        outcome(pt.verify, z, Signature(x, s))
    _state["tamper"] = None


def run_shard(desc, ctx):
    ec.selfcheck()
    install()
    for _ in range(1 if ctx.tier == "quick" else 6):
        object_reuse_history(ctx, ctx.rng("reuse", _))
        crafted_tuples(ctx, ctx.rng("crafted", _))
    Injected = _mk_injected_cls()
    idx, n, per = desc["idx"], desc["n"], desc["per"]
    rng = ctx.rng()
    bs, bd = boundary_secrets(), boundary_digests()
    # deterministic boundary grid, spread over shards: (secret_i, digest_j) with (i+j) % n == idx
    pairs = []
    for i, d in enumerate(bs):
        for j, z in enumerate(bd):
            if (i * len(bd) + j) % n == idx:
                pairs.append((d, z))
    grid = pairs if ctx.tier == "thorough" else pairs[: max(2, per // 2)]
    # make sure z = n, z = 0, z >= n are seen by every tier from some shard
    forced = [(bs[idx % len(bs)], [0, N, N + 1, 2**256 - 1][idx % 4])]
    todo = forced + grid + [(rand_secret(rng), rand_digest(rng)) for _ in range(per)]
    # tamper classes cycle so that every class is exercised by every shard over its pairs
    tcycle = TAMPERS[idx % len(TAMPERS):] + TAMPERS[: idx % len(TAMPERS)]
    tper = 6 if ctx.tier == "quick" else 10
    pos = 0
    for (d, z) in todo:
        if ctx.out_of_time():
            return
        ts = [tcycle[(pos + i) % len(tcycle)] for i in range(tper)]
        pos += tper
        one_pair(ctx, rng, d, z, ts, Injected)
        ctx.sample({"secret": d, "z": z, "tampers": ts})
    labels = [
        ("s0=floor(n/2)", N // 2), ("s0=floor(n/2)+1", N // 2 + 1), ("s0=2^255-1", 2**255 - 1), ("s0=2^255", 2**255),
        ("s0=2^255+1", 2**255 + 1), ("s0=n-1", N - 1), ("s0=1", 1), ("s0=floor(n/2)+2", N // 2 + 2),
    ]
    reps = 1 if ctx.tier == "quick" else 6
    for rep in range(reps):
        for li, (label, s0) in enumerate(labels):
            if (li + rep) % min(n, 4) == idx % min(n, 4):
                inject(ctx, rng, Injected, label, s0)
    der_catalogue(ctx, rng, idx, n)


def replay(case, ctx):
    from buidl.pecc import PrivateKey, S256Point, Signature

    ec.selfcheck()
    install()
    op = case.get("op")
    if op == "sign":
        if case.get("injected_k"):
            key = _mk_injected_cls()(case["secret"])
            key._inj_k = case["injected_k"]
        else:
            key = PrivateKey(case["secret"])
        outcome(key.sign, case["z"])
    elif op == "verify":
        pt = S256Point(*case["pub"])
        outcome(pt.verify, case["z"], Signature(case["r"], case["s"]))
    elif op in ("der", "der-roundtrip"):
        o = outcome(Signature(case["r"], case["s"]).der)
        if o[0] == "ok":
            outcome(Signature.parse, o[1])
    elif op == "parse":
        outcome(Signature.parse, case["der"])
