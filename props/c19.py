"""C19 - P2P envelope and wire primitive codecs.

Monitors (contracts on the real functions, see vmon.contracts):
  helper.encode_varint / read_varint / encode_varstr / read_varstr, int_to_little_endian / little_endian_to_int /
  int_to_big_endian / big_endian_to_int / int_to_byte / byte_to_int              == ref/p2p.py
  NetworkEnvelope.serialize / parse       layout; wrong magic / wrong checksum / fewer payload bytes than declared
                                          must be rejected (acceptance = refuting event)
  VersionMessage / GetHeadersMessage / GetDataMessage / PingMessage / PongMessage / GetCFiltersMessage /
  GetCFHeadersMessage / GetCFCheckPointMessage .serialize                           == `struct` layouts
  PingMessage / PongMessage / HeadersMessage / CFilterMessage / CFHeadersMessage / CFCheckPointMessage .parse,
  Block.parse_header / Block.serialize                                              fields == reference decode
Workloads: integers across every width boundary; var-strings; envelopes over 4 networks x command lengths 0..12 x
payload sizes 0..100000; every byte position of sampled envelopes corrupted (alone and followed by another message);
every truncation; foreign network; declared length larger than the bytes present; every message type at the width
boundaries of each field.
"""
import struct
from io import BytesIO

from ref import filters as fl
from ref import p2p
from vmon import contracts
from vmon.core import outcome

PROPERTY_ID = "C19"
REPO_TEST_MODULES = ["test_network", "test_block", "test_helper"]  # thorough tier: extra workload under the contracts
RULE = (
    "cases = integers / byte strings through the primitive codecs, (network, command, payload) triples through "
    "NetworkEnvelope.serialize+parse, byte strings derived from valid envelopes by one corrupted byte / truncation / foreign "
    "magic / over-declared length through NetworkEnvelope.parse, and field tuples of every fixed-layout message through its "
    "serialize or parse; each is decided by a contract on the real function comparing with the struct-based reference; "
    "distinct = distinct concrete inputs by hash; non-trivial = the contract reached the comparison (for negative envelope "
    "cases: the reference classified the bytes as wrong-magic / wrong-checksum / fewer-payload-bytes-than-declared / "
    "truncated-header and the library's reaction was observed)"
)
ASSUMPTIONS = [
    "a corrupted command byte is not detectable by the protocol: such an envelope must parse to the corrupted command with the same payload",
    "commands are 0..12 bytes not ENDING in NUL (trailing NULs are indistinguishable from the zero padding); leading / embedded NULs are part of the command",
    "messages without parse() (version, getheaders, getdata, getcfilters, getcfheaders, getcfcheckpt) are checked for layout only; messages without serialize() (headers, cfilter, cfheaders, cfcheckpt) are decoded from reference-built payloads",
    "truncated message payloads and non-canonical CompactSize encodings are only observed (the statement demands rejection only at the envelope level)",
    "in a version message the two ports are big-endian (network byte order) as in the protocol; all other integers little-endian",
]

CORRUPT_CLASSES = ["magic", "command", "length-up", "length-down", "checksum", "payload"]
GATES = {
    "object-edit-histories": ["reuse:header-edited-then-serialized"],
    "constructor-arguments": ["ctor-args:start-height=0", "ctor-args:other"],
    "primitive-monitors-ran": ["encode_varint", "read_varint", "encode_varstr", "read_varstr", "int_to_little_endian", "little_endian_to_int",
                               "int_to_big_endian", "big_endian_to_int", "int_to_byte", "byte_to_int"],
    "envelope-monitors-ran": ["NetworkEnvelope.serialize", "NetworkEnvelope.parse"],
    "message-monitors-ran": [
        "VersionMessage.serialize", "GetHeadersMessage.serialize", "HeadersMessage.parse", "GetDataMessage.serialize", "PingMessage.serialize",
        "PingMessage.parse", "PongMessage.serialize", "PongMessage.parse", "GetCFiltersMessage.serialize", "CFilterMessage.parse",
        "GetCFHeadersMessage.serialize", "CFHeadersMessage.parse", "GetCFCheckPointMessage.serialize", "CFCheckPointMessage.parse",
        "Block.parse_header", "Block.serialize",
    ],
    "varint-widths": ["varint:width=1", "varint:width=3", "varint:width=5", "varint:width=9", "varint:0xfc", "varint:0xfd", "varint:0xffff",
                      "varint:0x10000", "varint:0xffffffff", "varint:0x100000000", "varint:2^64-1"],
    "envelope-space": ["envelope:net=" + n for n in p2p.NETWORKS] + ["envelope:cmd-len=0", "envelope:cmd-len=12", "envelope:payload=0",
                                                                       "envelope:payload>=65536", "envelope:accepted-valid"],
    "corruption-classes": ["corrupt:" + c for c in CORRUPT_CLASSES] + ["corrupt:followed-by-next-message", "truncate:every-prefix", "negative:foreign-network",
                                                                        "negative:declared-length-too-large"],
    "rejections-observed": ["reject:wrong-magic", "reject:wrong-checksum", "reject:fewer-payload-bytes-than-declared", "reject:truncated-header",
                            "command-corruption:parsed-with-same-payload"],
    "message-boundaries": ["version:asymmetric-port", "version:user-agent>=253", "getdata:items>=253", "headers:count>=2", "cfheaders:count>=253",
                           "cfcheckpt:count>=1", "cfilter:filter>=253-bytes"],
}

_state = {"negative": None, "primitives": False}

MAX_PER_MECHANISM = 6
_mech_seen = {}


def _viol(ctx, mechanism, what, case):
    """Keep the first few violations of each mechanism per shard (the harness keeps 200 per shard in total;
    thousands of repeats of one mechanism must not crowd out a different one); repeats are counted."""
    k = _mech_seen.get(mechanism, 0) + 1
    _mech_seen[mechanism] = k
    if k <= MAX_PER_MECHANISM:
        ctx.violation(mechanism, what, case)
    else:
        ctx.count("violation-repeats:" + mechanism)



def anchors():
    from buidl import block, compactfilter, helper, network

    return [
        helper.read_varint, helper.encode_varint, helper.read_varstr, helper.encode_varstr, network.NetworkEnvelope.parse, network.NetworkEnvelope.serialize,
        network.VersionMessage.serialize, network.GetHeadersMessage.serialize, network.HeadersMessage.parse, network.GetDataMessage.serialize,
        network.PingMessage.parse, network.PongMessage.parse, compactfilter.CFilterMessage.parse, compactfilter.CFHeadersMessage.parse,
        compactfilter.CFCheckPointMessage.parse, block.Block.parse_header, block.Block.serialize,
    ]


def _b(x):
    return isinstance(x, (bytes, bytearray))


def _u(x, width):
    return type(x) is int and 0 <= x < (1 << (8 * width))


def snap_stream(*args, **kwargs):
    """(position, remaining bytes) of the BytesIO argument, else None."""
    for a in list(args) + list(kwargs.values()):
        if isinstance(a, BytesIO):
            pos = a.tell()
            return (a, pos, a.getvalue()[pos:])
    return None


# ---- contracts: primitives -----------------------------------------------------------------------------
def _varint_classes(ctx, n, width):
    ctx.count("varint:width=%d" % width)
    for name, v in (("0xfc", 0xFC), ("0xfd", 0xFD), ("0xffff", 0xFFFF), ("0x10000", 0x10000), ("0xffffffff", 0xFFFFFFFF), ("0x100000000", 0x100000000),
                    ("2^64-1", 2**64 - 1)):
        if n == v:
            ctx.count("varint:" + name)


def post_encode_varint(args, kwargs, pre, out):
    ctx = contracts.ctx()
    i = args[0] if args else kwargs.get("i")
    if type(i) is not int or not 0 <= i < 2**64:
        return NotImplemented
    exp = p2p.compact_size(i)
    case = {"op": "varint", "n": i}
    if out[0] == "exc":
        _viol(ctx, "encode-varint-raises", f"encode_varint({i:#x}) raised {out[1]!r}", case)
    elif out[1] != exp:
        _viol(ctx, "encode-varint-differs", f"encode_varint({i:#x}) = {bytes(out[1]).hex()} expected {exp.hex()}", case)
    _varint_classes(ctx, i, len(exp))
    ctx.case(("varint", i))


def post_read_varint(args, kwargs, pre, out):
    ctx = contracts.ctx()
    if pre is None:
        return NotImplemented
    stream, pos, rest = pre
    try:
        exp, used, canonical = p2p.read_compact_size(rest)
    except ValueError:
        ctx.count("observed:read_varint-on-truncated-stream-" + ("raises" if out[0] == "exc" else "returns-a-value"))
        return NotImplemented
    if not canonical:
        ctx.count("observed:read_varint-non-canonical-encoding")
    case = {"op": "read-varint", "raw": rest[:9]}
    if out[0] == "exc":
        _viol(ctx, "read-varint-raises", f"read_varint({rest[:used].hex()}) raised {out[1]!r}", case)
    else:
        if out[1] != exp:
            _viol(ctx, "read-varint-differs", f"read_varint({rest[:used].hex()}) = {out[1]!r} expected {exp}", case)
        if stream.tell() - pos != used:
            _viol(ctx, "read-varint-consumes-wrong-number-of-bytes", f"consumed {stream.tell() - pos} of {rest[:used].hex()}", case)
    _varint_classes(ctx, exp, used)
    ctx.case(("read-varint", rest[:used]))


def post_encode_varstr(args, kwargs, pre, out):
    ctx = contracts.ctx()
    b = args[0] if args else kwargs.get("b")
    if not _b(b):
        return NotImplemented
    exp = p2p.varstr(bytes(b))
    case = {"op": "varstr", "data": bytes(b) if len(b) <= 4096 else None, "len": len(b)}
    if out[0] == "exc":
        _viol(ctx, "encode-varstr-raises", f"len {len(b)}: raised {out[1]!r}", case)
    elif out[1] != exp:
        _viol(ctx, "encode-varstr-differs", f"len {len(b)}: got {bytes(out[1])[:12].hex()}.. expected {exp[:12].hex()}..", case)
    ctx.case(("varstr", len(b), fl.hash256(bytes(b))))


def post_read_varstr(args, kwargs, pre, out):
    ctx = contracts.ctx()
    if pre is None:
        return NotImplemented
    stream, pos, rest = pre
    try:
        exp, used = p2p.read_varstr(rest)
    except ValueError:
        ctx.count("observed:read_varstr-on-truncated-stream-" + ("raises" if out[0] == "exc" else "returns-a-value"))
        return NotImplemented
    case = {"op": "read-varstr", "raw": rest[:used] if used <= 4096 else None, "len": len(exp)}
    if out[0] == "exc":
        _viol(ctx, "read-varstr-raises", f"len {len(exp)}: raised {out[1]!r}", case)
    else:
        if out[1] != exp:
            _viol(ctx, "read-varstr-differs", f"len {len(exp)}: decoded string differs", case)
        if stream.tell() - pos != used:
            _viol(ctx, "read-varstr-consumes-wrong-number-of-bytes", f"consumed {stream.tell() - pos}, expected {used}", case)
    ctx.case(("read-varstr", len(exp), fl.hash256(exp)))


def _post_int_encode(ref_fn, name):
    def post(args, kwargs, pre, out):
        ctx = contracts.ctx()
        if len(args) < 2:
            return NotImplemented
        n, length = args[0], args[1]
        if type(n) is not int or type(length) is not int or length < 0 or length > 64:
            return NotImplemented
        case = {"op": name, "n": n, "length": length}
        fits = 0 <= n < (1 << (8 * length))
        if not fits:
            if out[0] == "ok":
                _viol(ctx, name + "-accepts-out-of-range", f"{name}({n}, {length}) = {bytes(out[1]).hex()} (value does not fit; decoding cannot give it back)", case)
            else:
                ctx.rejected_by_exception += 1
            return None
        exp = ref_fn(n, length)
        if out[0] == "exc":
            _viol(ctx, name + "-raises", f"{name}({n:#x}, {length}) raised {out[1]!r}", case)
        elif out[1] != exp:
            _viol(ctx, name + "-differs", f"{name}({n:#x}, {length}) = {bytes(out[1]).hex()} expected {exp.hex()}", case)
        if _state["primitives"]:
            ctx.case((name, n, length))

    return post


def _post_int_decode(ref_fn, name):
    def post(args, kwargs, pre, out):
        ctx = contracts.ctx()
        b = args[0] if args else None
        if not _b(b):
            return NotImplemented
        exp = ref_fn(bytes(b))
        case = {"op": name, "data": bytes(b)}
        if out[0] == "exc":
            _viol(ctx, name + "-raises", f"{name}({bytes(b).hex()}) raised {out[1]!r}", case)
        elif out[1] != exp:
            _viol(ctx, name + "-differs", f"{name}({bytes(b).hex()}) = {out[1]!r} expected {exp}", case)
        if _state["primitives"]:
            ctx.case((name, bytes(b)))

    return post


def post_int_to_byte(args, kwargs, pre, out):
    ctx = contracts.ctx()
    n = args[0] if args else None
    if type(n) is not int:
        return NotImplemented
    case = {"op": "int_to_byte", "n": n}
    if not 0 <= n <= 255:
        if out[0] == "ok":
            _viol(ctx, "int_to_byte-accepts-out-of-range", f"int_to_byte({n}) = {out[1]!r}", case)
        else:
            ctx.rejected_by_exception += 1
        return None
    if out[0] == "exc":
        _viol(ctx, "int_to_byte-raises", f"int_to_byte({n}) raised {out[1]!r}", case)
    elif out[1] != struct.pack("B", n):
        _viol(ctx, "int_to_byte-differs", f"int_to_byte({n}) = {out[1]!r}", case)
    ctx.case(("int_to_byte", n))


def post_byte_to_int(args, kwargs, pre, out):
    ctx = contracts.ctx()
    b = args[0] if args else None
    if not _b(b) or len(b) != 1:
        return NotImplemented
    if out[0] == "exc":
        _viol(ctx, "byte_to_int-raises", f"raised {out[1]!r}", {"op": "byte_to_int", "data": bytes(b)})
    elif out[1] != struct.unpack("B", bytes(b))[0]:
        _viol(ctx, "byte_to_int-differs", f"byte_to_int({bytes(b).hex()}) = {out[1]!r}", {"op": "byte_to_int", "data": bytes(b)})
    ctx.case(("byte_to_int", bytes(b)))


# ---- contracts: envelope -----------------------------------------------------------------------------------
def _net_of_magic(magic):
    for k, v in p2p.MAGIC.items():
        if v == magic:
            return k
    return None


def post_env_serialize(args, kwargs, pre, out):
    ctx = contracts.ctx()
    e = args[0]
    net = _net_of_magic(getattr(e, "magic", None))
    if net is None or not _b(e.command) or not _b(e.payload) or len(e.command) > 12 or e.command.endswith(b"\x00") or len(e.payload) >= 2**32:
        return NotImplemented
    cmd, payload = bytes(e.command), bytes(e.payload)
    exp = p2p.envelope(net, cmd, payload)
    case = {"op": "envelope", "network": net, "command": cmd, "payload": payload if len(payload) <= 4096 else None, "payload_len": len(payload)}
    if out[0] == "exc":
        _viol(ctx, "envelope-serialize-raises", f"{net} {cmd!r} payload {len(payload)}: raised {out[1]!r}", case)
    elif out[1] != exp:
        got = bytes(out[1])
        field = "magic" if got[:4] != exp[:4] else "command-padding" if got[4:16] != exp[4:16] or len(got) != len(exp) else "length" if got[16:20] != exp[16:20] else "checksum" if got[20:24] != exp[20:24] else "payload"
        _viol(ctx, "envelope-serialize-differs:" + field, f"{net} {cmd!r} payload {len(payload)}: header {got[:24].hex()} expected {exp[:24].hex()}", case)
    ctx.count("envelope:net=" + net)
    ctx.count("envelope:cmd-len=%d" % len(cmd))
    if len(payload) == 0:
        ctx.count("envelope:payload=0")
    if len(payload) >= 65536:
        ctx.count("envelope:payload>=65536")
    ctx.case(("env-ser", net, cmd, len(payload), fl.hash256(payload)))


def post_env_parse(args, kwargs, pre, out):
    ctx = contracts.ctx()
    if pre is None:
        return NotImplemented
    stream, pos, rest = pre
    net = kwargs.get("network", args[2] if len(args) > 2 else "mainnet")
    if net not in p2p.MAGIC:
        return NotImplemented
    st = p2p.parse_envelope(rest, net)
    neg = _state["negative"]
    case = {"op": "parse-envelope", "network": net, "raw": rest if len(rest) <= 8192 else None, "raw_len": len(rest), "class": neg}
    if case["raw"] is None:
        case["head"] = rest[:24]
        case["payload_digest"] = fl.hash256(rest[24:])
    if st[0] == "reject":
        reason = st[1]
        if reason == "empty":
            ctx.count("observed:parse-on-empty-stream-" + ("raises" if out[0] == "exc" else "returns"))
            return NotImplemented
        if out[0] == "ok":
            _viol(ctx, "envelope-accepts:" + reason, f"{net}: {reason} ({neg or 'unclassified'}; header {rest[:24].hex()}, {max(0, len(rest) - 24)} payload bytes present) parsed as {getattr(out[1], 'command', None)!r}", case)
        else:
            ctx.rejected_by_exception += 1
            ctx.count("reject:" + reason)
        ctx.case(("env-neg", net, fl.hash256(rest)))
        return None
    _, cmd, payload, consumed = st
    if b"\x00" in cmd:
        # zero padding is TRAILING: a NUL byte before the last non-NUL byte belongs to the command and round-trips
        ctx.count("command:leading-or-embedded-nul")
    if out[0] == "exc":
        _viol(ctx, "envelope-rejects-valid", f"{net} {cmd!r} payload {len(payload)}: raised {out[1]!r}", case)
    else:
        e = out[1]
        if getattr(e, "command", None) != cmd or getattr(e, "payload", None) != payload or getattr(e, "magic", None) != p2p.MAGIC[net]:
            _viol(ctx, "envelope-parse-differs", f"{net}: parsed command {getattr(e, 'command', None)!r} / {len(getattr(e, 'payload', b''))} payload bytes, expected {cmd!r} / {len(payload)}", case)
        if stream.tell() - pos != consumed:
            _viol(ctx, "envelope-parse-consumes-wrong-number-of-bytes", f"consumed {stream.tell() - pos}, the envelope has {consumed}", case)
        ctx.count("envelope:accepted-valid")
        if neg == "command":
            ctx.count("command-corruption:parsed-with-same-payload")
    ctx.case(("env-parse", net, fl.hash256(rest[:consumed])))


# ---- contracts: messages --------------------------------------------------------------------------------------
def _ser(label, fields_fn):
    """Contract factory for serialize(): fields_fn(self) -> (expected bytes, case dict, classes) or None."""

    def post(args, kwargs, pre, out):
        ctx = contracts.ctx()
        r = fields_fn(args[0])
        if r is None:
            return NotImplemented
        exp, case, alt = r
        case["op"] = label
        if exp is None:
            # the object's fields contradict each other: no byte string is the protocol layout of them
            ctx.count(label + ":inconsistent-fields")
            if out[0] == "ok":
                _viol(ctx, label + "-serialises-inconsistent-fields", f"got {bytes(out[1])[:100].hex()} for {case.get('why')}", case)
            else:
                ctx.rejected_by_exception += 1
            return
        if out[0] == "exc":
            _viol(ctx, label + "-serialize-raises", f"raised {out[1]!r}", case)
        elif out[1] != exp:
            mech = label + "-layout-differs"
            for m, b in alt:
                if out[1] == b:
                    mech = m
            _viol(ctx, mech, f"got {bytes(out[1])[:100].hex()} expected {exp[:100].hex()}", case)
        ctx.case((label, fl.hash256(exp)))

    return post


def f_version(m):
    ok = (
        _u(m.version, 4) and _u(m.services, 8) and _u(m.timestamp, 8) and _u(m.receiver_services, 8) and _u(m.sender_services, 8)
        and _b(m.receiver_ip) and len(m.receiver_ip) == 4 and _b(m.sender_ip) and len(m.sender_ip) == 4 and _u(m.receiver_port, 2) and _u(m.sender_port, 2)
        and _b(m.nonce) and len(m.nonce) == 8 and _b(m.user_agent) and _u(m.latest_block, 4)
    )
    if not ok:
        return None
    a = (m.version, m.services, m.timestamp, m.receiver_services, bytes(m.receiver_ip), m.receiver_port, m.sender_services, bytes(m.sender_ip), m.sender_port,
         bytes(m.nonce), bytes(m.user_agent), m.latest_block, bool(m.relay))
    exp = p2p.version_payload(*a)
    swapped = p2p.version_payload(*a, ports_little_endian=True)
    ctx = contracts.ctx()
    if exp != swapped:
        ctx.count("version:asymmetric-port")
    if len(m.user_agent) >= 253:
        ctx.count("version:user-agent>=253")
    case = {"fields": list(a[:10]) + [a[10] if len(a[10]) <= 512 else None, len(a[10])] + list(a[11:])}
    return exp, case, [("version-port-byte-order", swapped)] if exp != swapped else []


def f_getheaders(m):
    if not (_u(m.version, 4) and type(m.num_hashes) is int and 0 <= m.num_hashes < 2**64 and _b(m.start_block) and len(m.start_block) == 32 and _b(m.end_block) and len(m.end_block) == 32):
        return None
    case = {"fields": [m.version, m.num_hashes, bytes(m.start_block), bytes(m.end_block)]}
    if m.num_hashes != 1:
        # the message object holds exactly one locator hash: a count other than 1 announces hashes that are not there
        # (the peer would read the stop hash as a locator and run out of data)
        case["why"] = f"hash count {m.num_hashes} with one locator hash"
        return None, case, []
    exp = p2p.getheaders_payload(m.version, m.num_hashes, [bytes(m.start_block)], bytes(m.end_block))
    return exp, case, []


def f_getdata(m):
    if not all(isinstance(t, tuple) and len(t) == 2 and _u(t[0], 4) and _b(t[1]) and len(t[1]) == 32 for t in m.data):
        return None
    if len(m.data) >= 253:
        contracts.ctx().count("getdata:items>=253")
    exp = p2p.getdata_payload([(t, bytes(h)) for t, h in m.data])
    return exp, {"fields": [[t, bytes(h)] for t, h in m.data][:300]}, []


def f_nonce(m):
    if not _b(m.nonce) or len(m.nonce) != 8:
        return None
    return p2p.ping_payload(bytes(m.nonce)), {"fields": [bytes(m.nonce)]}, []


def f_getcf(m):
    if not (_u(m.filter_type, 1) and _u(m.start_height, 4) and _b(m.stop_hash) and len(m.stop_hash) == 32):
        return None
    return p2p.getcfilters_payload(m.filter_type, m.start_height, bytes(m.stop_hash)), {"fields": [m.filter_type, m.start_height, bytes(m.stop_hash)]}, []


def f_getcfcheckpt(m):
    if not (_u(m.filter_type, 1) and _b(m.stop_hash) and len(m.stop_hash) == 32):
        return None
    return p2p.getcfcheckpt_payload(m.filter_type, bytes(m.stop_hash)), {"fields": [m.filter_type, bytes(m.stop_hash)]}, []


def f_block(b):
    ok = _u(b.version, 4) and _u(b.timestamp, 4) and _b(b.prev_block) and len(b.prev_block) == 32 and _b(b.merkle_root) and len(b.merkle_root) == 32 and _b(b.bits) and len(b.bits) == 4 and _b(b.nonce) and len(b.nonce) == 4
    if not ok:
        return None
    exp = p2p.block_header(b.version, bytes(b.prev_block), bytes(b.merkle_root), b.timestamp, bytes(b.bits), bytes(b.nonce))
    return exp, {"raw": exp}, []


def _parse(label, decode, compare):
    """Contract factory for parse(stream): decode(bytes) -> (expected fields, used) or raises ValueError;
    compare(obj, expected) -> list of differing field names."""

    def post(args, kwargs, pre, out):
        ctx = contracts.ctx()
        if pre is None:
            return NotImplemented
        stream, pos, rest = pre
        try:
            exp, used = decode(rest)
        except (ValueError, struct.error):
            ctx.count("observed:%s-parse-on-truncated-or-foreign-payload-%s" % (label, "raises" if out[0] == "exc" else "returns"))
            return NotImplemented
        case = {"op": label + "-parse", "raw": rest[:used] if used <= 20000 else None, "raw_len": used}
        if out[0] == "exc":
            e = out[1]
            if label == "pong" and isinstance(e, TypeError) and "missing" in str(e):
                _viol(ctx, "pong-parse-not-a-classmethod", f"PongMessage.parse(stream) raised {e!r}: a well-formed pong payload cannot be decoded", case)
            elif label == "cfilter" and not _filter_decodable(exp["filter_bytes"]):
                ctx.count("observed:cfilter-with-undecodable-filter-bytes")
                return NotImplemented
            else:
                _viol(ctx, label + "-parse-raises", f"raised {e!r} on a well-formed payload of {used} bytes", case)
        else:
            diff = compare(out[1], exp)
            if diff:
                _viol(ctx, label + "-parse-differs:" + diff[0], f"fields {diff} differ from the reference decode of {rest[:used][:80].hex()}..", case)
            if stream.tell() - pos != used:
                _viol(ctx, label + "-parse-consumes-wrong-number-of-bytes", f"consumed {stream.tell() - pos}, the payload has {used}", case)
        ctx.case((label + "-parse", fl.hash256(rest[:used])))

    return post


def _filter_decodable(fb):
    try:
        fl.gcs_decode(fb)
        return True
    except ValueError:
        return False


def d_nonce(raw):
    if len(raw) < 8:
        raise ValueError("truncated")
    return raw[:8], 8


def c_nonce(obj, exp):
    return [] if getattr(obj, "nonce", None) == exp else ["nonce"]


def d_headers(raw):
    hs, used = p2p.parse_headers(raw)
    if len(hs) >= 2:
        contracts.ctx().count("headers:count>=2")
    return hs, used


def _blk_diff(b, raw):
    f = p2p.parse_block_header(raw)
    got = (getattr(b, "version", None), getattr(b, "prev_block", None), getattr(b, "merkle_root", None), getattr(b, "timestamp", None), getattr(b, "bits", None), getattr(b, "nonce", None))
    names = ("version", "prev_block", "merkle_root", "timestamp", "bits", "nonce")
    want = (f["version"], f["prev_be"], f["root_be"], f["timestamp"], f["bits4"], f["nonce4"])
    return [n for n, g, w in zip(names, got, want) if g != w]


def c_headers(obj, exp):
    hs = getattr(obj, "headers", None)
    if not isinstance(hs, list) or len(hs) != len(exp):
        return ["count"]
    out = []
    for b, raw in zip(hs, exp):
        out += _blk_diff(b, raw)
    return sorted(set(out))


def d_block(raw):
    if len(raw) < 80:
        raise ValueError("truncated")
    return raw[:80], 80


def c_block(obj, exp):
    return _blk_diff(obj, exp)


def d_cfilter(raw):
    f, used = p2p.parse_cfilter(raw)
    if len(f["filter_bytes"]) >= 253:
        contracts.ctx().count("cfilter:filter>=253-bytes")
    return f, used


def c_cfilter(obj, exp):
    out = []
    if obj.filter_type != exp["filter_type"]:
        out.append("filter_type")
    if obj.block_hash != exp["block_hash_be"]:
        out.append("block_hash")
    if obj.filter_bytes != exp["filter_bytes"]:
        out.append("filter_bytes")
    return out


def d_cfheaders(raw):
    f, used = p2p.parse_cfheaders(raw)
    if len(f["filter_hashes"]) >= 253:
        contracts.ctx().count("cfheaders:count>=253")
    return f, used


def c_cfheaders(obj, exp):
    out = []
    for name, key in (("filter_type", "filter_type"), ("stop_hash", "stop_hash_be"), ("previous_filter_header", "prev_header"), ("filter_hashes", "filter_hashes")):
        if getattr(obj, name, None) != exp[key]:
            out.append(name)
    return out


def d_cfcheckpt(raw):
    f, used = p2p.parse_cfcheckpt(raw)
    if len(f["filter_headers"]) >= 1:
        contracts.ctx().count("cfcheckpt:count>=1")
    return f, used


def c_cfcheckpt(obj, exp):
    out = []
    for name, key in (("filter_type", "filter_type"), ("stop_hash", "stop_hash_be"), ("filter_headers", "filter_headers")):
        if getattr(obj, name, None) != exp[key]:
            out.append(name)
    return out


def install():
    import buidl  # noqa: F401  (loads every module holding aliases of the helper functions)
    from buidl import block, compactfilter, helper, network

    contracts.install(helper, "encode_varint", post_encode_varint)
    contracts.install(helper, "read_varint", post_read_varint, snap=snap_stream)
    contracts.install(helper, "encode_varstr", post_encode_varstr)
    contracts.install(helper, "read_varstr", post_read_varstr, snap=snap_stream)
    contracts.install(helper, "int_to_little_endian", _post_int_encode(p2p.int_le, "int_to_little_endian"))
    contracts.install(helper, "int_to_big_endian", _post_int_encode(p2p.int_be, "int_to_big_endian"))
    contracts.install(helper, "little_endian_to_int", _post_int_decode(p2p.le_int, "little_endian_to_int"))
    contracts.install(helper, "big_endian_to_int", _post_int_decode(p2p.be_int, "big_endian_to_int"))
    contracts.install(helper, "int_to_byte", post_int_to_byte)
    contracts.install(helper, "byte_to_int", post_byte_to_int)
    contracts.install(network.NetworkEnvelope, "serialize", post_env_serialize)
    contracts.install(network.NetworkEnvelope, "parse", post_env_parse, snap=snap_stream)
    contracts.install(network.VersionMessage, "serialize", _ser("version", f_version))
    contracts.install(network.GetHeadersMessage, "serialize", _ser("getheaders", f_getheaders))
    contracts.install(network.GetDataMessage, "serialize", _ser("getdata", f_getdata))
    contracts.install(network.PingMessage, "serialize", _ser("ping", f_nonce))
    contracts.install(network.PongMessage, "serialize", _ser("pong", f_nonce))
    contracts.install(network.PingMessage, "parse", _parse("ping", d_nonce, c_nonce), snap=snap_stream)
    contracts.install(network.PongMessage, "parse", _parse("pong", d_nonce, c_nonce), snap=snap_stream)
    contracts.install(network.HeadersMessage, "parse", _parse("headers", d_headers, c_headers), snap=snap_stream)
    contracts.install(compactfilter.GetCFiltersMessage, "serialize", _ser("getcfilters", f_getcf))
    contracts.install(compactfilter.GetCFHeadersMessage, "serialize", _ser("getcfheaders", f_getcf))
    contracts.install(compactfilter.GetCFCheckPointMessage, "serialize", _ser("getcfcheckpt", f_getcfcheckpt))
    contracts.install(compactfilter.CFilterMessage, "parse", _parse("cfilter", d_cfilter, c_cfilter), snap=snap_stream)
    contracts.install(compactfilter.CFHeadersMessage, "parse", _parse("cfheaders", d_cfheaders, c_cfheaders), snap=snap_stream)
    contracts.install(compactfilter.CFCheckPointMessage, "parse", _parse("cfcheckpt", d_cfcheckpt, c_cfcheckpt), snap=snap_stream)
    contracts.install(block.Block, "parse_header", _parse("block-header", d_block, c_block), snap=snap_stream)
    contracts.install(block.Block, "serialize", _ser("block-header", f_block))


# ---- workload: primitives ------------------------------------------------------------------------------------
VARINT_EDGES = [0, 1, 0x7F, 0x80, 0xFB, 0xFC, 0xFD, 0xFE, 0xFF, 0x100, 0x101, 0xFFFE, 0xFFFF, 0x10000, 0x10001, 0xFFFFFF, 0x1000000, 0xFFFFFFFE, 0xFFFFFFFF,
                0x100000000, 0x100000001, 2**40, 2**63 - 1, 2**63, 2**64 - 2, 2**64 - 1]


def wl_primitives(ctx, rng, idx, n):
    from buidl import helper as h

    quick = ctx.tier == "quick"
    vals = list(VARINT_EDGES)
    for e in VARINT_EDGES:
        vals += [max(0, min(2**64 - 1, e + d)) for d in (-2, 2, rng.randrange(-200, 200))]
    vals += [rng.getrandbits(rng.randrange(1, 65)) for _ in range(12000 if quick else 100000)]
    for v in vals:
        o = outcome(h.encode_varint, v)
        if o[0] == "ok":
            tail = rng.getrandbits(24).to_bytes(3, "big")
            s = BytesIO(o[1] + tail)
            r = outcome(h.read_varint, s)
            if r[0] == "ok" and r[1] != v:
                _viol(ctx, "varint-roundtrip", f"read(encode({v:#x})) = {r[1]!r}", {"op": "varint", "n": v})
            ctx.monitor("varint-roundtrip")
    for v in (2**64, 2**64 + 1, 2**70, -1):
        outcome(h.encode_varint, v)
    # decoding of every prefix byte with random following bytes (includes non-canonical forms), and truncated forms
    for first in (0, 1, 0xFC, 0xFD, 0xFE, 0xFF):
        for _ in range(150 if quick else 900):
            body = rng.getrandbits(64).to_bytes(8, "big") if rng.random() < 0.7 else bytes(rng.choice([0, 1, 0xFC, 0xFD, 0xFF]) if i == 0 else 0 for i in range(8))
            outcome(h.read_varint, BytesIO(bytes([first]) + body))
        outcome(h.read_varint, BytesIO(bytes([first]) + b"\x01"))
    outcome(h.read_varint, BytesIO(b""))
    # var-strings
    lens = [0, 1, 2, 0xFB, 0xFC, 0xFD, 0xFE, 0xFF, 0x100, 1000] + ([0xFFFF, 0x10000] if idx % 4 == 0 else []) + ([100000] if idx % 8 == 1 else [])
    lens += [rng.randrange(0, 600) for _ in range(1500 if quick else 9000)]
    for ln in lens:
        data = rng.getrandbits(8 * ln).to_bytes(ln, "big") if ln else b""
        o = outcome(h.encode_varstr, data)
        if o[0] == "ok":
            s = BytesIO(o[1] + b"\xaa\xbb")
            r = outcome(h.read_varstr, s)
            if r[0] == "ok" and r[1] != data:
                _viol(ctx, "varstr-roundtrip", f"read(encode(len {ln})) differs", {"op": "varstr", "data": data if ln <= 4096 else None, "len": ln})
            ctx.monitor("varstr-roundtrip")
    outcome(h.read_varstr, BytesIO(b"\x05abc"))
    # fixed-width integers
    for width in (1, 2, 3, 4, 8, 16, 32):
        top = 1 << (8 * width)
        edge = [0, 1, 0x7F, 0x80, 0xFF, 0x100, top // 2 - 1, top // 2, top - 2, top - 1, 0x0102030405060708 % top]
        for v in edge + [rng.randrange(top) for _ in range(1000 if quick else 6000)]:
            for enc, dec in ((h.int_to_little_endian, h.little_endian_to_int), (h.int_to_big_endian, h.big_endian_to_int)):
                o = outcome(enc, v, width)
                if o[0] == "ok":
                    r = outcome(dec, o[1])
                    if r[0] == "ok" and r[1] != v:
                        _viol(ctx, "int-roundtrip", f"width {width}: decode(encode({v:#x})) = {r[1]!r}", {"op": enc.__name__, "n": v, "length": width})
                    ctx.monitor("int-roundtrip")
        for v in (top, top + 1, -1):
            outcome(h.int_to_little_endian, v, width)
            outcome(h.int_to_big_endian, v, width)
    for v in range(256):
        o = outcome(h.int_to_byte, v)
        if o[0] == "ok":
            outcome(h.byte_to_int, o[1])
    for v in (-1, 256, 1000):
        outcome(h.int_to_byte, v)
    ctx.exhaustive.append("int_to_byte / byte_to_int over all 256 values")


# ---- workload: envelopes -------------------------------------------------------------------------------------
def rand_command(rng, ln):
    c = bytearray(rng.choice(b"abcdefghijklmnopqrstuvwxyz0123456789") for _ in range(ln))
    if ln >= 2 and rng.random() < 0.1:
        # NUL bytes in front of / inside the command (never last: trailing NULs are the padding)
        for _ in range(rng.choice([1, 1, 2, ln - 1])):
            c[rng.randrange(0, ln - 1)] = 0
    return bytes(c)


REAL_COMMANDS = [b"version", b"verack", b"ping", b"pong", b"getheaders", b"headers", b"getdata", b"getcfilters", b"cfilter", b"getcfheaders",
                 b"cfheaders", b"getcfcheckpt", b"cfcheckpt", b"merkleblock", b"tx", b"block", b"filterload"]


def neg_parse(ctx, cls, raw, net):
    from buidl.network import NetworkEnvelope

    _state["negative"] = cls
    try:
        return outcome(NetworkEnvelope.parse, BytesIO(raw), net)
    finally:
        _state["negative"] = None


def corrupt_every_position(ctx, rng, net, cmd, payload, variants):
    e = p2p.envelope(net, cmd, payload)
    follower = p2p.envelope(net, b"ping", rng.getrandbits(64).to_bytes(8, "big"))
    length = len(payload)
    for i in range(len(e)):
        vals = {e[i] ^ 0x01, e[i] ^ 0x80, e[i] ^ 0xFF, (e[i] + 1 + rng.randrange(254)) % 256}
        vals.discard(e[i])
        for v in sorted(vals)[:variants]:
            raw = e[:i] + bytes([v]) + e[i + 1 :]
            if i < 4:
                cls = "magic"
            elif i < 16:
                cls = "command"
            elif i < 20:
                new_len = struct.unpack("<I", raw[16:20])[0]
                cls = "length-up" if new_len > length else "length-down"
            elif i < 24:
                cls = "checksum"
            else:
                cls = "payload"
            ctx.count("corrupt:" + cls)
            neg_parse(ctx, cls, raw, net)
            ctx.count("corrupt:followed-by-next-message")
            neg_parse(ctx, cls, raw + follower, net)
    ctx.exhaustive.append("every byte position of each sampled envelope corrupted (alone and followed by a second message)")


def wl_envelopes(ctx, rng, idx, n):
    from buidl.network import NetworkEnvelope

    quick = ctx.tier == "quick"
    sizes = [0, 1, 2, 3, 31, 32, 33, 0xFC, 0xFD, 255, 256, 1000, 0xFFFF, 0x10000, 100000]
    combos = []
    for net in p2p.NETWORKS:
        for cl in range(13):
            combos.append((net, cl))
    k = 0
    for net, cl in combos:
        for rep in range(40 if quick else 240):
            k += 1
            if k % 4 != idx % 4:
                continue
            cmd = rand_command(rng, cl) if rng.random() < 0.6 or cl == 0 else (rng.choice([c for c in REAL_COMMANDS if len(c) == cl] or [rand_command(rng, cl)]))
            sz = sizes[(k // 4 + idx) % len(sizes)] if rng.random() < 0.5 else rng.randrange(0, 300)
            if sz > 70000 and (quick and idx % 4 != 1):
                sz = 0x10000
            payload = rng.getrandbits(8 * sz).to_bytes(sz, "big") if sz else b""
            o = outcome(NetworkEnvelope, cmd, payload, net)
            if o[0] != "ok":
                continue
            s = outcome(o[1].serialize)
            ref_bytes = p2p.envelope(net, cmd, payload)
            # parse what the library produced, what the reference produced, and two messages back to back
            if s[0] == "ok":
                outcome(NetworkEnvelope.parse, BytesIO(s[1]), net)
            st = BytesIO(ref_bytes + p2p.envelope(net, b"verack", b"") + b"trailing")
            a = outcome(NetworkEnvelope.parse, st, net)
            b = outcome(NetworkEnvelope.parse, st, net)
            if a[0] == "ok" and b[0] == "ok" and (b[1].command, b[1].payload) != (b"verack", b""):
                _viol(ctx, "envelope-stream-desynchronised", "second message of a stream not parsed as sent", {"op": "parse-envelope", "network": net, "raw": st.getvalue()[:8192], "class": None})
            if k % 40 == idx % 40:
                ctx.sample({"op": "envelope", "network": net, "command": cmd, "payload_len": sz, "header": ref_bytes[:24]})
    if idx == 1 or not quick:
        big = rng.getrandbits(8 * 100000).to_bytes(100000, "big")
        o = outcome(NetworkEnvelope, b"block", big, "mainnet")
        if o[0] == "ok":
            sb = outcome(o[1].serialize)
            if sb[0] == "ok":
                outcome(NetworkEnvelope.parse, BytesIO(sb[1]), "mainnet")
                neg_parse(ctx, "payload", sb[1][:-1] + bytes([sb[1][-1] ^ 1]), "mainnet")
                neg_parse(ctx, "truncated", sb[1][:-1], "mainnet")
    # default network argument
    outcome(NetworkEnvelope.parse, BytesIO(bytes.fromhex(p2p._VERACK)))
    outcome(NetworkEnvelope.parse, BytesIO(bytes.fromhex(p2p._VERSION_ENV)))
    # negative workloads on sampled envelopes
    nsamples = 90 if quick else 700
    for si in range(nsamples):
        if ctx.out_of_time():
            return
        net = p2p.NETWORKS[(si + idx) % 4]
        cl = [0, 12, 4, 7, 1, 11][(si + idx) % 6]
        cmd = rand_command(rng, cl)
        sz = [0, 1, 8, 33, 70, 5][(si * 5 + idx) % 6] if si < 6 else rng.randrange(0, 64)
        payload = rng.getrandbits(8 * sz).to_bytes(sz, "big") if sz else b""
        e = p2p.envelope(net, cmd, payload)
        corrupt_every_position(ctx, rng, net, cmd, payload, 3 if quick else 4)
        # every truncation
        for cut in range(len(e)):
            ctx.count("truncate:every-prefix")
            neg_parse(ctx, "truncated", e[:cut], net)
        # foreign network
        for other in p2p.NETWORKS:
            if other != net:
                ctx.count("negative:foreign-network")
                neg_parse(ctx, "magic", e, other)
        # declared length larger than what is there, checksum matching the bytes that are there
        for extra in (1, 2, 255, 256, 0x10000, 2**32 - 1 - sz):
            if sz + extra < 2**32:
                raw = p2p.MAGIC[net] + struct.pack("<12sI4s", cmd, sz + extra, p2p.hash256(payload)[:4]) + payload
                ctx.count("negative:declared-length-too-large")
                neg_parse(ctx, "length-up", raw, net)
        # payload shortened by k bytes with the checksum of the shortened payload
        for cutk in (1, 2, sz):
            if 0 < cutk <= sz:
                short = payload[: sz - cutk]
                raw = p2p.MAGIC[net] + struct.pack("<12sI4s", cmd, sz, p2p.hash256(short)[:4]) + short
                ctx.count("negative:declared-length-too-large")
                neg_parse(ctx, "length-up", raw, net)
    # one large envelope with sampled corruptions
    if idx % 4 == 2:
        net = p2p.NETWORKS[(idx // 4) % 4]
        payload = rng.getrandbits(8 * 3000).to_bytes(3000, "big")
        e = p2p.envelope(net, b"tx", payload)
        for i in sorted({0, 3, 4, 15, 16, 17, 18, 19, 20, 23, 24, len(e) - 1} | {rng.randrange(len(e)) for _ in range(30)}):
            raw = e[:i] + bytes([e[i] ^ (1 << rng.randrange(8))]) + e[i + 1 :]
            neg_parse(ctx, "sampled", raw, net)


# ---- workload: messages --------------------------------------------------------------------------------------
def h32(rng):
    return rng.getrandbits(256).to_bytes(32, "big")


def edge(rng, width):
    top = 1 << (8 * width)
    return rng.choice([0, 1, 0x7F, 0x80, 0xFF, 0x100 % top, top // 2 - 1, top // 2, top - 2, top - 1, rng.randrange(top), rng.randrange(top)])


def wl_messages(ctx, rng, idx, n):
    from buidl import compactfilter as cf
    from buidl import network as nw
    from buidl.block import Block

    quick = ctx.tier == "quick"
    reps = 600 if quick else 4500
    # version
    for r in range(reps):
        ua_len = rng.choice([0, 1, 27, 0xFC, 0xFD, 0xFE, 300]) if r % 3 == 0 else rng.randrange(0, 40)
        if r == 1 and idx % 8 == 0:
            ua_len = 0x10000
        kw = dict(
            version=edge(rng, 4), services=edge(rng, 8), timestamp=edge(rng, 8), receiver_services=edge(rng, 8),
            receiver_ip=rng.getrandbits(32).to_bytes(4, "big"), receiver_port=rng.choice([8333, 18333, 38333, 18444, 0, 1, 0x0100, 0x0101, 0xFFFF, 0xFF00, 0x00FF, rng.randrange(65536)]),
            sender_services=edge(rng, 8), sender_ip=rng.getrandbits(32).to_bytes(4, "big"), sender_port=rng.choice([8333, 0, 0x1234, 0x3412, 0xABAB, rng.randrange(65536)]),
            nonce=rng.getrandbits(64).to_bytes(8, "big"), user_agent=bytes(rng.choice(b"/abc:0.1") for _ in range(ua_len)), latest_block=edge(rng, 4), relay=rng.random() < 0.5,
        )
        o = outcome(nw.VersionMessage, **kw)
        if o[0] == "ok":
            v = outcome(o[1].serialize)
            if r < 2:
                ctx.sample({"op": "version", "receiver_port": kw["receiver_port"], "sender_port": kw["sender_port"], "library": v[1][:90] if v[0] == "ok" else v[1]})
    o = outcome(nw.VersionMessage, timestamp=0, nonce=b"\x00" * 8)  # defaults (both ports 8333)
    if o[0] == "ok":
        outcome(o[1].serialize)
    # getheaders
    for r in range(reps):
        kw = dict(version=edge(rng, 4), num_hashes=rng.choice([1, 1, 1, 0, 2, 0xFC, 0xFD, 0xFFFF, 0x10000, 2**32, 2**64 - 1]), start_block=h32(rng))
        if rng.random() < 0.5:
            kw["end_block"] = h32(rng)
        o = outcome(nw.GetHeadersMessage, **kw)
        if o[0] == "ok":
            outcome(o[1].serialize)
    # getdata
    for cnt in [0, 1, 2, 3] + ([0xFC, 0xFD, 300] if idx % 4 == 0 else []) + [rng.randrange(0, 12) for _ in range(reps // 3)]:
        g = nw.GetDataMessage()
        mine = []
        for _ in range(cnt):
            item = (rng.choice([1, 2, 3, 4, nw.WITNESS_TX_DATA_TYPE, nw.WITNESS_BLOCK_DATA_TYPE, 0, 2**32 - 1, rng.getrandbits(32)]), h32(rng))
            mine.append(item)
            g.add_data(*item)
        so = outcome(g.serialize)
        # a freshly constructed message carries exactly what was added to IT (nothing left over from the
        # messages built before it in this process)
        ctx.monitor("getdata-fresh-object")
        ctx.count("reuse:getdata-messages-built-in-sequence")
        exp = p2p.compact_size(len(mine)) + b"".join(t.to_bytes(4, "little") + h[::-1] for t, h in mine)
        if so[0] == "ok" and so[1] != exp:
            _viol(ctx, "getdata-carries-items-of-another-message", f"{cnt} items added to a new GetDataMessage, serialisation holds other data", {"op": "getdata-seq", "count": cnt})
    # ping / pong
    for r in range(reps):
        nonce = rng.choice([bytes(8), b"\xff" * 8, rng.getrandbits(64).to_bytes(8, "big")])
        for cls in (nw.PingMessage, nw.PongMessage):
            o = outcome(cls, nonce)
            if o[0] == "ok":
                outcome(o[1].serialize)
            p = outcome(cls.parse, BytesIO(nonce + b"extra"))
            if p[0] == "ok":
                outcome(p[1].serialize)
    # headers (parse only)
    for cnt in [0, 1, 2, 3] + ([0xFC, 0xFD] if idx % 4 == 1 else []) + [rng.randrange(1, 8) for _ in range(reps // 3)]:
        raws = [rng.getrandbits(640).to_bytes(80, "big") for _ in range(cnt)]
        o = outcome(nw.HeadersMessage.parse, BytesIO(p2p.headers_payload(raws) + b"\x00"))
        if o[0] == "ok":
            for b in o[1].headers[:3]:
                outcome(b.serialize)
    o = outcome(nw.HeadersMessage.parse, BytesIO(bytes.fromhex(p2p._HEADERS)))
    # block headers
    for r in range(reps * 3):
        raw = rng.getrandbits(640).to_bytes(80, "big")
        if r % 5 == 0:
            f = [edge(rng, 4), h32(rng), h32(rng), edge(rng, 4), rng.getrandbits(32).to_bytes(4, "big"), rng.getrandbits(32).to_bytes(4, "big")]
            raw = p2p.block_header(*f)
        o = outcome(Block.parse_header, BytesIO(raw + b"\x01"))
        if o[0] == "ok":
            s = outcome(o[1].serialize)
            if s[0] == "ok" and s[1] != raw:
                _viol(ctx, "block-header-roundtrip", "serialize(parse_header(raw)) != raw", {"op": "block-header-parse", "raw": raw})
            ctx.monitor("block-header-roundtrip")
            # edit history on the parsed object: every later serialize() must encode the fields as they are now
            # (the Block.serialize contract compares with the reference layout of the current fields)
            blk = o[1]
            field = ["nonce", "timestamp", "bits", "version", "prev_block", "merkle_root"][r % 6]
            if field in ("nonce", "bits"):
                setattr(blk, field, rng.getrandbits(32).to_bytes(4, "big"))
            elif field in ("timestamp", "version"):
                setattr(blk, field, (getattr(blk, field) + 1) % 2**32)
            else:
                setattr(blk, field, rng.getrandbits(256).to_bytes(32, "big"))
            outcome(blk.serialize)
            ctx.count("reuse:header-edited-then-serialized")
    # BIP157 requests
    for r in range(reps):
        ft, sh, stop = edge(rng, 1), edge(rng, 4), h32(rng)
        if r % 5 == 0:
            sh = 0  # the genesis height
        for cls in (cf.GetCFiltersMessage, cf.GetCFHeadersMessage):
            o = outcome(cls, ft, sh, stop)
            if o[0] == "ok":
                so = outcome(o[1].serialize)
                # what was *given to the constructor* is what must be on the wire (the serialize contract only
                # sees the object's fields, i.e. whatever the constructor stored)
                ctx.monitor("message-from-constructor-arguments")
                ctx.count("ctor-args:start-height=0" if sh == 0 else "ctor-args:other")
                if so[0] == "ok" and so[1] != p2p.getcfilters_payload(ft, sh, stop):
                    _viol(ctx, "request-does-not-carry-constructor-arguments:" + cls.__name__, f"filter_type={ft} start_height={sh}", {"op": "getcf-ctor", "cls": cls.__name__, "ft": ft, "sh": sh, "stop": stop})
        o = outcome(cf.GetCFCheckPointMessage, ft, stop)
        if o[0] == "ok":
            so = outcome(o[1].serialize)
            if so[0] == "ok" and so[1] != p2p.getcfcheckpt_payload(ft, stop):
                _viol(ctx, "request-does-not-carry-constructor-arguments:GetCFCheckPointMessage", f"filter_type={ft}", {"op": "getcf-ctor", "cls": "GetCFCheckPointMessage", "ft": ft, "stop": stop})
    # cfilter (parse only; the filter bytes must be a decodable Golomb-coded set because the constructor decodes them)
    for nel in [0, 1, 2, 3, 10] + ([90, 120] if idx % 2 == 0 else []) + [rng.randrange(0, 30) for _ in range(reps // 2)]:
        block_hash = h32(rng)
        key = block_hash[::-1][:16]
        els = list({rng.getrandbits(8 * ln).to_bytes(ln, "big") for ln in [rng.randrange(1, 40) for _ in range(nel)]})
        fb = fl.gcs_encode(key, els)
        payload = p2p.cfilter_payload(edge(rng, 1), block_hash, fb)
        o = outcome(cf.CFilterMessage.parse, BytesIO(payload + b"\x99"))
        if o[0] == "ok" and nel and els:
            ctx.monitor("cfilter-membership-after-parse")
            m = outcome(o[1].__contains__, _Raw(els[0]))
            if m != ("ok", True) and len(set(fl.hashed_set(key, els))) == len(els):
                _viol(ctx, "cfilter-parse-loses-element", "an element of the parsed filter is reported absent", {"op": "cfilter-parse", "raw": payload})
    # cfheaders / cfcheckpt (parse only)
    for cnt in [0, 1, 2, 3] + ([0xFC, 0xFD, 300] if idx % 4 == 2 else []) + [rng.randrange(0, 10) for _ in range(reps // 3)]:
        hashes = [h32(rng) for _ in range(cnt)]
        outcome(cf.CFHeadersMessage.parse, BytesIO(p2p.cfheaders_payload(edge(rng, 1), h32(rng), h32(rng), hashes) + b"\x07"))
        outcome(cf.CFCheckPointMessage.parse, BytesIO(p2p.cfcheckpt_payload(edge(rng, 1), h32(rng), hashes) + b"\x07"))
    # messages inside envelopes, as a node would receive them
    for cls, payload in ((nw.PingMessage, bytes(range(8))), (nw.PongMessage, bytes(range(8, 16))), (nw.HeadersMessage, bytes.fromhex(p2p._HEADERS))):
        net = rng.choice(p2p.NETWORKS)
        e = outcome(nw.NetworkEnvelope.parse, BytesIO(p2p.envelope(net, cls.command, payload)), net)
        if e[0] == "ok":
            outcome(cls.parse, e[1].stream())


class _Raw:
    def __init__(self, raw):
        self.raw = raw

    def raw_serialize(self):
        return self.raw


# ---- shards -----------------------------------------------------------------------------------------------------
def shards(tier, seed):
    n = 16
    return [{"name": "wire", "idx": i, "n": n, "budget_s": 900 if tier == "quick" else 5400} for i in range(n)]


def run_shard(desc, ctx):
    p2p.selfcheck()
    fl.selfcheck()
    install()
    idx, n = desc["idx"], desc["n"]
    _state["primitives"] = True
    wl_primitives(ctx, ctx.rng("primitives"), idx, n)
    _state["primitives"] = False
    wl_messages(ctx, ctx.rng("messages"), idx, n)
    wl_envelopes(ctx, ctx.rng("envelopes"), idx, n)
    wl_default_nonce(ctx)


def wl_default_nonce(ctx):
    """Fault injection at the library's randomness source: the default version nonce is drawn with randint(lo, hi);
    whatever value in [lo, hi] comes back - here both ends - the message has to serialise to its fixed layout."""
    from buidl import network as nw

    real = nw.randint
    for which in ("lo", "hi"):
        seen = []

        def stub(lo, hi, which=which, seen=seen):
            seen.append((lo, hi))
            return lo if which == "lo" else hi

        nw.randint = stub
        try:
            o = outcome(lambda: nw.VersionMessage().serialize())
        finally:
            nw.randint = real
        ctx.monitor("version-default-nonce")
        ctx.count("version:default-nonce-at-" + which)
        if seen and o[0] == "exc":
            _viol(ctx, "version-default-nonce-out-of-range", f"randint{seen[0]} returning its {which} bound makes VersionMessage().serialize() raise {o[1]}",
                  {"op": "default-nonce", "which": which})


# ---- replay -----------------------------------------------------------------------------------------------------
def replay(case, ctx):
    from buidl import compactfilter as cf
    from buidl import helper as h
    from buidl import network as nw
    from buidl.block import Block

    p2p.selfcheck()
    install()
    op = case.get("op")
    if op == "default-nonce":
        wl_default_nonce(ctx)
    if op == "varint":
        o = outcome(h.encode_varint, case["n"])
        if o[0] == "ok":
            outcome(h.read_varint, BytesIO(o[1]))
    elif op == "read-varint":
        outcome(h.read_varint, BytesIO(case["raw"]))
    elif op == "varstr" and case.get("data") is not None:
        outcome(h.encode_varstr, case["data"])
    elif op == "read-varstr" and case.get("raw") is not None:
        outcome(h.read_varstr, BytesIO(case["raw"]))
    elif op in ("int_to_little_endian", "int_to_big_endian"):
        outcome(getattr(h, op), case["n"], case["length"])
    elif op in ("little_endian_to_int", "big_endian_to_int", "byte_to_int"):
        outcome(getattr(h, op), case["data"])
    elif op == "int_to_byte":
        outcome(h.int_to_byte, case["n"])
    elif op == "envelope" and case.get("payload") is not None:
        o = outcome(nw.NetworkEnvelope, case["command"], case["payload"], case["network"])
        if o[0] == "ok":
            outcome(o[1].serialize)
    elif op == "parse-envelope" and case.get("raw") is not None:
        _state["negative"] = case.get("class")
        outcome(nw.NetworkEnvelope.parse, BytesIO(case["raw"]), case["network"])
        _state["negative"] = None
    elif op == "version":
        f = case["fields"]
        ua = f[10] if f[10] is not None else b"a" * f[11]
        m = nw.VersionMessage(version=f[0], services=f[1], timestamp=f[2], receiver_services=f[3], receiver_ip=f[4], receiver_port=f[5], sender_services=f[6],
                              sender_ip=f[7], sender_port=f[8], nonce=f[9], user_agent=ua, latest_block=f[12], relay=f[13])
        outcome(m.serialize)
    elif op == "getheaders":
        f = case["fields"]
        outcome(nw.GetHeadersMessage(version=f[0], num_hashes=f[1], start_block=f[2], end_block=f[3]).serialize)
    elif op == "getdata":
        g = nw.GetDataMessage()
        for t, hh in case["fields"]:
            g.add_data(t, hh)
        outcome(g.serialize)
    elif op in ("ping", "pong"):
        outcome((nw.PingMessage if op == "ping" else nw.PongMessage)(case["fields"][0]).serialize)
    elif op in ("getcfilters", "getcfheaders"):
        f = case["fields"]
        outcome((cf.GetCFiltersMessage if op == "getcfilters" else cf.GetCFHeadersMessage)(f[0], f[1], f[2]).serialize)
    elif op == "getcfcheckpt":
        outcome(cf.GetCFCheckPointMessage(case["fields"][0], case["fields"][1]).serialize)
    elif op == "block-header":
        o = outcome(Block.parse_header, BytesIO(case["raw"]))
        if o[0] == "ok":
            outcome(o[1].serialize)
    elif op.endswith("-parse") and case.get("raw") is not None:
        cls = {"ping-parse": nw.PingMessage, "pong-parse": nw.PongMessage, "headers-parse": nw.HeadersMessage, "cfilter-parse": cf.CFilterMessage,
               "cfheaders-parse": cf.CFHeadersMessage, "cfcheckpt-parse": cf.CFCheckPointMessage}.get(op)
        if cls is not None:
            outcome(cls.parse, BytesIO(case["raw"]))
        elif op == "block-header-parse":
            o = outcome(Block.parse_header, BytesIO(case["raw"]))
            if o[0] == "ok":
                outcome(o[1].serialize)
