"""C20 - BCUR ("ur:bytes") / bc32 / CBOR byte-string transport: exact reassembly or loud failure.

Monitors (contracts on the real functions, decided against ref.textenc):
  bech32.bc32encode / bc32decode      string == BCR-2020-004 encoder; decode == inverse, invalid -> None/raise
  bech32.cbor_encode / cbor_decode    header == RFC 8949 byte-string header (4-byte form: first byte recorded,
                                      see ASSUMPTIONS); decode(encode(x)) == x
  bcur.bcur_encode / bcur_decode      (body, digest) == reference; decode accepts exactly what the reference
                                      receiver accepts and returns the same payload
  BCURSingle.encode / BCURMulti.encode   strings == reference; every fragment <= chunk size, sequence 1..n of n,
                                      one digest, joined fragments == body
  BCURSingle.parse / BCURMulti.parse  reference receiver accepts -> same payload; reference rejects -> the library
                                      must not return data different from the payload that was sent
Negative workloads: all orderings/omissions of <=5 parts, parts of another payload, every single-character
substitution at every position of sampled parts (header, digest, fragment; to bech32 and non-bech32 characters).
"""
import hashlib
import itertools
from binascii import a2b_base64, b2a_base64

from ref import textenc as te
from vmon import contracts

PROPERTY_ID = "C20"
RULE = (
    "cases = (a) payloads of length 0..70000 crossing every CBOR header boundary through cbor_encode/cbor_decode, "
    "bc32encode/bc32decode, bcur_encode/bcur_decode; (b) (payload, chunk size) transports through BCURSingle/BCURMulti "
    "encode -> parse with chunk sizes around 1, the body length and its divisors; (c) for part counts 2..5 every "
    "ordered selection of parts other than the full in-order list, parts of a second payload of equal part count "
    "substituted one at a time / all fragments under the first payload's digest; (d) every single-character "
    "substitution at every position of sampled parts.  Every case is decided by contracts on the real functions "
    "against the reference codec/receiver; a negative case refutes when the library returns data different from "
    "the payload sent; distinct = distinct concrete inputs (payload, chunk size / list of part strings) by hash; "
    "non-trivial = the contract reached its comparison"
)
ASSUMPTIONS = [
    "payloads >= 65536 bytes: the library writes first byte 0x60 where RFC 8949 has 0x5a for the 4-byte length form, in both "
    "directions; the statement only demands that the decoder inverts the encoder, so this is recorded (observed:cbor-4byte-tag) and not alarmed",
    "edits that leave the payload identical (case changes, y of a 1of1 header, a corrupted digest copy in a non-first part "
    "when tolerated) may be accepted with identical data: counted as observed:accepted-identical-data",
    "cbor_decode / bcur_decode returning None is a rejection",
    "codec calls made inside a negative parse are evaluated by their contracts but only the parse itself is registered as a distinct case",
]

GATES = {
    "bc32-digit-only-corpus": ["bc32:digits-only-text"],
    "codec-monitors-ran": ["bech32.bc32encode", "bech32.bc32decode", "bech32.cbor_encode", "bech32.cbor_decode", "bcur.bcur_encode", "bcur.bcur_decode"],
    "transport-monitors-ran": ["BCURSingle.encode", "BCURSingle.parse", "BCURMulti.encode", "BCURMulti.parse"],
    "cbor-boundaries": [
        "cbor:len=0", "cbor:len=1", "cbor:len=22", "cbor:len=23", "cbor:len=24", "cbor:len=25", "cbor:len=254", "cbor:len=255", "cbor:len=256", "cbor:len=257",
        "cbor:len=65534", "cbor:len=65535", "cbor:len=65536", "cbor:len=65537", "cbor:len=70000",
    ],
    "bc32-padding-classes": ["bc32:bits%5=0", "bc32:bits%5=1", "bc32:bits%5=2", "bc32:bits%5=3", "bc32:bits%5=4"],
    "chunk-classes": [
        "chunk:size=1", "chunk:size=2", "chunk:size=3", "chunk:size=57", "chunk:size=58", "chunk:size=59", "chunk:size=299", "chunk:size=300", "chunk:size=301", "chunk:size=2000",
        "chunk:size=len", "chunk:size=len-1", "chunk:size=len+1", "chunk:size>len", "chunk:last-short", "chunk:all-equal", "chunk:parts=1", "chunk:parts=2", "chunk:parts=3",
        "chunk:parts=4", "chunk:parts=5", "chunk:parts>5", "chunk:parts>100", "chunk:animate=False", "single:with-digest", "single:without-digest",
    ],
    "order-and-omission": ["neg:omit-tail-in-order", "neg:omit-head", "neg:omit-middle", "neg:reordered-full", "neg:reordered-subset", "neg:single-part-of-n", "neg:duplicate-part"]
    + ["neg:parts=%d" % n for n in (2, 3, 4, 5)],
    "foreign-parts": ["neg:foreign-one-part", "neg:foreign-all-fragments-own-digest", "neg:foreign-digest-own-fragments", "neg:single-foreign-body-own-digest"],
    "substitution-regions": ["subst:prefix", "subst:slash", "subst:xofy", "subst:digest", "subst:fragment", "subst:in-multi-part", "subst:in-single+digest", "subst:in-single-no-digest", "subst:in-1of1"],
    "substitution-replacements": ["repl:bech32", "repl:non-bech32", "repl:slash", "repl:case", "repl:space", "repl:unicode-digit"],
    "receiver-verdicts": ["parse:ref-ok", "parse:ref-reject:order", "parse:ref-reject:count", "parse:ref-reject:bc32", "parse:ref-reject:digest", "parse:ref-reject:digest-differs-between-parts", "parse:ref-reject:charset", "parse:ref-reject:prefix", "parse:ref-reject:structure", "parse:ref-reject:xofy"],
}

_state = {"orig": None, "register": True}


def anchors():
    from buidl import bcur, bech32

    return [
        bech32.cbor_encode, bech32.cbor_decode, bech32.bc32encode, bech32.bc32decode, bech32.convertbits, bcur.bcur_encode, bcur.bcur_decode,
        bcur._parse_bcur_helper, bcur.BCURMulti.encode, bcur.BCURMulti.parse, bcur.BCURSingle.parse,
    ]


# ---- contracts ---------------------------------------------------------------------------
def _arg(args, kwargs, pos, name, default=None):
    if len(args) > pos:
        return args[pos]
    return kwargs.get(name, default)


def _short(x, n=80):
    r = repr(x)
    return r if len(r) <= n else r[:n] + "...(%d chars)" % len(r)


def _lib_header(n):
    """Header the transport is followed with: RFC 8949, except the recorded 0x60 deviation."""
    return te.cbor_bytes_header(n) if n < 65536 else b"\x60" + n.to_bytes(4, "big")


def post_bc32encode(args, kwargs, pre, out):
    ctx = contracts.ctx()
    data = _arg(args, kwargs, 0, "data")
    if not isinstance(data, (bytes, bytearray)):
        return NotImplemented
    data = bytes(data)
    case = {"op": "bc32encode", "data": data}
    exp = te.bc32_encode(data)
    ctx.count("bc32:bits%%5=%d" % ((8 * len(data)) % 5))
    if out[0] == "exc":
        ctx.violation("bc32encode-raises", f"raised {out[1]!r}", case)
    elif out[1] != exp:
        ctx.violation("bc32encode-wrong", f"got {_short(out[1])} expected {_short(exp)}", case)
    if _state["register"]:
        ctx.case(("bc32encode", hashlib.sha256(data).digest()))


def post_bc32decode(args, kwargs, pre, out):
    ctx = contracts.ctx()
    s = _arg(args, kwargs, 0, "bc32")
    if not isinstance(s, str):
        return NotImplemented
    case = {"op": "bc32decode", "s": s}
    exp = te.bc32_decode(s)
    if exp is not None:
        if out[0] == "exc" or out[1] is None:
            ctx.violation("bc32decode-rejects-valid", f"{_short(out[1])} on a valid bc32 string", case)
        elif bytes(out[1]) != exp:
            ctx.violation("bc32decode-wrong-value", f"got {_short(out[1])} expected {_short(exp)}", case)
    else:
        if out[0] == "ok" and out[1] is not None:
            ctx.violation("bc32decode-accepts-invalid", f"returned {_short(out[1])} for an invalid bc32 string", case)
        elif out[0] == "exc":
            ctx.rejected_by_exception += 1
        ctx.count("bc32decode:invalid-rejected")
    if _state["register"]:
        ctx.case(("bc32decode", hashlib.sha256(s.encode("utf-8", "replace")).digest()))


def _cbor_len_class(ctx, n):
    if n in (0, 1, 22, 23, 24, 25, 254, 255, 256, 257, 65534, 65535, 65536, 65537, 70000):
        ctx.count("cbor:len=%d" % n)
    ctx.count("cbor:form=" + ("direct" if n <= 23 else "1-byte" if n <= 255 else "2-byte" if n <= 65535 else "4-byte"))


def post_cbor_encode(args, kwargs, pre, out):
    ctx = contracts.ctx()
    data = _arg(args, kwargs, 0, "data")
    if not isinstance(data, (bytes, bytearray)):
        return NotImplemented
    data = bytes(data)
    case = {"op": "cbor_encode", "data": data}
    exp = te.cbor_encode_bytes(data)
    _cbor_len_class(ctx, len(data))
    if out[0] == "exc":
        ctx.violation("cbor-encode-raises", f"raised {out[1]!r}", case)
    elif out[1] != exp:
        got = bytes(out[1])
        if len(data) >= 65536 and got[1:] == exp[1:] and got[:1] == b"\x60":
            ctx.count("observed:cbor-4byte-tag-0x60-instead-of-0x5a")
        else:
            n = len(data)
            cls = "23/24" if n in (23, 24) else "255/256" if n in (255, 256) else "65535/65536" if n in (65535, 65536) else "other"
            ctx.violation("cbor-encode-wrong-header:boundary-" + cls, f"len {n}: header {got[:5].hex()} expected {exp[:5].hex()}", case)
    if _state["register"]:
        ctx.case(("cbor_encode", hashlib.sha256(data).digest()))


def post_cbor_decode(args, kwargs, pre, out):
    ctx = contracts.ctx()
    data = _arg(args, kwargs, 0, "data")
    if not isinstance(data, (bytes, bytearray)):
        return NotImplemented
    data = bytes(data)
    case = {"op": "cbor_decode", "data": data}
    exp = te.cbor_decode_bytes_alt(data)
    if exp is None:
        if out[0] == "ok" and out[1] is not None:
            ctx.count("observed:cbor_decode-accepts-malformed")
        return NotImplemented
    if data[0] in (0x5A, 0x5B):
        if out[0] == "exc" or out[1] != exp:
            ctx.count("observed:cbor_decode-rfc-4/8-byte-length-unsupported")
        return NotImplemented
    if out[0] == "exc":
        ctx.violation("cbor-decode-raises", f"raised {out[1]!r} on a well-formed byte string", case)
    elif out[1] != exp:
        ctx.violation("cbor-decode-wrong", f"len {len(exp)}: got {_short(out[1])}", case)
    if _state["register"]:
        ctx.case(("cbor_decode", hashlib.sha256(data).digest()))


def post_bcur_encode(args, kwargs, pre, out):
    ctx = contracts.ctx()
    data = _arg(args, kwargs, 0, "data")
    if not isinstance(data, (bytes, bytearray)):
        return NotImplemented
    data = bytes(data)
    case = {"op": "bcur_encode", "data": data}
    exp = te.ur_encode(data, _lib_header(len(data)))
    if out[0] == "exc":
        ctx.violation("bcur-encode-raises", f"raised {out[1]!r}", case)
    elif tuple(out[1]) != exp and tuple(out[1]) != te.ur_encode(data):
        which = "digest" if out[1][0] == exp[0] else "body"
        ctx.violation("bcur-encode-wrong-" + which, f"got {_short(out[1])} expected {_short(exp)}", case)
    if _state["register"]:
        ctx.case(("bcur_encode", hashlib.sha256(data).digest()))


def _decide_receiver(label, parts, single, out, get_payload, case):
    """Common oracle of bcur_decode / BCURSingle.parse / BCURMulti.parse."""
    ctx = contracts.ctx()
    exp, reason = te.ur_parse(parts, single=single)
    got = None
    if out[0] == "ok":
        got = get_payload(out[1])
    if reason == "ok":
        ctx.count("parse:ref-ok")
        if got is None:
            ctx.violation(label + "-rejects-valid", f"{_short(out[1])} on parts the reference receiver accepts", case)
        elif got != exp:
            ctx.violation(label + "-wrong-data", f"returned {len(got)} bytes {_short(got.hex(), 40)} expected {len(exp)} bytes {_short(exp.hex(), 40)}", case)
    else:
        ctx.count("parse:ref-reject:" + reason)
        if got is None:
            if out[0] == "exc":
                ctx.rejected_by_exception += 1
        else:
            orig = _state["orig"]
            if orig is not None and got == orig:
                ctx.count("observed:accepted-identical-data:" + reason)
            elif orig is not None or reason in ("bc32", "digest", "digest-format", "digest-differs-between-parts", "cbor", "charset"):
                ctx.violation(
                    label + "-returns-different-data:" + reason,
                    f"reference receiver rejects ({reason}) but {len(got)} bytes were returned: {_short(got.hex(), 40)}", case,
                )
            else:
                ctx.count("observed:%s-accepts-untagged:%s" % (label, reason))
    if _state["register"] or label != "bcur_decode":
        ctx.case((label, [hashlib.sha256(p.encode("utf-8", "replace")).digest() if isinstance(p, str) else repr(p) for p in parts]))


def post_bcur_decode(args, kwargs, pre, out):
    data = _arg(args, kwargs, 0, "data")
    checksum = _arg(args, kwargs, 1, "checksum")
    if not isinstance(data, str) or not (checksum is None or isinstance(checksum, str)) or "/" in data or "/" in (checksum or ""):
        return NotImplemented
    part = "ur:bytes/" + (checksum + "/" if checksum is not None else "") + data
    case = {"op": "bcur_decode", "data": data, "checksum": checksum, "orig": _state["orig"]}
    return _decide_receiver("bcur_decode", [part], True, out, lambda r: None if r is None else bytes(r), case)


def _obj_payload(obj):
    return a2b_base64(obj.text_b64)


def post_single_parse(args, kwargs, pre, out):
    s = _arg(args, kwargs, 1, "to_parse")
    if not isinstance(s, str):
        return NotImplemented
    case = {"op": "single_parse", "s": s, "orig": _state["orig"]}
    return _decide_receiver("single-parse", [s], True, out, _obj_payload, case)


def post_multi_parse(args, kwargs, pre, out):
    parts = _arg(args, kwargs, 1, "to_parse")
    if not isinstance(parts, (list, tuple)) or not all(isinstance(p, str) for p in parts):
        return NotImplemented
    case = {"op": "multi_parse", "parts": list(parts), "orig": _state["orig"]}
    return _decide_receiver("multi-parse", list(parts), False, out, _obj_payload, case)


def post_single_encode(args, kwargs, pre, out):
    ctx = contracts.ctx()
    self = args[0]
    use_checksum = _arg(args, kwargs, 1, "use_checksum", True)
    payload = a2b_base64(self.text_b64)
    case = {"op": "single_encode", "payload": payload, "use_checksum": bool(use_checksum)}
    body, dig = te.ur_encode(payload, _lib_header(len(payload)))
    exp = f"ur:bytes/{dig}/{body}" if use_checksum else f"ur:bytes/{body}"
    ctx.count("single:with-digest" if use_checksum else "single:without-digest")
    if out[0] == "exc":
        ctx.violation("single-encode-raises", f"raised {out[1]!r}", case)
    elif out[1] != exp:
        ctx.violation("single-encode-wrong", f"got {_short(out[1])} expected {_short(exp)}", case)
    ctx.case(("single_encode", hashlib.sha256(payload).digest(), bool(use_checksum)))


def post_multi_encode(args, kwargs, pre, out):
    ctx = contracts.ctx()
    self = args[0]
    size = _arg(args, kwargs, 1, "max_size_per_chunk", 300)
    animate = _arg(args, kwargs, 2, "animate", True)
    if animate is not False and (not isinstance(size, int) or isinstance(size, bool) or size < 1):
        return NotImplemented
    payload = a2b_base64(self.text_b64)
    case = {"op": "multi_encode", "payload": payload, "size": size, "animate": animate}
    body, dig = te.ur_encode(payload, _lib_header(len(payload)))
    if out[0] == "exc":
        ctx.violation("multi-encode-raises", f"raised {out[1]!r} for body length {len(body)}, chunk size {size}", case)
        ctx.case(("multi_encode", hashlib.sha256(payload).digest(), size, animate))
        return
    parts = list(out[1])
    frags = []
    problems = []
    for i, p in enumerate(parts):
        f = p.split("/") if isinstance(p, str) else []
        if len(f) != 4 or f[0] != "ur:bytes" or f[1] != "%dof%d" % (i + 1, len(parts)):
            problems.append(("header", f"part {i + 1} of {len(parts)} is {_short(p, 60)}"))
            continue
        if f[2] != dig:
            problems.append(("digest", f"part {i + 1} carries digest {f[2]} expected {dig}"))
        if animate is not False and len(f[3]) > size:
            problems.append(("fragment-exceeds-chunk-size", f"part {i + 1} has {len(f[3])} characters, chunk size {size}"))
        if not f[3]:
            problems.append(("empty-fragment", f"part {i + 1} of {len(parts)} is empty"))
        frags.append(f[3])
    if not parts:
        problems.append(("no-parts", "no parts returned"))
    if "".join(frags) != body:
        j = "".join(frags)
        kind = "truncated" if body.startswith(j) else ("not-the-body")
        problems.append(("fragments-do-not-join:" + kind, f"joined fragments have {len(j)} characters, body has {len(body)}"))
    if animate is False and len(parts) != 1:
        problems.append(("animate-false-multiple-parts", f"{len(parts)} parts"))
    for k, what in problems[:3]:
        ctx.violation("multi-encode:" + k, what + f" (body length {len(body)}, chunk size {size})", case)
    n = len(parts)
    if animate is False:
        ctx.count("chunk:animate=False")
    else:
        want_n = -(-len(body) // size)
        if n != want_n:
            ctx.count("observed:part-count-not-ceil")
        if frags != te.ur_split(body, max(n, 1)):
            ctx.count("observed:fragments-not-equalised")
        for s in (1, 2, 3, 57, 58, 59, 299, 300, 301, 2000):
            if size == s:
                ctx.count("chunk:size=%d" % s)
        ln = len(body)
        ctx.count("chunk:size=len" if size == ln else "chunk:size=len-1" if size == ln - 1 else "chunk:size=len+1" if size == ln + 1 else "chunk:size>len" if size > ln else "chunk:size<len-1")
        if frags and len(frags[-1]) < len(frags[0]):
            ctx.count("chunk:last-short")
        elif frags:
            ctx.count("chunk:all-equal")
    ctx.count("chunk:parts=%d" % n if n <= 5 else "chunk:parts>5")
    if n > 100:
        ctx.count("chunk:parts>100")
    ctx.case(("multi_encode", hashlib.sha256(payload).digest(), size, animate))


def install():
    import buidl  # noqa: F401
    from buidl import bcur, bech32

    contracts.install(bech32, "bc32encode", post_bc32encode, label="bech32.bc32encode")
    contracts.install(bech32, "bc32decode", post_bc32decode, label="bech32.bc32decode")
    contracts.install(bech32, "cbor_encode", post_cbor_encode, label="bech32.cbor_encode")
    contracts.install(bech32, "cbor_decode", post_cbor_decode, label="bech32.cbor_decode")
    contracts.install(bcur, "bcur_encode", post_bcur_encode, label="bcur.bcur_encode")
    contracts.install(bcur, "bcur_decode", post_bcur_decode, label="bcur.bcur_decode")
    contracts.install(bcur.BCURSingle, "encode", post_single_encode)
    contracts.install(bcur.BCURSingle, "parse", post_single_parse)
    contracts.install(bcur.BCURMulti, "encode", post_multi_encode)
    contracts.install(bcur.BCURMulti, "parse", post_multi_parse)


# ---- workload ----------------------------------------------------------------------------
PARAMS = {
    "quick": {"codec_rand": 120, "transports": 120, "perm_sets": 1, "subst_full": 5, "subst_sampled": 4, "sampled_positions": 25, "large": 1},
    "thorough": {"codec_rand": 6000, "transports": 7000, "perm_sets": 12, "subst_full": 110, "subst_sampled": 60, "sampled_positions": 60, "large": 6},
}
SMALL_LENGTHS = [0, 1, 2, 3, 4, 5, 22, 23, 24, 25, 26, 254, 255, 256, 257, 258]
LARGE_LENGTHS = [65534, 65535, 65536, 65537, 70000]
CHUNK_SIZES = [1, 2, 3, 57, 58, 59, 299, 300, 301, 2000]
NON_BECH32 = ["1", "b", "i", "o", "_", "-", ":"]


def shards(tier, seed):
    n = 16
    # the soft budget is only a safety cap (the workload is count-bounded); generous because the machine is shared
    quick = tier == "quick"
    return [{"name": "transport", "idx": i, "n": n, "budget_s": 1200 if quick else 14400, "hard_timeout_s": 1500 if quick else 18000} for i in range(n)]


def _try(fn, *a, **kw):
    try:
        return ("ok", fn(*a, **kw))
    except Exception as e:  # noqa: BLE001 - every outcome is an observation
        return ("exc", type(e).__name__ + ": " + str(e)[:100])


def _rand_payload(rng, n):
    kind = rng.randrange(8)
    if kind == 0:
        return b"\x00" * n
    if kind == 1:
        return b"\xff" * n
    return rng.randbytes(n)


def _b64(payload):
    return b2a_base64(payload).strip().decode()


def codec_case(ctx, payload):
    """cbor, bc32 and bcur codecs on one payload (all decided by the contracts) + inverse checks."""
    from buidl import bcur, bech32

    case = {"op": "codec", "payload": payload}
    c = _try(bech32.cbor_encode, payload)
    if c[0] == "ok":
        d = _try(bech32.cbor_decode, c[1])
        ctx.monitor("driver.cbor-inverse")
        if d[0] != "ok" or d[1] != payload:
            n = len(payload)
            cls = "23/24" if n in (23, 24) else "255/256" if n in (255, 256) else "65535/65536" if n in (65535, 65536) else "other"
            ctx.violation("cbor-not-inverse:boundary-" + cls, f"cbor_decode(cbor_encode(x)) gave {_short(d[1])} for len {n}", case)
    e = _try(bech32.bc32encode, payload)
    if e[0] == "ok":
        d = _try(bech32.bc32decode, e[1])
        ctx.monitor("driver.bc32-inverse")
        if d[0] != "ok" or d[1] != payload:
            ctx.violation("bc32-not-inverse", f"bc32decode(bc32encode(x)) gave {_short(d[1])} for len {len(payload)}", case)
    u = _try(bcur.bcur_encode, payload)
    if u[0] == "ok":
        _state["orig"] = payload
        for chk in (u[1][1], None):
            d = _try(bcur.bcur_decode, u[1][0], chk)
            ctx.monitor("driver.bcur-inverse")
            if d[0] != "ok" or d[1] != payload:
                ctx.violation("bcur-not-inverse", f"bcur_decode(bcur_encode(x)) gave {_short(d[1])} for len {len(payload)}", case)
        _state["orig"] = None


def transport(ctx, payload, size, animate=True, singles=True):
    """One payload through BCURMulti (and BCURSingle) exactly as a client would; returns the parts."""
    from buidl.bcur import BCURMulti, BCURSingle

    case = {"op": "transport", "payload": payload, "size": size, "animate": animate}
    text = _b64(payload)
    _state["orig"] = payload
    parts = None
    m = _try(BCURMulti, text_b64=text)
    if m[0] != "ok":
        ctx.violation("multi-constructor-raises", m[1], case)
    else:
        e = _try(m[1].encode, max_size_per_chunk=size, animate=animate)
        if e[0] == "ok":
            parts = e[1]
            back = _try(BCURMulti.parse, parts)
            ctx.monitor("driver.multi-roundtrip")
            if back[0] != "ok":
                ctx.violation("multi-roundtrip-raises", f"parse(encode(x)) raised {back[1]} (payload {len(payload)} bytes, chunk size {size}, {len(parts)} parts)", case)
            elif a2b_base64(back[1].text_b64) != payload:
                ctx.violation("multi-roundtrip-wrong-data", f"parse(encode(x)) != x (payload {len(payload)} bytes, chunk size {size})", case)
    if singles:
        s = _try(BCURSingle, text_b64=text)
        if s[0] != "ok":
            ctx.violation("single-constructor-raises", s[1], case)
        else:
            for use in (True, False):
                e = _try(s[1].encode, use_checksum=use)
                if e[0] != "ok":
                    continue
                back = _try(BCURSingle.parse, e[1])
                ctx.monitor("driver.single-roundtrip")
                if back[0] != "ok":
                    ctx.violation("single-roundtrip-raises", f"parse(encode(x)) raised {back[1]} (payload {len(payload)} bytes)", case)
                elif a2b_base64(back[1].text_b64) != payload:
                    ctx.violation("single-roundtrip-wrong-data", f"parse(encode(x)) != x (payload {len(payload)} bytes)", case)
    _state["orig"] = None
    ctx.case(("transport", hashlib.sha256(payload).digest(), size, animate))
    return parts


def _body_len(n):
    """bc32 body length (characters) of an n-byte payload."""
    return -(-8 * (n + len(te.cbor_bytes_header(n))) // 5) + 6


def transports_workload(ctx, rng, idx, n, p):
    # boundary payload lengths x the chunk-size catalogue, spread over the shards
    grid = [(ln, sz) for ln in SMALL_LENGTHS for sz in CHUNK_SIZES]
    for i, (ln, sz) in enumerate(grid):
        if i % n == idx:
            transport(ctx, _rand_payload(rng, ln), sz, singles=(sz == 300))
    # chunk sizes around the body length and around its divisors
    for j in range(6):
        ln = rng.choice([rng.randrange(0, 40), rng.randrange(0, 400), rng.choice(SMALL_LENGTHS)])
        payload = _rand_payload(rng, ln)
        bl = _body_len(ln)
        for sz in sorted({bl - 1, bl, bl + 1, bl + 50, -(-bl // 2), -(-bl // 2) - 1, -(-bl // 3), bl // 3, -(-bl // 5), 1}):
            if sz >= 1:
                transport(ctx, payload, sz, singles=False)
    transport(ctx, _rand_payload(rng, rng.randrange(0, 300)), 300, animate=False)
    for i in range(p["transports"]):
        ln = rng.choice([rng.randrange(0, 64), rng.randrange(0, 700), rng.randrange(0, 3000)])
        sz = rng.choice([rng.choice(CHUNK_SIZES), rng.randrange(1, 2001), rng.randrange(1, 40)])
        transport(ctx, _rand_payload(rng, ln), sz, singles=(i % 4 == 0))
        if ctx.out_of_time():
            return
    # committed corpus: payloads whose bc32 text consists of digits only (no letter at all - about 1 payload in
    # 10^6; found once with the reference encoder by tools/gen_c20_digit_corpus.py)
    import json
    import os

    cpath = os.path.join(os.path.dirname(os.path.dirname(os.path.abspath(__file__))), "corpus", "c20_digit_only_bc32.json")
    for item in json.load(open(cpath)):
        ctx.count("bc32:digits-only-text")
        codec_case(ctx, bytes.fromhex(item["payload"]))
    # the large payloads (2-byte/4-byte CBOR length boundary): few, they cost seconds each
    for k in range(p["large"]):
        ln = LARGE_LENGTHS[(idx + k) % len(LARGE_LENGTHS)] if k < 5 else rng.randrange(60000, 70001)
        sz = [2000, 300, 1999, 301, 20000][(idx // 5 + k) % 5]
        _state["register"] = True
        payload = _rand_payload(rng, ln)
        codec_case(ctx, payload)
        transport(ctx, payload, sz, singles=(k == 0 and idx % 2 == 0))
        ctx.sample({"large-transport": {"payload_len": ln, "chunk_size": sz}})
        if ctx.out_of_time():
            return


def codec_workload(ctx, rng, idx, n, p):
    for i, ln in enumerate(SMALL_LENGTHS + list(range(6, 22)) + [27, 31, 32, 33, 64, 100, 253, 259, 300, 1000, 4095, 4096]):
        if i % 4 == idx % 4:
            codec_case(ctx, _rand_payload(rng, ln))
    for _ in range(p["codec_rand"]):
        ln = rng.choice([rng.randrange(0, 30), rng.randrange(0, 300), rng.randrange(0, 2000)])
        codec_case(ctx, _rand_payload(rng, ln))
        if ctx.out_of_time():
            return


def _parts_for(rng, nparts, frag_hint):
    """(payload, size, parts) with exactly nparts parts; computed with the reference, checked by the caller."""
    for _ in range(200):
        ln = rng.randrange(max(1, nparts * frag_hint // 2), nparts * frag_hint + 8)
        payload = rng.randbytes(ln)
        body, dig = te.ur_encode(payload)
        size = -(-len(body) // nparts)
        if -(-len(body) // size) == nparts and len(te.ur_split(body, nparts)[-1]) > 0:
            return payload, size
    raise RuntimeError("could not build a payload with %d parts" % nparts)


def _multi_parse(seq, orig):
    from buidl.bcur import BCURMulti

    _state["orig"] = orig
    _state["register"] = False
    try:
        BCURMulti.parse(list(seq))
    except Exception:  # noqa: BLE001 - rejection (counted by the contract)
        pass
    _state["register"] = True
    _state["orig"] = None


def _single_parse(s, orig):
    from buidl.bcur import BCURSingle

    _state["orig"] = orig
    _state["register"] = False
    try:
        BCURSingle.parse(s)
    except Exception:  # noqa: BLE001
        pass
    _state["register"] = True
    _state["orig"] = None


def order_and_foreign(ctx, rng, nparts):
    from buidl.bcur import BCURSingle

    payload, size = _parts_for(rng, nparts, rng.choice([4, 12, 40]))
    parts = transport(ctx, payload, size, singles=False)
    if not parts or len(parts) != nparts:
        ctx.count("observed:perm-set-skipped")
        return
    ctx.count("neg:parts=%d" % nparts)
    full = tuple(range(nparts))
    for k in range(1, nparts + 1):
        for sel in itertools.permutations(range(nparts), k):
            if sel == full:
                continue
            in_order = list(sel) == sorted(sel)
            if k == 1 and nparts > 1:
                ctx.count("neg:single-part-of-n")
            if in_order and sel == full[:k]:
                ctx.count("neg:omit-tail-in-order")
            elif in_order and sel[0] != 0:
                ctx.count("neg:omit-head")
            elif in_order:
                ctx.count("neg:omit-middle")
            elif k == nparts:
                ctx.count("neg:reordered-full")
            else:
                ctx.count("neg:reordered-subset")
            _multi_parse([parts[i] for i in sel], payload)
    for j in range(nparts):
        ctx.count("neg:duplicate-part")
        _multi_parse(parts[: j + 1] + parts[j:], payload)
    ctx.exhaustive.append("every ordered selection of the parts of a message (part counts 2..5) other than the full in-order list")
    # parts of another payload with the same length => same part count and fragment lengths
    other = rng.randbytes(len(payload))
    oparts = transport(ctx, other, size, singles=False)
    if oparts and len(oparts) == nparts:
        for j in range(nparts):
            ctx.count("neg:foreign-one-part")
            _multi_parse(parts[:j] + [oparts[j]] + parts[j + 1 :], payload)
        split = [p.split("/") for p in parts]
        osplit = [p.split("/") for p in oparts]
        ctx.count("neg:foreign-all-fragments-own-digest")
        _multi_parse(["/".join(a[:3] + [b[3]]) for a, b in zip(split, osplit)], payload)
        ctx.count("neg:foreign-digest-own-fragments")
        _multi_parse(["/".join(a[:2] + [b[2]] + [a[3]]) for a, b in zip(split, osplit)], payload)
        a = _try(BCURSingle(text_b64=_b64(payload)).encode)[1].split("/")
        b = _try(BCURSingle(text_b64=_b64(other)).encode)[1].split("/")
        ctx.count("neg:single-foreign-body-own-digest")
        _single_parse("/".join([a[0], a[1], b[2]]), payload)


def _regions(part):
    """position -> region name for a part string."""
    f = part.split("/")
    names = {2: ["prefix", "fragment"], 3: ["prefix", "digest", "fragment"], 4: ["prefix", "xofy", "digest", "fragment"]}[len(f)]
    out = []
    for i, (seg, name) in enumerate(zip(f, names)):
        out += [name] * len(seg)
        if i < len(f) - 1:
            out.append("slash")
    return out


def _replacements(c, region):
    reps = [(x, "repl:bech32") for x in te.CHARSET if x != c]
    reps += [(x, "repl:non-bech32") for x in NON_BECH32 if x != c]
    if c != "/":
        reps.append(("/", "repl:slash"))
    if c.isalpha() and c.upper() != c:
        reps.append((c.upper(), "repl:case"))
    reps.append((" ", "repl:space"))
    if region == "xofy":
        reps.append(("٣", "repl:unicode-digit"))
    return reps


def substitute_part(ctx, rng, parts, j, orig, single, positions=None):
    part = parts[j]
    regions = _regions(part)
    kind = "subst:in-single-no-digest" if single and part.count("/") == 1 else "subst:in-single+digest" if single else "subst:in-1of1" if len(parts) == 1 else "subst:in-multi-part"
    todo = range(len(part)) if positions is None else sorted(rng.sample(range(len(part)), min(positions, len(part))))
    for pos in todo:
        region = regions[pos]
        for rep, rcls in _replacements(part[pos], region):
            ctx.count("subst:" + region)
            ctx.count(rcls)
            ctx.count(kind)
            mutated = part[:pos] + rep + part[pos + 1 :]
            if single:
                _single_parse(mutated, orig)
            else:
                _multi_parse(parts[:j] + [mutated] + parts[j + 1 :], orig)
    if positions is None:
        ctx.exhaustive.append("every position of a sampled part x (31/32 bech32 characters, non-bech32 characters, '/', case change, space)")


def substitution_workload(ctx, rng, idx, n, p):
    from buidl.bcur import BCURSingle

    def one(i, positions):
        shape = (i + idx) % 4
        if shape == 0:  # one part of a 2..4-part message
            nparts = 2 + (i + idx // 4) % 3
            payload, size = _parts_for(rng, nparts, rng.choice([6, 20]))
            parts = transport(ctx, payload, size, singles=False)
            if parts:
                substitute_part(ctx, rng, parts, rng.randrange(len(parts)), payload, False, positions)
        elif shape == 1:  # 1of1
            payload = rng.randbytes(rng.randrange(1, 40))
            parts = transport(ctx, payload, 2000, singles=False)
            if parts:
                substitute_part(ctx, rng, parts, 0, payload, False, positions)
        else:
            payload = rng.randbytes(rng.randrange(0, 50))
            s = _try(BCURSingle(text_b64=_b64(payload)).encode, use_checksum=(shape == 2))
            if s[0] == "ok":
                substitute_part(ctx, rng, [s[1]], 0, payload, True, positions)

    for i in range(p["subst_full"]):
        one(i, None)
        if ctx.out_of_time():
            return
    for i in range(p["subst_sampled"]):
        one(i + 1, p["sampled_positions"])
        if ctx.out_of_time():
            return


def run_shard(desc, ctx):
    te.selfcheck()
    install()
    idx, n = desc["idx"], desc["n"]
    p = PARAMS[ctx.tier]
    codec_workload(ctx, ctx.rng("codec"), idx, n, p)
    rng = ctx.rng("order")
    for rep in range(p["perm_sets"]):
        order_and_foreign(ctx, rng, 2 + (idx + rep) % 4)
        if ctx.out_of_time():
            return
    substitution_workload(ctx, ctx.rng("subst"), idx, n, p)
    transports_workload(ctx, ctx.rng("transport"), idx, n, p)


def replay(case, ctx):
    from buidl import bcur, bech32

    te.selfcheck()
    install()
    op = case.get("op")
    _state["orig"] = case.get("orig")
    if op == "bc32encode":
        _try(bech32.bc32encode, case["data"])
    elif op == "bc32decode":
        _try(bech32.bc32decode, case["s"])
    elif op == "cbor_encode":
        _try(bech32.cbor_encode, case["data"])
    elif op == "cbor_decode":
        _try(bech32.cbor_decode, case["data"])
    elif op == "bcur_encode":
        _try(bcur.bcur_encode, case["data"])
    elif op == "bcur_decode":
        _try(bcur.bcur_decode, case["data"], case.get("checksum"))
    elif op == "codec":
        codec_case(ctx, case["payload"])
    elif op == "single_encode":
        _try(bcur.BCURSingle(text_b64=_b64(case["payload"])).encode, use_checksum=case["use_checksum"])
    elif op == "multi_encode":
        _try(bcur.BCURMulti(text_b64=_b64(case["payload"])).encode, max_size_per_chunk=case["size"], animate=case["animate"])
    elif op == "single_parse":
        _single_parse(case["s"], case.get("orig"))
    elif op == "multi_parse":
        _multi_parse(case["parts"], case.get("orig"))
    elif op == "transport":
        transport(ctx, case["payload"], case["size"], animate=case.get("animate", True))
